(** C07 — executable model of pkg/obiseq reverse complement / subsequence / copy (revcomp.go,
    subseq.go, biosequence.go, join.go) as repaired by the fix: commits recorded in
    known_findings.d/C07.json; the pre-repair [_subseqMutation] is kept as [sub_mm_orig] and the
    pre-repair back-link of [ReverseComplement] as [orc_orig] for the [_refuted] theorems.
    The complement table comes from the REGENERATED file Gen/Tables.v (dumped from the current build
    on every run). Bytes are [N], positions [Z], indices / registers [nat].
    Round 2: objects also carry their features (Features(), a third buffer) and their mate (PairTo / UnPair /
    PairedWith()); constructors through the Write family (bytes stored as given, not lower-cased) and raw
    appends ([OWrite]); Join as repaired (the qualities follow the symbols; [join_val_orig] is the code before).
    Executable definitions only: proofs live in Proofs.v / Proofs2.v, property theorems in Props.v; the
    ownership model is Heap.v (+ HeapProofs.v), the validator of real pool traces Trace.v. *)
From Coq Require Import NArith ZArith List Bool.
From OBI.C07.Gen Require Import Tables.
Import ListNotations.
Open Scope N_scope.

(** ---------------- complement: nucComplement transcribed over the regenerated table *)
Definition comp (n : N) : N :=
  if (n =? 46) || (n =? 45) then n                       (* '.' '-' *)
  else if n =? 91 then 93                                (* '[' -> ']' *)
  else if n =? 93 then 91
  else if (65 <=? n) && (n <=? 122)                      (* 'A' .. 'z' *)
       then N.lor (nth (N.to_nat (N.land n 31)) revcmp_table 0) 32
  else 110.                                              (* 'n' *)

(** the alphabet of the property: acgtrymkswbdhvn.-[] *)
Definition iupac : list N := [97;99;103;116;114;121;109;107;115;119;98;100;104;118;110;46;45;91;93].
Definition iupac_letters : list N := [97;99;103;116;114;121;109;107;115;119;98;100;104;118;110].
(** what the complement must be, symbol by symbol (same order as [iupac]): tgcayrkmswvhdbn.-][ *)
Definition spec_comp_iupac : list N := [116;103;99;97;121;114;107;109;115;119;118;104;100;98;110;46;45;93;91].

Fixpoint lookup (k : N) (t : list (N * N)) : option N :=
  match t with [] => None | (a, b) :: t' => if a =? k then Some b else lookup k t' end.
Fixpoint nrange (n : nat) (from : N) : list N :=
  match n with O => [] | S n' => from :: nrange n' (from + 1) end.
Definition mem (c : N) (l : list N) : bool := existsb (N.eqb c) l.

(** ---------------- the in-place loop of ReverseComplement:
      for i, j := len-1, 0; i >= j; i-- { s[j], s[i] = f(s[i]), f(s[j]); j++ }              *)
Fixpoint upd {A} (i : nat) (x : A) (l : list A) : list A :=
  match l, i with
  | [], _ => []
  | _ :: t, O => x :: t
  | h :: t, S i' => h :: upd i' x t
  end.

Fixpoint swap_loop (f : N -> N) (fuel i j : nat) (s : list N) : list N :=
  match fuel with
  | O => s
  | S fuel' =>
    if Nat.ltb i j then s
    else let a := f (nth i s 0) in let b := f (nth j s 0) in
         (* tuple assignment: both right-hand sides are read first, s[j] is written, then s[i] *)
         let s' := upd i b (upd j a s) in
         match i with O => s' | S i' => swap_loop f fuel' i' (S j) s' end
  end.

(** the loop as the code starts it on a sequence of [len] symbols (nothing happens when len = 0:
    i = -1 < j = 0) *)
Definition run_loop (f : N -> N) (len : nat) (s : list N) : list N :=
  match len with O => s | S l' => swap_loop f (S len) l' O s end.

Definition rc_loop (s : list N) : list N := run_loop comp (length s) s.
Definition rc (s : list N) : list N := rev (map comp s).

(** ---------------- values: what an object holds (projected observables) *)
Definition key := list N.
Definition mmap := list (key * Z).                    (* pairing_mismatches: key -> 1-based position *)
(** [vfeat]: Features(); [vmate]: the object PairedWith() answers (index in [objs]) *)
Record value := mkv { vseq : list N; vqual : list N (* [] = no qualities *); vmm : option mmap;
                      vfeat : list N; vmate : option nat }.
Definition unpaired (v : value) : value := mkv (vseq v) (vqual v) (vmm v) (vfeat v) None.
Definition with_mate (v : value) (m : option nat) : value := mkv (vseq v) (vqual v) (vmm v) (vfeat v) m.

Inductive res (A : Type) := Ok (a : A) | Err | Panic.
Arguments Ok {A} a. Arguments Err {A}. Arguments Panic {A}.

(** _revcmpMutation: rev(m) swaps and complements b[1], b[9]; swaps the scores b[3..4], b[11..12] *)
Definition revkey (k : key) : key :=
  let g i := nth i k 0 in
  upd 12 (g 4%nat) (upd 11 (g 3%nat) (upd 4 (g 12%nat) (upd 3 (g 11%nat) (upd 9 (comp (g 1%nat)) (upd 1 (comp (g 9%nat)) k))))).
Definition key_wf (k : key) : bool := Nat.leb 13 (length k).

Definition rc_mm (len : Z) (m : mmap) : mmap :=
  map (fun kp => (revkey (fst kp), len - snd kp + 1)%Z) m.

Definition rc_val (v : value) : res value :=
  let len := length (vseq v) in
  let q := match vqual v with [] => [] | q => run_loop (fun x => x) len q end in
  match vmm v with
  | None => Ok (mkv (rc_loop (vseq v)) q None (vfeat v) (vmate v))
  | Some m => if forallb (fun kp => key_wf (fst kp)) m
              then Ok (mkv (rc_loop (vseq v)) q (Some (rc_mm (Z.of_nat len) m)) (vfeat v) (vmate v))
              else Panic                                  (* index out of range in rev(m) *)
  end.

(** ---------------- Subsequence *)
Definition slice {A} (s : list A) (a b : Z) : list A :=
  firstn (Z.to_nat (b - a)) (skipn (Z.to_nat a) s).

(** _subseqMutation(shift, srclen) on a window of [lseq] symbols (repaired code) *)
Definition sub_mm (shift srclen lseq : Z) (m : mmap) : mmap :=
  flat_map (fun kp =>
    let p := snd kp in
    if ((p <? 1) || (srclen <? p))%Z then []
    else let p1 := (p - shift)%Z in
         let p2 := if (p1 <=? 0)%Z then (p1 + srclen)%Z else p1 in
         if (p2 <=? lseq)%Z then [(fst kp, p2)] else []) m.
(** the code before the repair: keeps p < lseq, subtracts the shift *)
Definition sub_mm_orig (shift lseq : Z) (m : mmap) : mmap :=
  flat_map (fun kp => if (snd kp <? lseq)%Z then [(fst kp, snd kp - shift)%Z] else []) m.

(** the window computed by Subsequence: Ok (from', to', stitched) after the corrections; Go's % is Z.rem *)
Definition sub_window (len from to : Z) (circ : bool) : res (Z * Z) :=
  if ((to <=? from) && negb circ)%Z then Err
  else if (from <? 0)%Z then Err
  else if ((len <=? from) && negb circ)%Z then Err
  else if (len =? 0)%Z then Panic                          (* integer divide by zero *)
  else let from1 := Z.rem from len in
  if ((len <? to) && negb circ)%Z then Err
  else let to1 := (Z.rem (to - 1) len + 1)%Z in
  if (from1 <? to1)%Z then Ok (from1, to1)
  else if (to1 <? 0)%Z then Panic                          (* slice bounds out of range [:to] *)
  else Ok (from1, to1).

Definition window {A} (s : list A) (len from1 to1 : Z) : list A :=
  if (from1 <? to1)%Z then slice s from1 to1 else slice s from1 len ++ slice s 0 to1.

Definition sub_val (v : value) (from to : Z) (circ : bool) : res value :=
  let len := Z.of_nat (length (vseq v)) in
  match sub_window len from to circ with
  | Err => Err | Panic => Panic
  | Ok (from1, to1) =>
    let s := window (vseq v) len from1 to1 in
    let q := match vqual v with [] => [] | q => window q len from1 to1 end in
    (* the window is a new object: no features, no mate *)
    Ok (mkv s q (option_map (sub_mm from1 len (Z.of_nat (length s))) (vmm v)) [] None)
  end.

(** ---------------- the other operations of the histories *)
Definition to_lower (s : list N) : list N := map (fun c => if (65 <=? c) && (c <=? 90) then N.lor c 32 else c) s.

Fixpoint key_eqb (a b : key) : bool :=
  match a, b with [], [] => true | x :: a', y :: b' => (x =? y) && key_eqb a' b' | _, _ => false end.
Fixpoint mm_set (k : key) (p : Z) (m : mmap) : mmap :=
  match m with [] => [(k, p)] | (k', p') :: m' => if key_eqb k k' then (k, p) :: m' else (k', p') :: mm_set k p m' end.

(** Join (repaired: the qualities follow the symbols; seq2.Qualities() is the default vector of 40s when
    seq2 has none) and the code before the repair (symbols only) *)
Definition quals_or_default (v : value) : list N :=
  match vqual v with [] => repeat 40 (length (vseq v)) | q => q end.
Definition join_val (v v2 : value) : value :=
  mkv (vseq v ++ vseq v2) (match vqual v with [] => [] | q => q ++ quals_or_default v2 end) (vmm v) (vfeat v) (vmate v).
Definition join_val_orig (v v2 : value) : value := mkv (vseq v ++ vseq v2) (vqual v) (vmm v) (vfeat v) (vmate v).

(** round 3 — in-place edits that touch no other buffer: Clear (the sequence becomes empty, its buffer stays),
    ClearQualities, WriteQualities / WriteByteQualities (append scores), Grow (reserve room: no value changes) *)
Inductive edit := EClear | EClearQ | EWriteQ (q : list N) | EGrow.
Definition apply_edit (e : edit) (v : value) : value :=
  match e with
  | EClear => mkv [] (vqual v) (vmm v) (vfeat v) (vmate v)
  | EClearQ => mkv (vseq v) [] (vmm v) (vfeat v) (vmate v)
  | EWriteQ q => mkv (vseq v) (vqual v ++ q) (vmm v) (vfeat v) (vmate v)
  | EGrow => v
  end.

Inductive op :=
| ONew (s q : list N) (m : option mmap) (f : list N) (lower : bool)   (* lower = false: built through Write/WriteString/WriteByte *)
| OCopy (r : nat)
| ORc (r : nat) (inplace : bool)
| OSub (r : nat) (from to : Z) (circ : bool)
| OJoin (r r2 : nat) (inplace : bool)
| OSetSeq (r : nat) (s : list N)
| OSetQual (r : nat) (q : list N)
| OPoke (r : nat) (i b : N)
| OPokeQ (r : nat) (i b : N)
| OSetMm (r : nat) (m : mmap)
| OPokeMm (r : nat) (k : key) (p : Z)
| OWrite (r : nat) (s : list N)                          (* Write / WriteString / WriteByte: raw append *)
| OSetFeat (r : nat) (f : list N)
| OPokeF (r : nat) (i b : N)
| OPair (r r2 : nat)
| OUnpair (r : nat)
| ORecycle (r : nat)
| ONop                                                    (* pool churn / GC: no effect on any object *)
| OEdit (r : nat) (e : edit).                             (* Clear / ClearQualities / WriteQualities / Grow *)

(** registers name objects (an in-place operation returns the object it was applied to: the new
    register is an alias); objects are values — this IS the "no shared mutable state" semantics the
    real objects are compared against after every history *)
Record state := mks { regs : list (option nat); objs : list value }.
Definition st0 := mks [] [].
Inductive status := SOk | SErr | SPanic.

Definition obj_of (st : state) (r : nat) : option nat := nth r (regs st) None.
Definition val_of (st : state) (r : nat) : option value :=
  match obj_of st r with None => None | Some o => nth_error (objs st) o end.

Fixpoint first_reg (o : nat) (l : list (option nat)) (i : Z) : Z :=
  match l with
  | [] => (-1)%Z
  | Some o' :: l' => if Nat.eqb o o' then i else first_reg o l' (i + 1)%Z
  | None :: l' => first_reg o l' (i + 1)%Z
  end.

Definition alloc (st : state) (v : value) : (status * Z * Z) * state :=
  ((SOk, Z.of_nat (length (regs st)), (-1)%Z), mks (regs st ++ [Some (length (objs st))]) (objs st ++ [v])).
Definition alias (st : state) (o : nat) : (status * Z * Z) * state :=
  ((SOk, Z.of_nat (length (regs st)), first_reg o (regs st) 0%Z), mks (regs st ++ [Some o]) (objs st)).
Definition set_obj (st : state) (o : nat) (v : value) : state := mks (regs st) (upd o v (objs st)).
Definition quiet (st : state) : (status * Z * Z) * state := ((SOk, (-1)%Z, (-1)%Z), st).
Definition fails (s : status) (st : state) : (status * Z * Z) * state := ((s, (-1)%Z, (-1)%Z), st).

Definition step (st : state) (o : op) : (status * Z * Z) * state :=
  let on r (f : nat -> value -> (status * Z * Z) * state) :=
    match obj_of st r with
    | None => fails SErr st
    | Some ob => match nth_error (objs st) ob with None => fails SErr st | Some v => f ob v end
    end in
  match o with
  | ONew s q m f lower => alloc st (mkv (if lower then to_lower s else s) q m f None)
  | OCopy r => on r (fun _ v => alloc st (unpaired v))
  | ORc r inplace => on r (fun ob v =>
      match rc_val v with
      | Ok v' => if inplace then alias (set_obj st ob v') ob else alloc st (unpaired v')
      | Err => fails SErr st | Panic => fails SPanic st end)
  | OSub r from to circ => on r (fun _ v =>
      match sub_val v from to circ with
      | Ok v' => alloc st v' | Err => fails SErr st | Panic => fails SPanic st end)
  | OJoin r r2 inplace => on r (fun ob v => on r2 (fun _ v2 =>
      let v' := join_val v v2 in
      if inplace then alias (set_obj st ob v') ob else alloc st (unpaired v')))
  | OSetSeq r s => on r (fun ob v => quiet (set_obj st ob (mkv (to_lower s) (vqual v) (vmm v) (vfeat v) (vmate v))))
  | OSetQual r q => on r (fun ob v => quiet (set_obj st ob (mkv (vseq v) q (vmm v) (vfeat v) (vmate v))))
  | OPoke r i b => on r (fun ob v => quiet (set_obj st ob (mkv (upd (N.to_nat i) b (vseq v)) (vqual v) (vmm v) (vfeat v) (vmate v))))
  | OPokeQ r i b => on r (fun ob v => quiet (set_obj st ob (mkv (vseq v) (upd (N.to_nat i) b (vqual v)) (vmm v) (vfeat v) (vmate v))))
  | OSetMm r m => on r (fun ob v => quiet (set_obj st ob (mkv (vseq v) (vqual v) (Some m) (vfeat v) (vmate v))))
  | OPokeMm r k p => on r (fun ob v =>
      quiet (set_obj st ob (mkv (vseq v) (vqual v) (option_map (mm_set k p) (vmm v)) (vfeat v) (vmate v))))
  | OWrite r s => on r (fun ob v => quiet (set_obj st ob (mkv (vseq v ++ s) (vqual v) (vmm v) (vfeat v) (vmate v))))
  | OSetFeat r f => on r (fun ob v => quiet (set_obj st ob (mkv (vseq v) (vqual v) (vmm v) f (vmate v))))
  | OPokeF r i b => on r (fun ob v => quiet (set_obj st ob (mkv (vseq v) (vqual v) (vmm v) (upd (N.to_nat i) b (vfeat v)) (vmate v))))
  (* PairTo: s.paired = p; p.paired = s — the former mates of s and p keep their (now stale) links *)
  | OPair r r2 => on r (fun ob v => on r2 (fun ob2 _ =>
      let st1 := set_obj st ob (with_mate v (Some ob2)) in
      match nth_error (objs st1) ob2 with
      | Some v2 => quiet (set_obj st1 ob2 (with_mate v2 (Some ob)))
      | None => quiet st1 end))
  (* UnPair: s.paired.paired = nil (whatever it pointed to, even when the mate was recycled); s.paired = nil *)
  | OUnpair r => on r (fun ob v =>
      let st1 := match vmate v with
                 | Some m => match nth_error (objs st) m with Some vm => set_obj st m (with_mate vm None) | None => st end
                 | None => st end in
      match nth_error (objs st1) ob with
      | Some v1 => quiet (set_obj st1 ob (with_mate v1 None))
      | None => quiet st1 end)
  | ORecycle r => on r (fun ob _ =>
      quiet (mks (map (fun x => match x with Some o' => if Nat.eqb o' ob then None else x | None => None end) (regs st)) (objs st)))
  | ONop => quiet st
  | OEdit r e => on r (fun ob v => quiet (set_obj st ob (apply_edit e v)))
  end.

Fixpoint run (st : state) (ops : list op) : list (status * Z * Z) * state :=
  match ops with
  | [] => ([], st)
  | o :: ops' => let '(r, st') := step st o in let '(rs, st'') := run st' ops' in (r :: rs, st'')
  end.

(** ---------------- comparison with what the implementation answered *)
Fixpoint nlist_eqb (a b : list N) : bool :=
  match a, b with [] , [] => true | x :: a', y :: b' => (x =? y) && nlist_eqb a' b' | _, _ => false end.
Fixpoint key_leb (a b : key) : bool :=                   (* bytewise lexicographic, as Go compares strings *)
  match a, b with
  | [], _ => true | _ :: _, [] => false
  | x :: a', y :: b' => if x <? y then true else if y <? x then false else key_leb a' b'
  end.
Fixpoint mm_insert (kp : key * Z) (m : mmap) : mmap :=
  match m with [] => [kp] | kp' :: m' => if key_leb (fst kp) (fst kp') then kp :: m else kp' :: mm_insert kp m' end.
Definition mm_sort (m : mmap) : mmap := fold_right mm_insert [] m.
Fixpoint mm_eqb (a b : mmap) : bool :=
  match a, b with
  | [], [] => true
  | (k, p) :: a', (k', p') :: b' => key_eqb k k' && (p =? p')%Z && mm_eqb a' b'
  | _, _ => false end.
Definition omm_eqb (a b : option mmap) : bool :=
  match a, b with None, None => true | Some x, Some y => mm_eqb (mm_sort x) (mm_sort y) | _, _ => false end.
Definition value_eqb (a b : value) : bool :=
  nlist_eqb (vseq a) (vseq b) && nlist_eqb (vqual a) (vqual b) && omm_eqb (vmm a) (vmm b) && nlist_eqb (vfeat a) (vfeat b).
(** what a register shows of the mate: -1 none, the lowest register naming it, -2 when no register names it *)
Definition mate_obs (rg : list (option nat)) (v : value) : Z :=
  match vmate v with None => (-1)%Z | Some m => let i := first_reg m rg 0%Z in if (i <? 0)%Z then (-2)%Z else i end.
Definition oval := (value * Z)%type.
Definition oval_eqb (a b : oval) : bool := value_eqb (fst a) (fst b) && (snd a =? snd b)%Z.
Definition ovalue_eqb (a b : option oval) : bool :=
  match a, b with None, None => true | Some x, Some y => oval_eqb x y | _, _ => false end.
Definition status_eqb (a b : status) : bool :=
  match a, b with SOk, SOk | SErr, SErr | SPanic, SPanic => true | _, _ => false end.
Definition stepobs_eqb (a b : status * Z * Z) : bool :=
  let '(s, r, m) := a in let '(s', r', m') := b in status_eqb s s' && (r =? r')%Z && (m =? m')%Z.
Fixpoint list_eqb {A} (eqb : A -> A -> bool) (a b : list A) : bool :=
  match a, b with [], [] => true | x :: a', y :: b' => eqb x y && list_eqb eqb a' b' | _, _ => false end.

Definition snapshot (st : state) : list (option oval) :=
  map (fun r => match r with None => None | Some o => option_map (fun v => (v, mate_obs (regs st) v)) (nth_error (objs st) o) end) (regs st).

(** a correspondence case: the history, and what the implementation answered (per-step status /
    result register / aliased register, and the value of every register at the end) *)
Record hcase := mkh { hops : list op; hsteps : list (status * Z * Z); hfinal : list (option oval) }.
Definition hcase_ok (c : hcase) : bool :=
  let '(rs, st) := run st0 (hops c) in
  list_eqb stepobs_eqb rs (hsteps c) && list_eqb ovalue_eqb (snapshot st) (hfinal c).
Fixpoint mismatches_from (i : nat) (l : list hcase) : list nat :=
  match l with
  | [] => []
  | c :: l' => let rest := mismatches_from (S i) l' in if hcase_ok c then rest else i :: rest
  end.
Definition mismatches := mismatches_from 0.

(** ---------------- the pre-repair ReverseComplement with its back-link (for the refuted theorem):
    objects carry an optional link to the object they were complemented from *)
Record lstate := mkl { lregs : list nat; lobjs : list (list N * option nat) }.
Definition lrc (st : lstate) (r : nat) : nat (* object returned *) * lstate :=
  let ob := nth r (lregs st) 0%nat in
  match nth ob (lobjs st) ([], None) with
  | (_, Some src) => (src, mkl (lregs st ++ [src]) (lobjs st))          (* return sequence.revcomp *)
  | (s, None) => let n := length (lobjs st) in (n, mkl (lregs st ++ [n]) (lobjs st ++ [(rc_loop s, Some ob)]))
  end.
Definition lnew (st : lstate) (s : list N) : lstate :=
  mkl (lregs st ++ [length (lobjs st)]) (lobjs st ++ [(s, None)]).
Definition lsetseq (st : lstate) (r : nat) (s : list N) : lstate :=
  let ob := nth r (lregs st) 0%nat in
  mkl (lregs st) (upd ob (s, snd (nth ob (lobjs st) ([], None))) (lobjs st)).
Definition lread (st : lstate) (r : nat) : list N := fst (nth (nth r (lregs st) 0%nat) (lobjs st) ([], None)).

(** ---------------- round 3: the accessors Composition() and QualitiesString() *)
(** Composition: a map with the keys a c g t o at 0, then per symbol: (char | 32) in {a,c,g,t} -> counts[char]++ (the key is the symbol
    AS WRITTEN: an upper-case A gets its own key), anything else -> counts[o]++. The map as a key-sorted list. *)
Definition comp_slot (c : N) : N :=
  let l := N.lor c 32 in if (l =? 97) || (l =? 99) || (l =? 103) || (l =? 116) then c else 111.
Fixpoint cnt_add (k : N) (m : list (N * N)) : list (N * N) :=
  match m with
  | [] => [(k, 1)]
  | (k', n) :: m' => if k =? k' then (k', n + 1) :: m' else if k <? k' then (k, 1) :: m else (k', n) :: cnt_add k m'
  end.
Definition comp5 (a c g o t : N) : list (N * N) := [(97, a); (99, c); (103, g); (111, o); (116, t)].
Definition composition (s : list N) : list (N * N) := fold_left (fun m x => cnt_add (comp_slot x) m) s (comp5 0 0 0 0 0).
(** QualitiesString: scores above 93 are written as 93, then the shift (33 by default) is added, in byte arithmetic *)
Definition qual_string (shift : N) (q : list N) : list N := map (fun x => ((if 93 <? x then 93 else x) + shift) mod 256) q.

(** correspondence of the two accessors: symbols, stored scores ([] = none: the default vector of 40s is printed), observed
    composition (key-sorted) and observed QualitiesString *)
Record xcase := mkx { xseq : list N; xqual : list N; xcomp : list (N * N); xqstr : list N }.
Definition pairN_eqb (a b : N * N) : bool := (fst a =? fst b) && (snd a =? snd b).
Definition xcase_ok (c : xcase) : bool :=
  list_eqb pairN_eqb (composition (xseq c)) (xcomp c) &&
  nlist_eqb (qual_string 33 (quals_or_default (mkv (xseq c) (xqual c) None [] None))) (xqstr c).
Fixpoint xmismatches_from (i : nat) (l : list xcase) : list nat :=
  match l with
  | [] => []
  | c :: l' => let rest := xmismatches_from (S i) l' in if xcase_ok c then rest else i :: rest
  end.
Definition xmismatches := xmismatches_from 0.
