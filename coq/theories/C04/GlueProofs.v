(** C04, round 3 — proofs about the glue (Glue.v). *)
From Coq Require Import List Arith NArith Bool Lia Permutation Sorted.
From OBI.C04 Require Import Json Csv JsonProofs CsvProofs.
From OBI.Common Require Reseq.
From OBI.C04 Require Import Model Proofs Glue.
Import ListNotations.

(** ---- arrival orders given as lists of batch numbers *)
Lemma numbered_from_map (l : list chunk) : forall k,
  map (fun i => (i, nth (i - k) l [])) (seq k (length l)) = combine (seq k (length l)) l.
Proof.
  induction l as [|c l IH]; intros k; [reflexivity|].
  cbn [length seq map combine]. rewrite Nat.sub_diag. cbn [nth]. f_equal.
  rewrite <- IH. apply map_ext_in. intros i Hi. apply in_seq in Hi.
  replace (i - k) with (S (i - S k)) by lia. reflexivity.
Qed.
Lemma arrivals_identity (l : list chunk) : arrivals l (seq 0 (length l)) = Reseq.numbered l.
Proof.
  unfold arrivals, Reseq.numbered. rewrite <- numbered_from_map.
  apply map_ext. intros i. now rewrite Nat.sub_0_r.
Qed.
Lemma arrivals_perm (l : list chunk) order : Permutation order (seq 0 (length l)) ->
  Permutation (arrivals l order) (Reseq.numbered l).
Proof. intros P. rewrite <- arrivals_identity. unfold arrivals. now apply Permutation_map. Qed.

(** ---- WriteSeqFileChunk(writer, toBeClosed) *)
Lemma chunk_writer_spec tbc l arr : Permutation arr (Reseq.numbered l) ->
  chunk_writer tbc arr = mkdev (concat l) (if tbc then 1 else 0).
Proof.
  intros P. unfold chunk_writer. rewrite (wrun_any_permutation _ emit_raw dev0 _ arr P), foldi_raw.
  cbn [got closes dev0 app]. now destruct tbc.
Qed.

(** ---- the files *)
Definition expected_of (k : wkind) (header : chunk) (chunks : list chunk) : list N :=
  match k with
  | KFasta | KFastq => concat chunks
  | KJson => json_expected chunks
  | KCsv => match chunks with [] => [] | _ => header ++ concat chunks end
  end.
Lemma csv_chunks_length header chunks : length (csv_chunks header chunks) = length chunks.
Proof. now destruct chunks. Qed.
Lemma kind_writer_spec k header chunks order : Permutation order (seq 0 (length chunks)) ->
  kind_writer k header chunks order = mkdev (expected_of k header chunks) 1.
Proof.
  intros P. unfold kind_writer, run_case. cbn [ck cchunks carrival cheader].
  destruct k; cbn [expected_of].
  - apply fastx_spec. now apply arrivals_perm.
  - apply fastx_spec. now apply arrivals_perm.
  - apply json_spec. now apply arrivals_perm.
  - destruct chunks as [|r rows].
    + apply (csv_empty_spec header). apply arrivals_perm. exact P.
    + rewrite (csv_spec header r rows); [reflexivity|]. apply arrivals_perm.
      now rewrite csv_chunks_length.
Qed.
Lemma file_writer_spec k app old header chunks order : Permutation order (seq 0 (length chunks)) ->
  file_writer k app old header chunks order = (if app then old else []) ++ expected_of k header chunks.
Proof. intros P. unfold file_writer, file_after. now rewrite kind_writer_spec. Qed.
Lemma paired_files_spec k app old1 old2 header fwd rev order :
  length rev = length fwd -> Permutation order (seq 0 (length fwd)) ->
  paired_files k app old1 old2 header fwd rev order =
  ((if app then old1 else []) ++ expected_of k header fwd, (if app then old2 else []) ++ expected_of k header rev).
Proof.
  intros L P. unfold paired_files. rewrite (file_writer_spec _ _ _ _ fwd) by exact P.
  rewrite (file_writer_spec _ _ _ _ rev) by now rewrite L. reflexivity.
Qed.

(** ---- FormatFastaBatch / FormatFastqBatch over records *)
Lemma fastx_batches_flatten (batches : list (list (bool * chunk))) :
  concat (fastx_record_chunks batches) = concat (map snd (filter fst (concat batches))).
Proof.
  unfold fastx_record_chunks. induction batches as [|b bs IH]; [reflexivity|].
  cbn [map concat]. rewrite IH. unfold format_fastx_batch.
  now rewrite filter_app, map_app, concat_app.
Qed.
Lemma fastx_records_spec (batches : list (list (bool * chunk))) arr :
  Permutation arr (Reseq.numbered (fastx_record_chunks batches)) ->
  fastx_writer arr = mkdev (concat (map snd (filter fst (concat batches)))) 1.
Proof. intros P. rewrite (fastx_spec _ _ P). now rewrite fastx_batches_flatten. Qed.

(** ---- the universal writer *)
Lemma perm_len (order : list nat) n m : n = m -> Permutation order (seq 0 n) -> Permutation order (seq 0 m).
Proof. now intros ->. Qed.
Lemma first_nonempty_all_empty l : first_nonempty l = BEmpty -> Forall (fun x => x = BEmpty) l.
Proof.
  induction l as [|x l IH]; intros H; [constructor|]. destruct x; cbn in H; try discriminate.
  constructor; auto.
Qed.
Lemma first_nonempty_in l : first_nonempty l <> BEmpty -> In (first_nonempty l) l.
Proof.
  induction l as [|x l IH]; intros H; [now contradiction H|]. destruct x; cbn in *; auto.
Qed.
Lemma universal_homogeneous (q : bool) quals fa fq order :
  Forall (fun x => x = BEmpty \/ x = (if q then BQual else BNoQual)) quals ->
  length fa = length quals -> length fq = length quals ->
  (forall i, nth i quals BEmpty = BEmpty -> nth i fa [] = nth i fq []) ->
  Permutation order (seq 0 (length quals)) ->
  universal_writer quals fa fq order = mkdev (concat (if q then fq else fa)) 1.
Proof.
  intros Hh La Lq He P. unfold universal_writer.
  set (seen := map (fun i => nth i quals BEmpty) order).
  assert (Hin : forall x, In x seen -> x = BEmpty \/ x = (if q then BQual else BNoQual)).
  { intros x Hx. apply in_map_iff in Hx as (i & <- & Hi).
    assert (Hi' : In i (seq 0 (length quals))) by (eapply Permutation_in; eassumption).
    apply in_seq in Hi'. rewrite Forall_forall in Hh. apply Hh. apply nth_In. lia. }
  unfold decide. fold seen.
  destruct (first_nonempty seen) eqn:F; cbv iota.
  - (* every batch is empty: both formats give the same (empty) chunks *)
    assert (E : fa = fq).
    { apply (nth_ext _ _ [] []); [congruence|]. intros i Hi. apply He.
      pose proof (first_nonempty_all_empty _ F) as A. rewrite Forall_forall in A.
      apply A. apply in_map_iff. exists i. split; [reflexivity|].
      eapply Permutation_in; [apply Permutation_sym; exact P|]. apply in_seq. lia. }
    rewrite fastx_spec with (l := fa); [now destruct q; rewrite E|]. apply arrivals_perm. exact (perm_len _ _ _ (eq_sym La) P).
  - assert (I : In BQual seen) by (rewrite <- F; apply first_nonempty_in; congruence).
    destruct (Hin _ I) as [|E]; [discriminate|]. destruct q; [|discriminate].
    apply fastx_spec. apply arrivals_perm. exact (perm_len _ _ _ (eq_sym Lq) P).
  - assert (I : In BNoQual seen) by (rewrite <- F; apply first_nonempty_in; congruence).
    destruct (Hin _ I) as [|E]; [discriminate|]. destruct q; [discriminate|].
    apply fastx_spec. apply arrivals_perm. exact (perm_len _ _ _ (eq_sym La) P).
Qed.
(* a FASTQ stream: every read that has a sequence has qualities (zero-length reads have none) *)
Lemma bq_of_fastq_stream (batches : list (list (bool * bool))) :
  Forall (Forall (fun r => fst r = true -> snd r = true)) batches ->
  Forall (fun x => x = BEmpty \/ x = BQual) (map bq_of batches).
Proof.
  intros H. rewrite Forall_forall in *. intros x Hx. apply in_map_iff in Hx as (b & <- & Hb).
  specialize (H _ Hb). unfold bq_of. destruct (filter fst b) as [|[s q] r] eqn:F; [now left|].
  assert (I : In (s, q) (filter fst b)) by (rewrite F; now left).
  apply filter_In in I as (I & Hs). rewrite Forall_forall in H. specialize (H _ I Hs). cbn in H. subst q. now right.
Qed.
Lemma universal_fastq_stream (batches : list (list (bool * bool))) fa fq order :
  Forall (Forall (fun r => fst r = true -> snd r = true)) batches ->
  length fa = length batches -> length fq = length batches ->
  (forall i, nth i (map bq_of batches) BEmpty = BEmpty -> nth i fa [] = nth i fq []) ->
  Permutation order (seq 0 (length batches)) ->
  universal_writer (map bq_of batches) fa fq order = mkdev (concat fq) 1.
Proof.
  intros H La Lq He P.
  apply (universal_homogeneous true); rewrite ?map_length; try assumption. now apply bq_of_fastq_stream.
Qed.
Lemma universal_orig_first_record_refuted :
  let batches := [[(true, true)]; [(false, false); (true, true)]] in
  Forall (Forall (fun r => fst r = true -> snd r = true)) batches /\
  decide (map bq_of_orig batches) [0; 1] = true /\ decide (map bq_of_orig batches) [1; 0] = false /\
  decide (map bq_of batches) [0; 1] = true /\ decide (map bq_of batches) [1; 0] = true.
Proof. cbv zeta. split; [repeat constructor; cbn; congruence|]. vm_compute. auto. Qed.
Lemma universal_no_batch quals fa fq : universal_writer quals fa fq [] = mkdev [] 1.
Proof. reflexivity. Qed.
Lemma universal_orig_no_batch : closes (universal_writer_orig [] [] [] []) = 0.
Proof. reflexivity. Qed.

(** ---- CSVHeader / CSVRecord: the table is rectangular *)
Lemma opt_length b l : length (opt b l) = if b then length l else 0.
Proof. now destruct b. Qed.
Lemma csv_rectangular o r : length (csv_record o r) = length (csv_header o).
Proof.
  unfold csv_record, csv_header. rewrite !app_length, !opt_length, map_length.
  destruct (o_id o), (o_count o), (o_taxon o), (o_def o), (o_seq o), (o_qual o); reflexivity.
Qed.
Lemma csv_table o (recs : list (list crec)) arr : recs <> [] -> csv_header o <> [] ->
  Permutation arr (Reseq.numbered (csv_record_chunks (csv_header o) (map (map (csv_record o)) recs))) ->
  csv_records (got (csv_writer arr)) = Some (csv_header o :: map (csv_record o) (concat recs)) /\
  Forall (fun row => length row = length (csv_header o)) (map (csv_record o) (concat recs)).
Proof.
  intros Hr Hh P.
  assert (R : Forall (fun row => length row = length (csv_header o)) (map (csv_record o) (concat recs))).
  { rewrite Forall_forall. intros row Hrow. apply in_map_iff in Hrow as (r & <- & _). apply csv_rectangular. }
  split; [|exact R].
  rewrite concat_map. apply csv_rows_decodable; try assumption.
  - destruct recs; [congruence|discriminate].
  - rewrite <- concat_map. rewrite Forall_forall in *. intros row Hrow E. specialize (R _ Hrow).
    subst row. destruct (csv_header o); [congruence|discriminate].
Qed.

(** ---- obicsv --auto *)
Lemma auto_columns_spec explicit (l : list (list field)) arr : Permutation arr (Reseq.numbered l) ->
  auto_columns explicit arr = explicit ++ match l with b0 :: _ => sort_keys b0 | [] => [] end.
Proof.
  intros P. unfold auto_columns.
  destruct (Reseq.reseq_any_permutation _ l arr P) as (Ho & _ & _). now rewrite Ho.
Qed.
Lemma fcmp_eq a : forall b, fcmp a b = Eq -> a = b.
Proof.
  induction a as [|x a IH]; intros [|y b] H; cbn in H; try discriminate; [reflexivity|].
  destruct (N.compare x y) eqn:C; try discriminate. apply N.compare_eq in C. subst. f_equal. now apply IH.
Qed.
Lemma fcmp_refl a : fcmp a a = Eq.
Proof. induction a as [|x a IH]; [reflexivity|]. cbn. now rewrite N.compare_refl. Qed.
Lemma fcmp_antisym a : forall b, fcmp a b = CompOpp (fcmp b a).
Proof.
  induction a as [|x a IH]; intros [|y b]; cbn; try reflexivity.
  rewrite (N.compare_antisym y x). destruct (N.compare y x); cbn; auto.
Qed.
Lemma fcmp_lt_trans a : forall b c, fcmp a b = Lt -> fcmp b c = Lt -> fcmp a c = Lt.
Proof.
  induction a as [|x a IH]; intros [|y b] [|z c] H1 H2; cbn in *; try discriminate; try reflexivity.
  destruct (N.compare x y) eqn:C1; try discriminate.
  - apply N.compare_eq in C1. subst y. destruct (N.compare x z); try discriminate; [|reflexivity]. eauto.
  - destruct (N.compare y z) eqn:C2; try discriminate.
    + apply N.compare_eq in C2. subst z. now rewrite C1.
    + rewrite N.compare_lt_iff in C1, C2. assert (C3 : (x < z)%N) by lia. rewrite <- N.compare_lt_iff in C3. now rewrite C3.
Qed.
Definition flt (a b : list N) : Prop := fcmp a b = Lt.
Lemma insert_key_In k l x : In x (insert_key k l) <-> x = k \/ In x l.
Proof.
  induction l as [|y l IH]; cbn; [intuition|].
  destruct (fcmp k y) eqn:C; cbn.
  - apply fcmp_eq in C. subst y. intuition.
  - intuition.
  - rewrite IH. intuition.
Qed.
Lemma insert_key_sorted k l : StronglySorted flt l -> StronglySorted flt (insert_key k l).
Proof.
  induction 1 as [|y l Hs IH Hf]; cbn; [repeat constructor|].
  destruct (fcmp k y) eqn:C.
  - now constructor.
  - constructor; [now constructor|]. constructor; [exact C|].
    rewrite Forall_forall in *. intros z Hz. eapply fcmp_lt_trans; [exact C|]. now apply Hf.
  - constructor; [exact IH|]. rewrite Forall_forall in *. intros z Hz. apply insert_key_In in Hz as [->|Hz].
    + unfold flt. rewrite fcmp_antisym, C. reflexivity.
    + now apply Hf.
Qed.
Lemma sort_keys_sorted l : StronglySorted flt (sort_keys l).
Proof. induction l as [|k l IH]; cbn; [constructor|]. now apply insert_key_sorted. Qed.
Lemma sort_keys_In l x : In x (sort_keys l) <-> In x l.
Proof. induction l as [|k l IH]; cbn; [tauto|]. rewrite insert_key_In, IH. intuition. Qed.
Lemma flt_irrefl a : ~ flt a a.
Proof. unfold flt. now rewrite fcmp_refl. Qed.
Lemma sorted_nodup l : StronglySorted flt l -> NoDup l.
Proof.
  induction 1 as [|y l Hs IH Hf]; constructor; [|exact IH].
  intros Hin. rewrite Forall_forall in Hf. exact (flt_irrefl _ (Hf _ Hin)).
Qed.
