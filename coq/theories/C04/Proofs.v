(** C04 — proofs: the writer loop is the proved resequencer followed by a fold of the emit action. *)
From Coq Require Import List Arith NArith Bool Lia Permutation.
From OBI.Common Require Import Reseq.
From OBI.C04 Require Import Model.
Import ListNotations.

Section Sim.
Variable S : Type.
Variable e : nat -> S -> chunk -> S.

Lemma foldi_snoc l : forall k acc a, foldi e k (l ++ [a]) acc = e (k + length l) (foldi e k l acc) a.
Proof.
  induction l as [|c l IH]; intros k acc a; simpl.
  - now rewrite Nat.add_0_r.
  - rewrite IH. f_equal. lia.
Qed.

Variable s0 : S.
(* the writer state and the resequencer state evolve in lock step *)
Definition R (s : st chunk) (w : wst S) : Prop :=
  wnext w = next s /\ wpend w = pend s /\ length (out s) = next s /\ wacc w = foldi e 0 (out s) s0.

Lemma drain_sim fuel : forall s w, R s w -> R (drain fuel s) (wdrain e fuel w).
Proof.
  induction fuel as [|f IH]; intros s w HR; [exact HR|].
  destruct HR as (Hn & Hp & Hl & Ha). simpl. rewrite Hn, Hp.
  destruct (lookup (next s) (pend s)) as [a|] eqn:L.
  - apply IH. unfold R; simpl. repeat split; try reflexivity.
    + rewrite app_length; simpl; lia.
    + rewrite foldi_snoc, <- Ha. simpl. now rewrite Hl.
  - unfold R; auto.
Qed.

Lemma step_sim s w oa : R s w -> R (step s oa) (wstep e e w oa).
Proof.
  intros HR. pose proof HR as (Hn & Hp & Hl & Ha). destruct oa as [o a]. unfold step, wstep. rewrite Hn, Hp.
  destruct (Nat.eqb o (next s)).
  - apply drain_sim. unfold R; simpl. repeat split; try reflexivity.
    + rewrite app_length; simpl; lia.
    + rewrite foldi_snoc, <- Ha. simpl. now rewrite Hl.
  - unfold R; simpl. auto.
Qed.

Lemma run_sim arr : forall s w, R s w -> R (fold_left step arr s) (fold_left (wstep e e) arr w).
Proof. induction arr as [|x arr IH]; intros s w HR; [exact HR|]. simpl. apply IH. now apply step_sim. Qed.

(** the writer loop, for every arrival permutation, emits chunk 0, 1, ... n-1 in this order, each once *)
Theorem wrun_any_permutation (l : list chunk) (arr : list (nat * chunk)) :
  Permutation arr (numbered l) -> wrun e e arr s0 = foldi e 0 l s0.
Proof.
  intros P. destruct (reseq_any_permutation chunk l arr P) as (Ho & _ & _).
  assert (R0 : R init (mkw 0 [] s0)) by (unfold R; simpl; auto).
  pose proof (run_sim arr _ _ R0) as (_ & _ & _ & Ha).
  unfold wrun. rewrite Ha. unfold run in Ho. now rewrite Ho.
Qed.
End Sim.

(** ---- the emitted batch numbers *)
Lemma foldi_emit_num l : forall k acc, foldi emit_num k l acc = acc ++ seq k (length l).
Proof.
  induction l as [|c l IH]; intros k acc; simpl; [now rewrite app_nil_r|].
  rewrite IH. unfold emit_num. now rewrite <- app_assoc.
Qed.
Lemma order_spec l arr : Permutation arr (numbered l) -> wrun emit_num emit_num arr [] = seq 0 (length l).
Proof. intros P. rewrite (wrun_any_permutation _ emit_num [] l arr P). apply foldi_emit_num. Qed.

(** ---- FASTA / FASTQ / CSV: raw emission *)
Lemma foldi_raw l : forall k d, foldi emit_raw k l d = mkdev (got d ++ concat l) (closes d).
Proof.
  induction l as [|c l IH]; intros k d; simpl.
  - rewrite app_nil_r. now destruct d.
  - rewrite IH. unfold emit_raw, dwrite; simpl. now rewrite <- app_assoc.
Qed.

Lemma fastx_spec l arr : Permutation arr (numbered l) -> fastx_writer arr = mkdev (concat l) 1.
Proof.
  intros P. unfold fastx_writer. rewrite (wrun_any_permutation _ emit_raw dev0 l arr P), foldi_raw. reflexivity.
Qed.

Lemma csv_spec header r rows arr : Permutation arr (numbered (csv_chunks header (r :: rows))) ->
  csv_writer arr = mkdev (header ++ concat (r :: rows)) 1.
Proof.
  intros P. unfold csv_writer. rewrite (wrun_any_permutation _ emit_raw dev0 _ arr P), foldi_raw.
  simpl. now rewrite <- app_assoc.
Qed.
Lemma csv_empty_spec header arr : Permutation arr (numbered (csv_chunks header [])) -> csv_writer arr = mkdev [] 1.
Proof.
  intros P. unfold csv_writer. rewrite (wrun_any_permutation _ emit_raw dev0 _ arr P). reflexivity.
Qed.

(** ---- JSON (repaired) *)
Definition seps (xs : list chunk) : list N := concat (map (fun y => json_sep ++ y) xs).

Lemma foldi_jemit_wrote l : forall k d,
  foldi jemit k l (d, true) = (mkdev (got d ++ seps (filter nonempty l)) (closes d), true).
Proof.
  induction l as [|c l IH]; intros k d; simpl.
  - unfold seps; simpl. rewrite app_nil_r. now destruct d.
  - destruct c as [|x c]; simpl; [apply IH|].
    rewrite IH. unfold seps, dwrite; simpl. f_equal. f_equal. now rewrite <- !app_assoc.
Qed.
Lemma foldi_jemit_first l : forall k d,
  fst (foldi jemit k l (d, false)) = mkdev (got d ++ join json_sep (filter nonempty l)) (closes d).
Proof.
  induction l as [|c l IH]; intros k d; simpl.
  - rewrite app_nil_r. now destruct d.
  - destruct c as [|x c]; simpl; [apply IH|].
    rewrite foldi_jemit_wrote. unfold dwrite, seps; simpl. f_equal. now rewrite <- !app_assoc.
Qed.

Lemma json_spec l arr : Permutation arr (numbered l) -> json_writer arr = mkdev (json_expected l) 1.
Proof.
  intros P. unfold json_writer. rewrite (wrun_any_permutation _ jemit _ l arr P), foldi_jemit_first.
  unfold dclose, dwrite, json_expected; simpl. reflexivity.
Qed.

(** the framed output has exactly one separator between consecutive records, none elsewhere:
    with [k] non-empty chunks there are k-1 separators *)
Lemma join_length sep xs : xs <> [] ->
  length (join sep xs) + length sep = length (concat xs) + length xs * length sep.
Proof.
  destruct xs as [|x r]; [congruence|intros _]. simpl. rewrite !app_length.
  induction r as [|y r IH]; simpl; [lia|]. rewrite !app_length. lia.
Qed.

(** ---- the unrepaired WriteJSON violates the statement *)
Definition w_drain : list chunk := [[49%N]; [50%N]].              (* two batches "1" "2", arrival 1,0 *)
Definition w_empty : list chunk := [[49%N]; []; [50%N]].          (* empty middle batch, arrival in order *)
Lemma json_orig_refuted_drain :
  exists l arr, Permutation arr (numbered l) /\ got (json_writer_orig arr) <> json_expected l.
Proof.
  exists w_drain, [(1, [50%N]); (0, [49%N])]. split.
  - apply perm_swap.
  - vm_compute. discriminate.
Qed.
Lemma json_orig_refuted_empty :
  exists l, got (json_writer_orig (numbered l)) <> json_expected l.
Proof. exists w_empty. vm_compute. discriminate. Qed.
(* ... while it is right when nothing is buffered and no chunk is empty *)
Lemma foldi_jorig l : forall k d, 0 < k -> Forall (fun c => c <> []) l ->
  foldi jorig_e1 k l d = mkdev (got d ++ seps l) (closes d).
Proof.
  induction l as [|c l IH]; intros k d Hk Hne; simpl.
  - unfold seps; simpl. rewrite app_nil_r. now destruct d.
  - inversion Hne; subst. rewrite IH by (auto; lia). unfold jorig_e1.
    destruct (Nat.ltb_spec 0 k); [|lia]. unfold seps, dwrite; simpl. f_equal. now rewrite <- !app_assoc.
Qed.
