(** C04 — proofs: the writer loop is the proved resequencer followed by a fold of the emit action. *)
From Coq Require Import List Arith NArith Bool Lia Permutation.
From OBI.C04 Require Import Json Csv JsonProofs CsvProofs.
From OBI.Common Require Import Reseq.
From OBI.C04 Require Import Model.
Import ListNotations.

Section Sim.
Variable S : Type.
Variable e : nat -> S -> chunk -> S.

Lemma foldi_snoc l : forall k acc a, foldi e k (l ++ [a]) acc = e (k + length l) (foldi e k l acc) a.
Proof.
  induction l as [|c l IH]; intros k acc a; simpl.
  - now rewrite Nat.add_0_r.
  - rewrite IH. f_equal. lia.
Qed.

Variable s0 : S.
(* the writer state and the resequencer state evolve in lock step *)
Definition R (s : st chunk) (w : wst S) : Prop :=
  wnext w = next s /\ wpend w = pend s /\ length (out s) = next s /\ wacc w = foldi e 0 (out s) s0.

Lemma drain_sim fuel : forall s w, R s w -> R (drain fuel s) (wdrain e fuel w).
Proof.
  induction fuel as [|f IH]; intros s w HR; [exact HR|].
  destruct HR as (Hn & Hp & Hl & Ha). simpl. rewrite Hn, Hp.
  destruct (lookup (next s) (pend s)) as [a|] eqn:L.
  - apply IH. unfold R; simpl. repeat split; try reflexivity.
    + rewrite app_length; simpl; lia.
    + rewrite foldi_snoc, <- Ha. simpl. now rewrite Hl.
  - unfold R; auto.
Qed.

Lemma step_sim s w oa : R s w -> R (step s oa) (wstep e e w oa).
Proof.
  intros HR. pose proof HR as (Hn & Hp & Hl & Ha). destruct oa as [o a]. unfold step, wstep. rewrite Hn, Hp.
  destruct (Nat.eqb o (next s)).
  - apply drain_sim. unfold R; simpl. repeat split; try reflexivity.
    + rewrite app_length; simpl; lia.
    + rewrite foldi_snoc, <- Ha. simpl. now rewrite Hl.
  - unfold R; simpl. auto.
Qed.

Lemma run_sim arr : forall s w, R s w -> R (fold_left step arr s) (fold_left (wstep e e) arr w).
Proof. induction arr as [|x arr IH]; intros s w HR; [exact HR|]. simpl. apply IH. now apply step_sim. Qed.

(** the writer loop, for every arrival permutation, emits chunk 0, 1, ... n-1 in this order, each once *)
Theorem wrun_any_permutation (l : list chunk) (arr : list (nat * chunk)) :
  Permutation arr (numbered l) -> wrun e e arr s0 = foldi e 0 l s0.
Proof.
  intros P. destruct (reseq_any_permutation chunk l arr P) as (Ho & _ & _).
  assert (R0 : R init (mkw 0 [] s0)) by (unfold R; simpl; auto).
  pose proof (run_sim arr _ _ R0) as (_ & _ & _ & Ha).
  unfold wrun. rewrite Ha. unfold run in Ho. now rewrite Ho.
Qed.
End Sim.

(** ---- the emitted batch numbers *)
Lemma foldi_emit_num l : forall k acc, foldi emit_num k l acc = acc ++ seq k (length l).
Proof.
  induction l as [|c l IH]; intros k acc; simpl; [now rewrite app_nil_r|].
  rewrite IH. unfold emit_num. now rewrite <- app_assoc.
Qed.
Lemma order_spec l arr : Permutation arr (numbered l) -> wrun emit_num emit_num arr [] = seq 0 (length l).
Proof. intros P. rewrite (wrun_any_permutation _ emit_num [] l arr P). apply foldi_emit_num. Qed.

(** ---- FASTA / FASTQ / CSV: raw emission *)
Lemma foldi_raw l : forall k d, foldi emit_raw k l d = mkdev (got d ++ concat l) (closes d).
Proof.
  induction l as [|c l IH]; intros k d; simpl.
  - rewrite app_nil_r. now destruct d.
  - rewrite IH. unfold emit_raw, dwrite; simpl. now rewrite <- app_assoc.
Qed.

Lemma fastx_spec l arr : Permutation arr (numbered l) -> fastx_writer arr = mkdev (concat l) 1.
Proof.
  intros P. unfold fastx_writer. rewrite (wrun_any_permutation _ emit_raw dev0 l arr P), foldi_raw. reflexivity.
Qed.

Lemma csv_spec header r rows arr : Permutation arr (numbered (csv_chunks header (r :: rows))) ->
  csv_writer arr = mkdev (header ++ concat (r :: rows)) 1.
Proof.
  intros P. unfold csv_writer. rewrite (wrun_any_permutation _ emit_raw dev0 _ arr P), foldi_raw.
  simpl. now rewrite <- app_assoc.
Qed.
Lemma csv_empty_spec header arr : Permutation arr (numbered (csv_chunks header [])) -> csv_writer arr = mkdev [] 1.
Proof.
  intros P. unfold csv_writer. rewrite (wrun_any_permutation _ emit_raw dev0 _ arr P). reflexivity.
Qed.

(** ---- JSON (repaired) *)
Definition seps (xs : list chunk) : list N := concat (map (fun y => json_sep ++ y) xs).

Lemma foldi_jemit_wrote l : forall k d,
  foldi jemit k l (d, true) = (mkdev (got d ++ seps (filter nonempty l)) (closes d), true).
Proof.
  induction l as [|c l IH]; intros k d; simpl.
  - unfold seps; simpl. rewrite app_nil_r. now destruct d.
  - destruct c as [|x c]; simpl; [apply IH|].
    rewrite IH. unfold seps, dwrite; simpl. f_equal. f_equal. now rewrite <- !app_assoc.
Qed.
Lemma foldi_jemit_first l : forall k d,
  fst (foldi jemit k l (d, false)) = mkdev (got d ++ join json_sep (filter nonempty l)) (closes d).
Proof.
  induction l as [|c l IH]; intros k d; simpl.
  - rewrite app_nil_r. now destruct d.
  - destruct c as [|x c]; simpl; [apply IH|].
    rewrite foldi_jemit_wrote. unfold dwrite, seps; simpl. f_equal. now rewrite <- !app_assoc.
Qed.

Lemma json_spec l arr : Permutation arr (numbered l) -> json_writer arr = mkdev (json_expected l) 1.
Proof.
  intros P. unfold json_writer. rewrite (wrun_any_permutation _ jemit _ l arr P), foldi_jemit_first.
  unfold dclose, dwrite, json_expected; simpl. reflexivity.
Qed.

(** the framed output has exactly one separator between consecutive records, none elsewhere:
    with [k] non-empty chunks there are k-1 separators *)
Lemma join_length sep xs : xs <> [] ->
  length (join sep xs) + length sep = length (concat xs) + length xs * length sep.
Proof.
  destruct xs as [|x r]; [congruence|intros _]. simpl. rewrite !app_length.
  induction r as [|y r IH]; simpl; [lia|]. rewrite !app_length. lia.
Qed.

(** ---- the unrepaired WriteJSON violates the statement *)
Definition w_drain : list chunk := [[49%N]; [50%N]].              (* two batches "1" "2", arrival 1,0 *)
Definition w_empty : list chunk := [[49%N]; []; [50%N]].          (* empty middle batch, arrival in order *)
Lemma json_orig_refuted_drain :
  exists l arr, Permutation arr (numbered l) /\ got (json_writer_orig arr) <> json_expected l.
Proof.
  exists w_drain, [(1, [50%N]); (0, [49%N])]. split.
  - apply perm_swap.
  - vm_compute. discriminate.
Qed.
Lemma json_orig_refuted_empty :
  exists l, got (json_writer_orig (numbered l)) <> json_expected l.
Proof. exists w_empty. vm_compute. discriminate. Qed.
(* ... while it is right when nothing is buffered and no chunk is empty *)
Lemma foldi_jorig l : forall k d, 0 < k -> Forall (fun c => c <> []) l ->
  foldi jorig_e1 k l d = mkdev (got d ++ seps l) (closes d).
Proof.
  induction l as [|c l IH]; intros k d Hk Hne; simpl.
  - unfold seps; simpl. rewrite app_nil_r. now destruct d.
  - inversion Hne; subst. rewrite IH by (auto; lia). unfold jorig_e1.
    destruct (Nat.ltb_spec 0 k); [|lia]. unfold seps, dwrite; simpl. f_equal. now rewrite <- !app_assoc.
Qed.

(** ================= round 2: theorems over RECORDS *)

(** ---- JSON: the chunks are FormatJSONBatch of the serialised records *)
Lemma jseps_app xs ys : JsonProofs.seps (xs ++ ys) = JsonProofs.seps xs ++ JsonProofs.seps ys.
Proof. unfold JsonProofs.seps. now rewrite map_app, concat_app. Qed.

Lemma fjb_cons r b : format_json_batch (r :: b) = indent r ++ JsonProofs.seps (map indent b).
Proof. reflexivity. Qed.

Lemma seps_filter_chunks bs :
  seps (filter nonempty (json_chunks bs)) = JsonProofs.seps (map indent (concat bs)).
Proof.
  induction bs as [|b bs IH]; [reflexivity|].
  destruct b as [|r b]; [exact IH|].
  unfold json_chunks in *. cbn [map]. rewrite fjb_cons. cbn [filter nonempty is_nil indent app negb].
  change (seps ((32%N :: 32%N :: r ++ JsonProofs.seps (map indent b)) :: filter nonempty (map format_json_batch bs)))
    with (json_sep ++ (indent r ++ JsonProofs.seps (map indent b)) ++ seps (filter nonempty (map format_json_batch bs))).
  rewrite IH. cbn [concat]. rewrite map_app, jseps_app. cbn [map].
  change (JsonProofs.seps (indent r :: map indent b)) with (jsep ++ indent r ++ JsonProofs.seps (map indent b)).
  change json_sep with jsep. rewrite <- !app_assoc. reflexivity.
Qed.

Lemma join_filter_chunks bs :
  join json_sep (filter nonempty (json_chunks bs)) = jjoin jsep (map indent (concat bs)).
Proof.
  induction bs as [|b bs IH]; [reflexivity|].
  destruct b as [|r b]; [exact IH|].
  unfold json_chunks in *. cbn [map]. rewrite fjb_cons. cbn [filter nonempty is_nil indent app negb].
  change (join json_sep ((32%N :: 32%N :: r ++ JsonProofs.seps (map indent b)) :: filter nonempty (map format_json_batch bs)))
    with ((indent r ++ JsonProofs.seps (map indent b)) ++ seps (filter nonempty (map format_json_batch bs))).
  pose proof (seps_filter_chunks bs) as E. unfold json_chunks in E. rewrite E. cbn [concat]. rewrite map_app. cbn [map app].
  change (jjoin jsep (indent r :: map indent b ++ map indent (concat bs)))
    with (indent r ++ JsonProofs.seps (map indent b ++ map indent (concat bs))).
  rewrite jseps_app, <- !app_assoc. reflexivity.
Qed.

(** the JSON writer over records: exact bytes, ONE grammatical JSON text, an array whose elements
    are the serialised records of all batches in order *)
Lemma json_records_spec (batches : list (list (list N))) arr :
  Forall (fun r => json_object r = true) (concat batches) ->
  Permutation arr (numbered (json_chunks batches)) ->
  json_writer arr = mkdev (json_records_expected (concat batches)) 1 /\
  json_text (got (json_writer arr)) = true /\
  json_array_objects (got (json_writer arr)) = Some (concat batches).
Proof.
  intros Ho P. rewrite (json_spec _ _ P). unfold json_expected. rewrite join_filter_chunks.
  split; [reflexivity|]. cbn [got]. split.
  - apply (array_text_valid _ Ho).
  - apply (array_text_elements _ Ho).
Qed.

(** ---- CSV: the chunks are FormatCVSBatch of the rows; the header is inside chunk 0 *)
Lemma csv_rows_from hdr bs : forall k, 0 < k ->
  concat (csv_batches_from hdr k bs) = concat (map csv_line (concat bs)).
Proof.
  induction bs as [|b bs IH]; intros k Hk; [reflexivity|].
  cbn [csv_batches_from concat]. rewrite IH by lia. unfold format_csv_batch.
  destruct k; [lia|]. cbn [Nat.eqb app]. now rewrite map_app, concat_app.
Qed.
Lemma csv_record_chunks_concat hdr bs : concat (csv_record_chunks hdr bs) = csv_expected hdr bs.
Proof.
  unfold csv_record_chunks, csv_expected. destruct bs as [|b bs]; [reflexivity|].
  cbn [csv_batches_from concat]. rewrite csv_rows_from by lia. unfold format_csv_batch. cbn [Nat.eqb].
  now rewrite map_app, concat_app, <- app_assoc.
Qed.

Lemma csv_records_spec hdr (batches : list (list (list field))) arr :
  Permutation arr (numbered (csv_record_chunks hdr batches)) ->
  csv_writer arr = mkdev (csv_expected hdr batches) 1.
Proof.
  intros P. unfold csv_writer. rewrite (wrun_any_permutation _ emit_raw dev0 _ arr P), foldi_raw.
  cbn [got closes dev0 app dclose]. now rewrite csv_record_chunks_concat.
Qed.

(* ... and the text is decodable: header then one row per record, in order *)
Lemma csv_rows_decodable hdr (batches : list (list (list field))) arr : batches <> [] -> hdr <> [] ->
  Forall (fun r => r <> []) (concat batches) ->
  Permutation arr (numbered (csv_record_chunks hdr batches)) ->
  csv_records (got (csv_writer arr)) = Some (hdr :: concat batches).
Proof.
  intros Hb Hh Hr P. rewrite (csv_records_spec _ _ _ P). cbn [got]. unfold csv_expected.
  destruct batches as [|b bs]; [congruence|].
  change (csv_line hdr ++ concat (map csv_line (concat (b :: bs)))) with (concat (map csv_line (hdr :: concat (b :: bs)))).
  apply csv_roundtrip. constructor; assumption.
Qed.

(** ---- completion order *)
Lemma closer_sees_closed : sees_closed closer = Some true.
Proof. reflexivity. Qed.
Lemma closer_orig_sees_open : sees_closed closer_orig = Some false.
Proof. reflexivity. Qed.
(* every script that ends the iterator only after having waited for the writer is safe; waiting
   before the channel is closed blocks *)
Lemma wait_before_close_blocks : sees_closed [AWaitWriter; AChanClose; AIterClose] = None.
Proof. reflexivity. Qed.
Lemma cstep_none l : fold_left cstep l None = None.
Proof. induction l; simpl; auto. Qed.
Lemma iter_end_after_wait pre s :
  match fold_left cstep (pre ++ [AWaitWriter; AIterClose]) (Some s) with
  | Some s' => seen s' = Some true | None => True end.
Proof.
  rewrite fold_left_app. destruct (fold_left cstep pre (Some s)) as [s1|]; [|exact I].
  simpl. destruct (chan_closed s1); simpl; auto.
Qed.

Lemma iter_end_implies_closed_fastx l arr : Permutation arr (numbered l) ->
  at_iter_end (fastx_writer arr) closer = Some (mkdev (concat l) 1).
Proof. intros P. unfold at_iter_end. rewrite closer_sees_closed. now rewrite (fastx_spec _ _ P). Qed.
Lemma iter_end_implies_closed_json l arr : Permutation arr (numbered l) ->
  at_iter_end (json_writer arr) closer = Some (mkdev (json_expected l) 1).
Proof. intros P. unfold at_iter_end. rewrite closer_sees_closed. now rewrite (json_spec _ _ P). Qed.
Lemma iter_end_implies_closed_csv hdr batches arr : Permutation arr (numbered (csv_record_chunks hdr batches)) ->
  at_iter_end (csv_writer arr) closer = Some (mkdev (csv_expected hdr batches) 1).
Proof. intros P. unfold at_iter_end. rewrite closer_sees_closed. now rewrite (csv_records_spec _ _ _ P). Qed.
Lemma iter_end_orig_nothing d : at_iter_end d closer_orig = None.
Proof. reflexivity. Qed.
