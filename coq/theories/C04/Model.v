(** C04 — executable model of the four sequence writers of pkg/obiformats
    (WriteFasta / WriteFastq through WriteSeqFileChunk, WriteJSON, WriteCSV).

    A [chunk] is the formatted text of one batch (possibly empty); the writer goroutine receives the
    numbered chunks in an arbitrary arrival order.  [wstep] transcribes the loop body shared by the
    three copies of the re-sequencing loop:

        if chunk.order == next { EMIT1(chunk); next++
                                 chunk, ok := pending[next]
                                 for ok { EMIT2(chunk); delete(pending, next); next++; chunk, ok = pending[next] } }
        else { pending[chunk.order] = chunk }

    EMIT1 / EMIT2 are the writer-specific actions on the output (they differ only in the unrepaired
    WriteJSON).  The output is a device recording the bytes received and the number of Close calls
    (the Wfile/bufio layer between the writer and the device is a pass-through when no write fails;
    its failure behaviour is the subject of C18). *)
From Coq Require Import List Arith NArith Bool.
From OBI.Common Require Import Reseq.
From OBI.C04 Require Import Json Csv.
Import ListNotations.

Definition chunk := list N.

Record dev := mkdev { got : list N; closes : nat }.
Definition dev0 : dev := mkdev [] 0.
Definition dwrite (d : dev) (b : list N) : dev := mkdev (got d ++ b) (closes d).
Definition dclose (d : dev) : dev := mkdev (got d) (S (closes d)).

Section Loop.
Variable S : Type.
Variables e1 e2 : nat -> S -> chunk -> S.   (* nat: the number of the chunk being emitted *)

Record wst := mkw { wnext : nat; wpend : list (nat * chunk); wacc : S }.

Fixpoint wdrain (fuel : nat) (s : wst) : wst :=
  match fuel with
  | O => s
  | Datatypes.S f =>
    match lookup (wnext s) (wpend s) with
    | Some a => wdrain f (mkw (Datatypes.S (wnext s)) (remove (wnext s) (wpend s)) (e2 (wnext s) (wacc s) a))
    | None => s
    end
  end.

Definition wstep (s : wst) (oa : nat * chunk) : wst :=
  let '(o, a) := oa in
  if Nat.eqb o (wnext s)
  then wdrain (length (wpend s)) (mkw (Datatypes.S (wnext s)) (wpend s) (e1 (wnext s) (wacc s) a))
  else mkw (wnext s) ((o, a) :: wpend s) (wacc s).

Definition wrun (arr : list (nat * chunk)) (s0 : S) : S := wacc (fold_left wstep arr (mkw 0 [] s0)).
End Loop.
Arguments mkw {S}. Arguments wnext {S}. Arguments wpend {S}. Arguments wacc {S}.
Arguments wdrain {S}. Arguments wstep {S}. Arguments wrun {S}.

(** ---- FASTA / FASTQ: WriteSeqFileChunk(writer, toBeClosed = true) *)
Definition emit_raw (_ : nat) (d : dev) (c : chunk) : dev := dwrite d c.
Definition fastx_writer (arr : list (nat * chunk)) : dev := dclose (wrun emit_raw emit_raw arr dev0).

(** ---- JSON *)
Definition nl : N := 10%N.
Definition json_open : list N := [91; 10]%N.      (* "[\n" *)
Definition json_sep : list N := [44; 10]%N.       (* ",\n" *)
Definition json_close : list N := [10; 93; 10]%N. (* "\n]\n" *)

(* the unrepaired WriteJSON: separator before a chunk arriving in order when it is not chunk 0;
   nothing between chunks drained from the buffer; empty chunks treated like the others *)
Definition jorig_e1 (k : nat) (d : dev) (c : chunk) : dev :=
  dwrite (if Nat.ltb 0 k then dwrite d json_sep else d) c.
Definition json_writer_orig (arr : list (nat * chunk)) : dev :=
  dclose (dwrite (wrun jorig_e1 emit_raw arr (dwrite dev0 json_open)) json_close).

(* repaired: both paths go through writeChunk: nothing for an empty chunk, a separator iff a
   chunk has already been written *)
Definition is_nil {A} (l : list A) : bool := match l with [] => true | _ => false end.
Definition jemit (_ : nat) (s : dev * bool) (c : chunk) : dev * bool :=
  let '(d, wrote) := s in
  if is_nil c then (d, wrote) else (dwrite (if wrote then dwrite d json_sep else d) c, true).
Definition json_writer (arr : list (nat * chunk)) : dev :=
  dclose (dwrite (fst (wrun jemit jemit arr (dwrite dev0 json_open, false))) json_close).

(** ---- CSV: the header is formatted into chunk 0 by FormatCVSBatch *)
Definition csv_chunks (header : chunk) (rows : list chunk) : list chunk :=
  match rows with [] => [] | r :: rs => (header ++ r) :: rs end.
Definition csv_writer (arr : list (nat * chunk)) : dev := dclose (wrun emit_raw emit_raw arr dev0).

(** ---- specification side *)
(* emit the chunks of [l] in list order, numbered from k *)
Fixpoint foldi {S : Type} (e : nat -> S -> chunk -> S) (k : nat) (l : list chunk) (acc : S) : S :=
  match l with [] => acc | c :: l' => foldi e (Datatypes.S k) l' (e k acc c) end.
(* observer recording the numbers of the emitted chunks *)
Definition emit_num (k : nat) (acc : list nat) (_ : chunk) : list nat := acc ++ [k].
Definition join (sep : list N) (xs : list chunk) : list N :=
  match xs with [] => [] | x :: r => x ++ concat (map (fun y => sep ++ y) r) end.
Definition nonempty (c : chunk) : bool := negb (is_nil c).
Definition json_expected (l : list chunk) : list N :=
  json_open ++ join json_sep (filter nonempty l) ++ json_close.

(** ---- correspondence *)
(* compact rendering of long periodic byte runs in generated case files: the first n bytes of pat pat pat ... *)
Fixpoint cyc_aux (n : nat) (pat cur : list N) : list N :=
  match n with
  | O => []
  | Datatypes.S n' => match cur with
            | x :: r => x :: cyc_aux n' pat r
            | [] => match pat with [] => [] | x :: r => x :: cyc_aux n' pat r end
            end
  end.
Definition cyc (n : N) (pat : list N) : list N := cyc_aux (N.to_nat n) pat pat.
Inductive wkind := KFasta | KFastq | KJson | KCsv.
Record ccase := mkc { ck : wkind; cheader : chunk; cchunks : list chunk; carrival : list nat;
                      cout : list N; ccloses : nat }.

Definition arrivals (l : list chunk) (order : list nat) : list (nat * chunk) :=
  map (fun i => (i, nth i l [])) order.

Definition run_case (c : ccase) : dev :=
  match ck c with
  | KFasta | KFastq => fastx_writer (arrivals (cchunks c) (carrival c))
  | KJson => json_writer (arrivals (cchunks c) (carrival c))
  | KCsv => csv_writer (arrivals (csv_chunks (cheader c) (cchunks c)) (carrival c))
  end.
Definition run_case_orig (c : ccase) : dev :=
  match ck c with
  | KJson => json_writer_orig (arrivals (cchunks c) (carrival c))
  | _ => run_case c
  end.

Fixpoint nlist_eqb (l l' : list N) : bool :=
  match l, l' with
  | [], [] => true | x :: l, y :: l' => N.eqb x y && nlist_eqb l l' | _, _ => false end.
Definition dev_eqb (d : dev) (o : list N) (c : nat) : bool := nlist_eqb (got d) o && Nat.eqb (closes d) c.

Fixpoint mismatches_from (f : ccase -> dev) (i : nat) (l : list ccase) : list nat :=
  match l with
  | [] => []
  | c :: l' =>
    let rest := mismatches_from f (Datatypes.S i) l' in
    if dev_eqb (f c) (cout c) (ccloses c) then rest else i :: rest
  end.
Definition mismatches := mismatches_from run_case 0.
Definition mismatches_orig := mismatches_from run_case_orig 0.

(** ================= round 2: the formatters over RECORDS, and the completion order *)

(** ---- JSON: FormatJSONBatch (Json.format_json_batch) gives the chunk of a batch of serialised records *)
Definition json_chunks (batches : list (list (list N))) : list chunk := map format_json_batch batches.
Definition json_records_expected (recs : list (list N)) : list N :=
  json_open ++ jjoin jsep (map indent recs) ++ json_close.

(** ---- CSV: FormatCVSBatch (Csv.format_csv_batch) gives the chunk of batch k: the header line travels in batch 0 *)
Definition csv_record_chunks (hdr : list field) (batches : list (list (list field))) : list chunk :=
  csv_batches_from hdr 0 batches.

(** ---- completion order.  The goroutine that ends the iterator RETURNED by a writer (the "closer") runs
    a fixed script once every formatting worker is done; the writer goroutine closes the sink at some
    moment after the chunk channel has been closed.  [sees_closed script] = what an observer of the
    end of the result iterator is guaranteed to find: Some true = the sink is closed, Some false = it
    may still be open (bytes may be missing), None = the script blocks for ever. *)
Inductive cact := AIterClose | AChanClose | AWaitWriter.
Record cst := mkcst { chan_closed : bool; sink_closed : bool; seen : option bool }.
Definition cstep (s : option cst) (a : cact) : option cst :=
  match s with
  | None => None
  | Some s =>
    match a with
    | AChanClose => Some (mkcst true (sink_closed s) (seen s))
    | AWaitWriter => if chan_closed s then Some (mkcst true true (seen s)) else None   (* the writer loop never ends *)
    | AIterClose => Some (mkcst (chan_closed s) (sink_closed s) (Some (sink_closed s)))
    end
  end.
Definition sees_closed (script : list cact) : option bool :=
  match fold_left cstep script (Some (mkcst false false None)) with
  | Some s => seen s
  | None => None
  end.
(* unrepaired writers: newIter.WaitAndClose(); close(chunkchan); [waitWriter.Wait()] *)
Definition closer_orig : list cact := [AIterClose; AChanClose; AWaitWriter].
(* repaired: newIter.Wait(); close(chunkchan); <-written; newIter.Close() *)
Definition closer : list cact := [AChanClose; AWaitWriter; AIterClose].
(* what the observer of the end of the result iterator finds in the sink *)
Definition at_iter_end (final : dev) (script : list cact) : option dev :=
  match sees_closed script with
  | Some true => Some final
  | _ => None          (* nothing is guaranteed *)
  end.

(** ---- correspondence, round 2: formatted chunks, grammar of the output, rows *)
Inductive fcase :=
| FJson (recs : list (list (list N))) (chunks : list (list N)) (out : list N)
| FCsv (hdr : list field) (rows : list (list (list field))) (fchunks : list (list N)) (out : list N)
| FText (t : list N) (valid : bool).       (* the recogniser against a reference JSON parser *)
Fixpoint nll_eqb (a b : list (list N)) : bool :=
  match a, b with [], [] => true | x :: a', y :: b' => nlist_eqb x y && nll_eqb a' b' | _, _ => false end.
Fixpoint nlll_eqb (a b : list (list (list N))) : bool :=
  match a, b with [], [] => true | x :: a', y :: b' => nll_eqb x y && nlll_eqb a' b' | _, _ => false end.
Definition fcase_ok (c : fcase) : bool :=
  match c with
  | FJson recs chunks out =>
    nll_eqb (json_chunks recs) chunks && forallb json_object (concat recs) &&
    nlist_eqb (json_records_expected (concat recs)) out && json_text out &&
    match json_array_objects out with Some els => nll_eqb els (concat recs) | None => false end
  | FCsv hdr rows fchunks out =>
    nll_eqb (csv_record_chunks hdr rows) fchunks && nlist_eqb (csv_expected hdr rows) out &&
    match csv_records out, rows with
    | Some rs, _ :: _ => nlll_eqb rs (hdr :: concat rows)
    | Some [], [] => true
    | _, _ => false
    end
  | FText t valid => Bool.eqb (json_text t) valid
  end.
Fixpoint fmismatches_from (i : nat) (l : list fcase) : list nat :=
  match l with
  | [] => []
  | c :: l' => let rest := fmismatches_from (Datatypes.S i) l' in if fcase_ok c then rest else i :: rest
  end.
Definition fmismatches := fmismatches_from 0.
