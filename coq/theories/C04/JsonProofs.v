From Coq Require Import List Arith NArith Bool Lia.
From OBI.C04 Require Import Json.
Import ListNotations.
Local Open Scope N_scope.

Ltac brk :=
  repeat (simpl in *; try discriminate; try reflexivity;
          match goal with
          | |- context [if ?b then _ else _] => destruct b
          | |- context [match ?x with CArr => _ | CObj => _ end] => destruct x
          | |- context [match ?st ++ _ with [] => _ | _ :: _ => _ end] => destruct st
          | |- context [match ?st with [] => _ | _ :: _ => _ end] => destruct st
          | |- context [match ?n with O => _ | S _ => _ end] => destruct n
          | |- Some _ = Some _ -> _ => let H := fresh in intros H; injection H as <- <-
          | |- None = Some _ -> _ => discriminate
          end).

Lemma step_after_frame st c m' st' sg : step_after st c = Some (m', st') -> step_after (st ++ sg) c = Some (m', st' ++ sg).
Proof. unfold step_after. brk. Qed.
Lemma step_value_frame st c m' st' sg : step_value st c = Some (m', st') -> step_value (st ++ sg) c = Some (m', st' ++ sg).
Proof. unfold step_value. brk. Qed.
Lemma step_frame m st c m' st' sg : step (m, st) c = Some (m', st') -> step (m, st ++ sg) c = Some (m', st' ++ sg).
Proof.
  unfold step. destruct m; try (brk; fail);
  repeat match goal with
  | |- context [if ?b then _ else _] => destruct b
  | |- step_after _ _ = _ -> _ => apply step_after_frame
  | |- step_value _ _ = _ -> _ => apply step_value_frame
  | |- Some _ = Some _ -> _ => let H := fresh in intros H; injection H as <- <-; reflexivity
  | |- None = Some _ -> _ => discriminate
  | |- context [match ?st with [] => _ | _ :: _ => _ end] => destruct st; simpl
  | |- context [match ?x with CArr => _ | CObj => _ end] => destruct x
  end.
Qed.

Lemma run_app t1 : forall s t2, run s (t1 ++ t2) = match run s t1 with Some s' => run s' t2 | None => None end.
Proof. induction t1 as [|c t1 IH]; intros s t2; simpl; [reflexivity|]. destruct (step s c); [apply IH|reflexivity]. Qed.

(** a serialised object is recognised as one value in every context *)
Lemma inside_run t : forall m st sg, inside (m, st) t = true -> run (m, st ++ sg) t = Some (MAfter, sg).
Proof.
  induction t as [|c t IH]; intros m st sg H.
  - simpl in H. destruct st; discriminate.
  - destruct st as [|x st]; [discriminate H|].
    destruct t as [|c' t].
    + cbn [inside snd] in H. destruct (step (m, x :: st) c) as [[m' st']|] eqn:E; [|discriminate].
      destruct m'; try discriminate. destruct st'; try discriminate.
      cbn [run]. rewrite (step_frame _ _ _ _ _ sg E). reflexivity.
    + cbn [inside snd] in H. destruct (step (m, x :: st) c) as [[m' st']|] eqn:E; [|discriminate].
      change (run (m, (x :: st) ++ sg) (c :: c' :: t)) with
        (match step (m, (x :: st) ++ sg) c with Some s' => run s' (c' :: t) | None => None end).
      rewrite (step_frame _ _ _ _ _ sg E). apply IH. exact H.
Qed.

Lemma object_run r sg : json_object r = true ->
  run (MV, sg) r = Some (MAfter, sg) /\ run (MVE, sg) r = Some (MAfter, sg).
Proof.
  unfold json_object. destruct r as [|c r]; [discriminate|].
  destruct (N.eqb_spec c 123) as [->|N]; [|destruct c as [|p]; try discriminate; repeat (destruct p; try discriminate); congruence].
  intros H. pose proof (inside_run r MK [CObj] sg H) as R. simpl in R. split; simpl; exact R.
Qed.

Definition jopen : list N := [91; 10].
Definition jclose : list N := [10; 93; 10].
Definition objs (rs : list (list N)) : Prop := Forall (fun r => json_object r = true) rs.
Definition seps (xs : list (list N)) : list N := concat (map (fun y => jsep ++ y) xs).

Lemma indent_run r sg : json_object r = true ->
  run (MV, sg) (indent r) = Some (MAfter, sg) /\ run (MVE, sg) (indent r) = Some (MAfter, sg).
Proof. intros H. destruct (object_run r sg H) as [A B]. split; simpl; assumption. Qed.

Lemma seps_run rs : objs rs -> run (MAfter, [CArr]) (seps (map indent rs)) = Some (MAfter, [CArr]).
Proof.
  induction 1 as [|r rs Hr _ IH]; [reflexivity|].
  unfold seps in *. cbn [map concat]. rewrite run_app.
  assert (E : run (MAfter, [CArr]) (jsep ++ indent r) = Some (MAfter, [CArr])).
  { destruct (indent_run r [CArr] Hr) as [A _]. simpl. simpl in A. exact A. }
  rewrite E. exact IH.
Qed.

Lemma array_text_run rs : objs rs ->
  run (MV, []) (jopen ++ jjoin jsep (map indent rs) ++ jclose) = Some (MAfter, []).
Proof.
  intros H. destruct H as [|r rs Hr H]; [reflexivity|].
  change (jopen ++ jjoin jsep (map indent (r :: rs)) ++ jclose)
    with (91 :: 10 :: (indent r ++ seps (map indent rs)) ++ jclose).
  change (run (MV, []) (91 :: 10 :: (indent r ++ seps (map indent rs)) ++ jclose))
    with (run (MVE, [CArr]) ((indent r ++ seps (map indent rs)) ++ jclose)).
  rewrite <- app_assoc, run_app. destruct (indent_run r [CArr] Hr) as [_ B]. rewrite B.
  rewrite run_app, (seps_run rs H). reflexivity.
Qed.

Theorem array_text_valid rs : objs rs -> json_text (jopen ++ jjoin jsep (map indent rs) ++ jclose) = true.
Proof. intros H. unfold json_text. rewrite (array_text_run rs H). reflexivity. Qed.

(** ---- the elements of the array are the records *)
Lemma collect_deep s c t cur acc s' : (2 <=? length (snd s))%nat = true -> step s c = Some s' ->
  collect s cur acc (c :: t) = collect s' (c :: cur) acc t.
Proof. intros D E. cbn [collect]. rewrite E, D. reflexivity. Qed.

Lemma inside_collect t : forall m st cur acc t2, inside (m, st) t = true ->
  collect (m, st ++ [CArr]) cur acc (t ++ t2) = collect (MAfter, [CArr]) (rev t ++ cur) acc t2.
Proof.
  induction t as [|c t IH]; intros m st cur acc t2 H.
  - simpl in H. destruct st; discriminate.
  - destruct st as [|x st]; [discriminate H|].
    assert (D : (2 <=? length (snd (m, (x :: st) ++ [CArr])))%nat = true).
    { simpl. rewrite app_length. simpl. destruct (length st + 1)%nat eqn:L; [lia|reflexivity]. }
    destruct t as [|c' t].
    + cbn [inside snd] in H. destruct (step (m, x :: st) c) as [[m' st']|] eqn:E; [|discriminate].
      destruct m'; try discriminate. destruct st'; try discriminate.
      pose proof (step_frame _ _ _ _ _ [CArr] E) as E'.
      cbn [app]. rewrite (collect_deep _ _ _ _ _ _ D E'). reflexivity.
    + cbn [inside snd] in H. destruct (step (m, x :: st) c) as [[m' st']|] eqn:E; [|discriminate].
      pose proof (step_frame _ _ _ _ _ [CArr] E) as E'.
      change ((c :: c' :: t) ++ t2) with (c :: (c' :: t) ++ t2).
      rewrite (collect_deep _ _ _ _ _ _ D E'). rewrite (IH _ _ _ _ _ H).
      cbn [rev]. rewrite <- !app_assoc. reflexivity.
Qed.

Lemma indent_collect r acc t2 m : json_object r = true -> m = MV \/ m = MVE ->
  collect (m, [CArr]) [] acc (indent r ++ t2) = collect (MAfter, [CArr]) (rev r) acc t2.
Proof.
  unfold json_object. destruct r as [|c r]; [discriminate|].
  destruct (N.eqb_spec c 123) as [->|N]; [|destruct c as [|p]; try discriminate; repeat (destruct p; try discriminate); congruence].
  intros H M. pose proof (inside_collect r MK [CObj] [123] acc t2 H) as R.
  cbn [rev]. rewrite <- R. destruct M as [-> | ->]; reflexivity.
Qed.

Lemma rev_obj_not_nil r : json_object r = true -> rev r <> [].
Proof. destruct r; [discriminate|]. intros _. simpl. apply not_eq_sym, app_cons_not_nil. Qed.

Lemma seps_collect_end rs : objs rs -> forall r0 acc, json_object r0 = true ->
  collect (MAfter, [CArr]) (rev r0) acc (seps (map indent rs) ++ jclose) = Some (rev acc ++ r0 :: rs).
Proof.
  induction 1 as [|r rs Hr _ IH]; intros r0 acc H0.
  - pose proof (rev_obj_not_nil r0 H0) as NE. simpl. destruct (rev r0) eqn:E; [congruence|].
    rewrite <- E, rev_involutive. reflexivity.
  - unfold seps. cbn [map concat]. rewrite <- !app_assoc.
    change (collect (MAfter, [CArr]) (rev r0) acc (jsep ++ indent r ++ concat (map (fun y => jsep ++ y) (map indent rs)) ++ jclose))
      with (collect (MV, [CArr]) [] (rev (rev r0) :: acc) (indent r ++ seps (map indent rs) ++ jclose)).
    rewrite (indent_collect r _ _ MV Hr (or_introl eq_refl)). rewrite (IH r _ Hr).
    rewrite rev_involutive. cbn [rev]. rewrite <- app_assoc. reflexivity.
Qed.

Theorem array_text_elements rs : objs rs ->
  json_array_objects (jopen ++ jjoin jsep (map indent rs) ++ jclose) = Some rs.
Proof.
  intros H. destruct H as [|r rs Hr H]; [reflexivity|].
  change (jopen ++ jjoin jsep (map indent (r :: rs)) ++ jclose)
    with (91 :: 10 :: (indent r ++ seps (map indent rs)) ++ jclose).
  unfold json_array_objects.
  change (collect (MV, []) [] [] (91 :: 10 :: (indent r ++ seps (map indent rs)) ++ jclose))
    with (collect (MVE, [CArr]) [] [] ((indent r ++ seps (map indent rs)) ++ jclose)).
  rewrite <- app_assoc, (indent_collect r _ _ MVE Hr (or_intror eq_refl)).
  rewrite (seps_collect_end rs H r [] Hr). reflexivity.
Qed.
