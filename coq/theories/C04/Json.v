(** C04 — a small executable recogniser of JSON texts (RFC 8259) over bytes, written as a pushdown
    automaton: one [step] per byte, so that recognising [a ++ b] is recognising [a] and then [b]
    (no fuel).  Strings accept every byte >= 0x20 except the double quote and the backslash (UTF-8
    well-formedness is not checked); escapes: backslash followed by one of double quote, backslash, /, b, f, n, r, t, or by u and 4 hex digits; numbers: optional minus, 0 or a digit 1-9 followed by digits, optional fraction, optional exponent;
    literals true false null; whitespace is space, \t, \n, \r.
    [json_array_objects] additionally returns the byte strings of the elements of a top-level array
    whose elements are all objects or arrays (None for any other text).
    Definitions only (the proofs are in JsonProofs.v). *)
From Coq Require Import List Arith NArith Bool.
Import ListNotations.
Local Open Scope N_scope.

Inductive ctx := CArr | CObj.

Inductive mode :=
| MV          (* a value is required *)
| MVE         (* just after '[' : a value or ']' *)
| MK          (* just after '{' : a key or '}' *)
| MK1         (* after ',' in an object : a key *)
| MColon      (* after a key : ':' *)
| MAfter      (* after a complete value *)
| MStr (key : bool) | MEsc (key : bool) | MU (key : bool) (left : nat)
| MNeg | MZero | MInt | MFrac0 | MFrac | MExp0 | MExp1 | MExp
| MLit (rest : list N).

Definition pstate := (mode * list ctx)%type.

Definition is_ws (c : N) : bool := (c =? 32) || (c =? 9) || (c =? 10) || (c =? 13).
Definition is_digit (c : N) : bool := (48 <=? c) && (c <=? 57).
Definition is_digit19 (c : N) : bool := (49 <=? c) && (c <=? 57).
Definition is_hex (c : N) : bool := is_digit c || ((65 <=? c) && (c <=? 70)) || ((97 <=? c) && (c <=? 102)).
Definition is_escapable (c : N) : bool :=
  (c =? 34) || (c =? 92) || (c =? 47) || (c =? 98) || (c =? 102) || (c =? 110) || (c =? 114) || (c =? 116).

(* after a complete value: ',' or the closing bracket of the innermost container; whitespace *)
Definition step_after (st : list ctx) (c : N) : option pstate :=
  if is_ws c then Some (MAfter, st)
  else match st with
       | CArr :: st' => if c =? 44 then Some (MV, st) else if c =? 93 then Some (MAfter, st') else None
       | CObj :: st' => if c =? 44 then Some (MK1, st) else if c =? 125 then Some (MAfter, st') else None
       | [] => None
       end.

(* the first byte of a value *)
Definition step_value (st : list ctx) (c : N) : option pstate :=
  if c =? 123 then Some (MK, CObj :: st)
  else if c =? 91 then Some (MVE, CArr :: st)
  else if c =? 34 then Some (MStr false, st)
  else if c =? 45 then Some (MNeg, st)
  else if c =? 48 then Some (MZero, st)
  else if is_digit19 c then Some (MInt, st)
  else if c =? 116 then Some (MLit [114; 117; 101], st)
  else if c =? 102 then Some (MLit [97; 108; 115; 101], st)
  else if c =? 110 then Some (MLit [117; 108; 108], st)
  else None.

Definition step (s : pstate) (c : N) : option pstate :=
  let '(m, st) := s in
  match m with
  | MV => if is_ws c then Some (MV, st) else step_value st c
  | MVE => if is_ws c then Some (MVE, st)
           else if c =? 93 then match st with CArr :: st' => Some (MAfter, st') | _ => None end
           else step_value st c
  | MK => if is_ws c then Some (MK, st)
          else if c =? 34 then Some (MStr true, st)
          else if c =? 125 then match st with CObj :: st' => Some (MAfter, st') | _ => None end
          else None
  | MK1 => if is_ws c then Some (MK1, st) else if c =? 34 then Some (MStr true, st) else None
  | MColon => if is_ws c then Some (MColon, st) else if c =? 58 then Some (MV, st) else None
  | MAfter => step_after st c
  | MStr k => if c =? 34 then Some (if k then MColon else MAfter, st)
              else if c =? 92 then Some (MEsc k, st)
              else if c <? 32 then None else Some (MStr k, st)
  | MEsc k => if c =? 117 then Some (MU k 4, st) else if is_escapable c then Some (MStr k, st) else None
  | MU k n => if is_hex c then match n with
                               | S (S n') => Some (MU k (S n'), st)
                               | _ => Some (MStr k, st)
                               end
              else None
  | MNeg => if c =? 48 then Some (MZero, st) else if is_digit19 c then Some (MInt, st) else None
  | MZero => if c =? 46 then Some (MFrac0, st) else if (c =? 101) || (c =? 69) then Some (MExp0, st)
             else if is_digit c then None else step_after st c
  | MInt => if is_digit c then Some (MInt, st) else if c =? 46 then Some (MFrac0, st)
            else if (c =? 101) || (c =? 69) then Some (MExp0, st) else step_after st c
  | MFrac0 => if is_digit c then Some (MFrac, st) else None
  | MFrac => if is_digit c then Some (MFrac, st) else if (c =? 101) || (c =? 69) then Some (MExp0, st)
             else step_after st c
  | MExp0 => if is_digit c then Some (MExp, st) else if (c =? 43) || (c =? 45) then Some (MExp1, st) else None
  | MExp1 => if is_digit c then Some (MExp, st) else None
  | MExp => if is_digit c then Some (MExp, st) else step_after st c
  | MLit rest => match rest with
                 | [x] => if c =? x then Some (MAfter, st) else None
                 | x :: r => if c =? x then Some (MLit r, st) else None
                 | [] => None
                 end
  end.

Fixpoint run (s : pstate) (t : list N) : option pstate :=
  match t with
  | [] => Some s
  | c :: t' => match step s c with Some s' => run s' t' | None => None end
  end.

(* end of text: a complete value (a number may end with the text), nothing open *)
Definition final (s : pstate) : bool :=
  match s with
  | (MAfter, []) | (MZero, []) | (MInt, []) | (MFrac, []) | (MExp, []) => true
  | _ => false
  end.

(** [t] is one JSON text *)
Definition json_text (t : list N) : bool :=
  match run (MV, []) t with Some s => final s | None => false end.

(** [r] is a serialised object: '{' ... '}' with nothing after the closing brace, the recogniser
    being inside the object (non-empty stack) before every byte but the first *)
Fixpoint inside (s : pstate) (t : list N) : bool :=
  match snd s, t with
  | [], _ => false
  | _ :: _, [] => false
  | _ :: _, [c] => match step s c with Some (MAfter, []) => true | _ => false end
  | _ :: _, c :: t' => match step s c with Some s' => inside s' t' | None => false end
  end.
Definition json_object (r : list N) : bool :=
  match r with
  | 123 :: r' => inside (MK, [CObj]) r'
  | _ => false
  end.

(** the elements of a top-level array of objects / arrays.
    [cur]: the bytes of the element being read, reversed; [acc]: the elements read, reversed. *)
Fixpoint collect (s : pstate) (cur : list N) (acc : list (list N)) (t : list N) : option (list (list N)) :=
  match t with
  | [] => match s with (MAfter, []) => Some (rev acc) | _ => None end
  | c :: t' =>
    match step s c with
    | None => None
    | Some s' =>
      if (2 <=? length (snd s))%nat then collect s' (c :: cur) acc t'         (* inside an element *)
      else match snd s with
           | [] => (* outside the array: whitespace, or the opening '[' *)
             if is_ws c || (c =? 91) then collect s' [] acc t' else None
           | _ :: _ => (* directly inside the top-level array *)
             match fst s with
             | MV | MVE | MAfter =>
               if is_ws c then collect s' cur acc t'
               else if c =? 44 then collect s' [] (rev cur :: acc) t'
               else if c =? 93 then collect s' [] (match cur with [] => acc | _ => rev cur :: acc end) t'
               else if (c =? 123) || (c =? 91) then collect s' [c] acc t'
               else None
             | _ => None   (* a scalar element *)
             end
           end
    end
  end.
Definition json_array_objects (t : list N) : option (list (list N)) := collect (MV, []) [] [] t.

(** ---- FormatJSONBatch: two spaces then the record; the records of one batch are separated by comma newline *)
Definition jsep : list N := [44; 10].
Definition indent (r : list N) : list N := 32 :: 32 :: r.
Definition jjoin (sep : list N) (xs : list (list N)) : list N :=
  match xs with [] => [] | x :: r => x ++ concat (map (fun y => sep ++ y) r) end.
Definition format_json_batch (recs : list (list N)) : list N := jjoin jsep (map indent recs).
