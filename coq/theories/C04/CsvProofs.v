(** C04 — proofs about the CSV line writer: the reader [csv_records] recovers the records. *)
From Coq Require Import List Arith NArith Bool Lia.
From OBI.C04 Require Import Csv.
Import ListNotations.
Local Open Scope N_scope.

Definition dbl (f : field) : list N := flat_map (fun c => if c =? 34 then [34; 34] else [c]) f.

(* the text that follows a field: a comma or the end of line *)
Definition after_field (fs : list field) (acc : list (list field)) (f : field) (c : N) (t : list N) : option (list (list field)) :=
  if c =? 44 then csv_read RStart [] (f :: fs) acc t
  else csv_read RStart [] [] (rev (f :: fs) :: acc) t.

Lemma read_quoted f : forall cur fs acc c t, c = 44 \/ c = 10 ->
  csv_read RQuoted cur fs acc (dbl f ++ 34 :: c :: t) = after_field fs acc (rev cur ++ f) c t.
Proof.
  induction f as [|x f IH]; intros cur fs acc c t Hc.
  - simpl. rewrite app_nil_r. unfold after_field. destruct Hc as [-> | ->]; reflexivity.
  - unfold dbl in *. cbn [flat_map]. destruct (N.eqb_spec x 34) as [->|Nx].
    + change (([34; 34] ++ flat_map (fun c0 : N => if c0 =? 34 then [34; 34] else [c0]) f) ++ 34 :: c :: t)
        with (34 :: 34 :: flat_map (fun c0 : N => if c0 =? 34 then [34; 34] else [c0]) f ++ 34 :: c :: t).
      cbn [csv_read]. change (34 =? 34) with true. cbn iota.
      rewrite IH by exact Hc. cbn [rev]. rewrite <- app_assoc. reflexivity.
    + change (([x] ++ flat_map (fun c0 : N => if c0 =? 34 then [34; 34] else [c0]) f) ++ 34 :: c :: t)
        with (x :: flat_map (fun c0 : N => if c0 =? 34 then [34; 34] else [c0]) f ++ 34 :: c :: t).
      cbn [csv_read]. destruct (N.eqb_spec x 34); [contradiction|].
      rewrite IH by exact Hc. cbn [rev]. rewrite <- app_assoc. reflexivity.
Qed.

Lemma read_bare f : forall cur fs acc c t, existsb special f = false -> c = 44 \/ c = 10 ->
  csv_read RBare cur fs acc (f ++ c :: t) = after_field fs acc (rev cur ++ f) c t.
Proof.
  induction f as [|x f IH]; intros cur fs acc c t Hs Hc.
  - simpl. rewrite app_nil_r. unfold after_field. destruct Hc as [-> | ->]; reflexivity.
  - cbn [existsb] in Hs. apply orb_false_iff in Hs. destruct Hs as [Hx Hs].
    unfold special in Hx. repeat (apply orb_false_iff in Hx; destruct Hx as [Hx ?]).
    cbn [app csv_read]. rewrite Hx. rewrite H. rewrite H1.
    rewrite IH by assumption. cbn [rev]. rewrite <- app_assoc. reflexivity.
Qed.

Lemma read_field f fs acc c t : c = 44 \/ c = 10 ->
  csv_read RStart [] fs acc (enc_field f ++ c :: t) = after_field fs acc f c t.
Proof.
  intros Hc. unfold enc_field. destruct (needs_quotes f) eqn:Q.
  - unfold quoted. change ((34 :: flat_map (fun c0 : N => if c0 =? 34 then [34; 34] else [c0]) f ++ [34]) ++ c :: t)
      with (34 :: (dbl f ++ [34]) ++ c :: t).
    rewrite <- app_assoc. cbn [csv_read]. change (34 =? 34) with true. cbn iota.
    change ([34] ++ c :: t) with (34 :: c :: t). rewrite read_quoted by exact Hc. reflexivity.
  - destruct f as [|x f].
    + unfold after_field. destruct Hc as [-> | ->]; reflexivity.
    + cbn [needs_quotes] in Q. apply orb_false_iff in Q. destruct Q as [Q _].
      apply orb_false_iff in Q. destruct Q as [_ Q].
      pose proof Q as Q'. cbn [existsb] in Q'. apply orb_false_iff in Q'. destruct Q' as [Hx Hs].
      unfold special in Hx. repeat (apply orb_false_iff in Hx; destruct Hx as [Hx ?]).
      cbn [app csv_read]. rewrite H. rewrite Hx. rewrite H1.
      rewrite read_bare by assumption. reflexivity.
Qed.

(* the fields of one line *)
Lemma read_line_from fs' : forall f fs acc t,
  csv_read RStart [] fs acc (enc_field f ++ concat (map (fun y => [44] ++ y) (map enc_field fs')) ++ 10 :: t)
  = csv_read RStart [] [] (rev (rev fs' ++ f :: fs) :: acc) t.
Proof.
  induction fs' as [|g fs' IH]; intros f fs acc t.
  - cbn [map concat app]. rewrite read_field by now right. unfold after_field. reflexivity.
  - cbn [map concat]. rewrite <- !app_assoc. change ([44] ++ enc_field g ++ ?x) with (44 :: enc_field g ++ x).
    replace (enc_field f ++ ([44] ++ enc_field g) ++ concat (map (fun y => [44] ++ y) (map enc_field fs')) ++ 10 :: t)
      with (enc_field f ++ 44 :: (enc_field g ++ concat (map (fun y => [44] ++ y) (map enc_field fs')) ++ 10 :: t))
      by (rewrite <- !app_assoc; reflexivity).
    rewrite read_field by now left. unfold after_field. change (44 =? 44) with true. cbn iota.
    rewrite IH. cbn [rev]. rewrite <- !app_assoc. reflexivity.
Qed.

Lemma read_line row acc t : row <> [] ->
  csv_read RStart [] [] acc (csv_line row ++ t) = csv_read RStart [] [] (row :: acc) t.
Proof.
  destruct row as [|f fs']; [congruence|intros _].
  unfold csv_line, cjoin. cbn [map]. rewrite <- !app_assoc. change ([10] ++ t) with (10 :: t).
  rewrite read_line_from. rewrite rev_app_distr. cbn [rev app]. rewrite rev_involutive. reflexivity.
Qed.

Theorem read_lines rows : Forall (fun r => r <> []) rows -> forall acc,
  csv_read RStart [] [] acc (concat (map csv_line rows)) = Some (rev acc ++ rows).
Proof.
  induction 1 as [|row rows Hr _ IH]; intros acc.
  - simpl. now rewrite app_nil_r.
  - cbn [map concat]. rewrite read_line by exact Hr. rewrite IH. cbn [rev]. now rewrite <- app_assoc.
Qed.

Theorem csv_roundtrip rows : Forall (fun r => r <> []) rows -> csv_records (concat (map csv_line rows)) = Some rows.
Proof. intros H. unfold csv_records. now rewrite read_lines. Qed.
