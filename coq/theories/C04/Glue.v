(** C04, round 3 — the glue around the four writers (definitions only).

    * [chunk_writer]: WriteSeqFileChunk(writer, toBeClosed) driven with arbitrary chunks;
    * [file_after]: the *ToFile entry points open their file with O_TRUNC, or O_APPEND when asked to
      append: the file holds afterwards (its former content, when appending, followed by) what the
      writer sent to it; [paired_files]: the mates go through a second writer into a second file;
    * [universal_writer]: WriteSequence chooses FASTQ or FASTA from the first non-empty batch that
      ARRIVES (skipEmptyBatches), then behaves as that writer;
    * [csv_header] / [csv_record]: CSVHeader / CSVRecord under every column option;
    * [auto_columns]: obicsv --auto proposes the non-map attribute keys of the first batch of the
      re-sequenced input (SortBatches = the proved resequencer), sorted, after the explicit keys. *)
From Coq Require Import List Arith NArith Bool.
From OBI.Common Require Reseq.
From OBI.C04 Require Import Json Csv Model.
Import ListNotations.

(** ---- WriteSeqFileChunk(writer, toBeClosed) *)
Definition chunk_writer (tbc : bool) (arr : list (nat * chunk)) : dev :=
  let d := wrun emit_raw emit_raw arr dev0 in if tbc then dclose d else d.

(** ---- the file under the writer *)
Definition file_after (append : bool) (old : list N) (d : dev) : list N :=
  (if append then old else []) ++ got d.
Definition kind_writer (k : wkind) (header : chunk) (chunks : list chunk) (order : list nat) : dev :=
  run_case (mkc k header chunks order [] 0).
Definition file_writer (k : wkind) (append : bool) (old header : list N) (chunks : list chunk) (order : list nat) : list N :=
  file_after append old (kind_writer k header chunks order).
(* paired: with one formatting worker the second writer receives the batches in the order the first one
   released them, i.e. the same arrival order *)
Definition paired_files (k : wkind) (append : bool) (old1 old2 header : list N) (fwd rev : list chunk) (order : list nat)
  : list N * list N :=
  (file_writer k append old1 header fwd order, file_writer k append old2 header rev order).

(** ---- FormatFastaBatch / FormatFastqBatch over records: a record is (its sequence is not empty, the text
    FormatFasta + LF resp. _formatFastq gives for it); with OptionsSkipEmptySequence the records without
    sequence contribute nothing (without it the command stops: not modelled) *)
Definition format_fastx_batch (recs : list (bool * chunk)) : chunk := concat (map snd (filter fst recs)).
Definition fastx_record_chunks (batches : list (list (bool * chunk))) : list chunk := map format_fastx_batch batches.

(** ---- the universal writer *)
Inductive bq := BEmpty | BQual | BNoQual.      (* what the first record of a batch says about qualities *)
Fixpoint first_nonempty (l : list bq) : bq :=
  match l with [] => BEmpty | BEmpty :: r => first_nonempty r | x :: _ => x end.
Definition decide (quals : list bq) (order : list nat) : bool :=
  match first_nonempty (map (fun i => nth i quals BEmpty) order) with BQual => true | _ => false end.
Definition universal_writer (quals : list bq) (fa fq : list chunk) (order : list nat) : dev :=
  fastx_writer (arrivals (if decide quals order then fq else fa) order).
(* what a batch says: a record is (its sequence is not empty, it carries qualities); a zero-length read carries
   no quality whatever the file it came from, so it says nothing (repaired); the unrepaired writer
   looked at the first record whatever its length *)
Definition bq_of (b : list (bool * bool)) : bq :=
  match filter fst b with [] => BEmpty | (_, q) :: _ => if q then BQual else BNoQual end.
Definition bq_of_orig (b : list (bool * bool)) : bq :=
  match b with [] => BEmpty | (_, q) :: _ => if q then BQual else BNoQual end.
(* before the repair: an input without any batch left the output untouched and OPEN *)
Definition universal_writer_orig (quals : list bq) (fa fq : list chunk) (order : list nat) : dev :=
  match order with [] => dev0 | _ => universal_writer quals fa fq order end.

(** ---- CSVHeader / CSVRecord *)
Record copts := mkco { o_id : bool; o_count : bool; o_taxon : bool; o_def : bool; o_keys : list field;
                       o_seq : bool; o_qual : bool; o_na : field }.
Record crec := mkcr { r_id : field; r_count : field; r_taxid : field; r_root : bool; (* taxid = 1 *)
                      r_sn : option field; r_def : field; r_attrs : list (field * field);
                      r_seq : field; r_qual : option field }.
Fixpoint assoc (k : field) (l : list (field * field)) : option field :=
  match l with [] => None | (k', v) :: r => if nl_eqb k k' then Some v else assoc k r end.
Definition opt (b : bool) (l : list field) : list field := if b then l else [].
Definition s_id : field := [105; 100]%N.
Definition s_count : field := [99; 111; 117; 110; 116]%N.
Definition s_taxid : field := [116; 97; 120; 105; 100]%N.
Definition s_sn : field := [115; 99; 105; 101; 110; 116; 105; 102; 105; 99; 95; 110; 97; 109; 101]%N.
Definition s_def : field := [100; 101; 102; 105; 110; 105; 116; 105; 111; 110]%N.
Definition s_seq : field := [115; 101; 113; 117; 101; 110; 99; 101]%N.
Definition s_qual : field := [113; 117; 97; 108; 105; 116; 121]%N.
Definition s_root : field := [114; 111; 111; 116]%N.
Definition or_na (o : copts) (v : option field) : field := match v with Some x => x | None => o_na o end.
Definition csv_header (o : copts) : list field :=
  opt (o_id o) [s_id] ++ opt (o_count o) [s_count] ++ opt (o_taxon o) [s_taxid; s_sn] ++ opt (o_def o) [s_def] ++
  o_keys o ++ opt (o_seq o) [s_seq] ++ opt (o_qual o) [s_qual].
Definition csv_record (o : copts) (r : crec) : list field :=
  opt (o_id o) [r_id r] ++ opt (o_count o) [r_count r] ++
  opt (o_taxon o) [r_taxid r; match r_sn r with Some s => s | None => if r_root r then s_root else o_na o end] ++
  opt (o_def o) [r_def r] ++
  map (fun k => or_na o (assoc k (r_attrs r))) (o_keys o) ++
  opt (o_seq o) [r_seq r] ++ opt (o_qual o) [or_na o (r_qual r)].

(** ---- obicsv --auto *)
Fixpoint fcmp (a b : list N) : comparison :=       (* byte-wise lexicographic order: sort.Strings *)
  match a, b with
  | [], [] => Eq | [], _ => Lt | _, [] => Gt
  | x :: a', y :: b' => match N.compare x y with Eq => fcmp a' b' | c => c end
  end.
Fixpoint insert_key (k : field) (l : list field) : list field :=
  match l with
  | [] => [k]
  | x :: r => match fcmp k x with Lt => k :: l | Eq => l | Gt => x :: insert_key k r end
  end.
Definition sort_keys (l : list field) : list field := fold_right insert_key [] l.
(* a batch is summarised by the non-map attribute keys of its records *)
Definition auto_columns (explicit : list field) (arr : list (nat * list field)) : list field :=
  explicit ++ match Reseq.out (Reseq.run arr) with b0 :: _ => sort_keys b0 | [] => [] end.

(** ---- correspondence *)
Inductive gcase :=
| GChunks (tbc : bool) (chunks : list chunk) (order : list nat) (out : list N) (ncloses : nat)
| GFile (k : wkind) (append : bool) (old header : list N) (chunks : list chunk) (order : list nat) (content : list N)
| GAuto (quals : list bq) (fa fq : list chunk) (order : list nat) (out : list N) (ncloses : nat)
| GCsvRec (o : copts) (r : crec) (hdr row : list field)
| GFastx (recs : list (list (bool * chunk))) (chunks : list chunk) (out : list N)
| GAutoCols (explicit : list field) (bkeys : list (list field)) (order : list nat) (cols : list field).
Definition gcase_ok (c : gcase) : bool :=
  match c with
  | GChunks tbc chunks order out n => dev_eqb (chunk_writer tbc (arrivals chunks order)) out n
  | GFile k app old header chunks order content => nlist_eqb (file_writer k app old header chunks order) content
  | GAuto quals fa fq order out n => dev_eqb (universal_writer quals fa fq order) out n
  | GCsvRec o r hdr row => nll_eqb (csv_header o) hdr && nll_eqb (csv_record o r) row
  | GFastx recs chunks out =>
    nll_eqb (fastx_record_chunks recs) chunks && nlist_eqb (concat (map snd (filter fst (concat recs)))) out
  | GAutoCols ex bkeys order cols => nll_eqb (auto_columns ex (map (fun i => (i, nth i bkeys [])) order)) cols
  end.
Fixpoint gmismatches_from (i : nat) (l : list gcase) : list nat :=
  match l with
  | [] => []
  | c :: l' => let rest := gmismatches_from (Datatypes.S i) l' in if gcase_ok c then rest else i :: rest
  end.
Definition gmismatches := gmismatches_from 0.
