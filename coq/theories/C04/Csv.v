(** C04 — FormatCVSBatch over records: the line that encoding/csv's Writer.Write emits for a list of
    fields (Comma = ',', UseCRLF = false): fields separated by commas, line ended by LF; a field is
    quoted iff it is not empty and (it is backslash-dot, or holds a comma, a double quote, CR or LF, or
    starts with a Unicode space - unicode.IsSpace of the first rune); inside quotes only the double
    quote is changed (doubled).  Definitions only. *)
From Coq Require Import List Arith NArith Bool.
Import ListNotations.
Local Open Scope N_scope.

Definition field := list N.

Fixpoint nl_eqb (a b : list N) : bool :=
  match a, b with [], [] => true | x :: a', y :: b' => (x =? y) && nl_eqb a' b' | _, _ => false end.

(* unicode.IsSpace(first rune): TAB LF VT FF CR SPACE, U+0085, U+00A0, U+1680, U+2000..U+200A,
   U+2028, U+2029, U+202F, U+205F, U+3000 (UTF-8 encoded; an invalid first byte is U+FFFD: not a space) *)
Definition first_is_space (f : field) : bool :=
  match f with
  | c :: r =>
    if c <? 128 then ((9 <=? c) && (c <=? 13)) || (c =? 32)
    else match r with
         | d :: r' =>
           if c =? 194 then (d =? 133) || (d =? 160)
           else match r' with
                | e :: _ =>
                  ((c =? 225) && (d =? 154) && (e =? 128)) ||
                  ((c =? 226) && (d =? 128) && (((128 <=? e) && (e <=? 138)) || (e =? 168) || (e =? 169) || (e =? 175))) ||
                  ((c =? 226) && (d =? 129) && (e =? 159)) ||
                  ((c =? 227) && (d =? 128) && (e =? 128))
                | [] => false
                end
         | [] => false
         end
  | [] => false
  end.

Definition special (c : N) : bool := (c =? 44) || (c =? 34) || (c =? 13) || (c =? 10).
Definition needs_quotes (f : field) : bool :=
  match f with
  | [] => false
  | _ => nl_eqb f [92; 46] || existsb special f || first_is_space f
  end.
Definition quoted (f : field) : list N := 34 :: flat_map (fun c => if c =? 34 then [34; 34] else [c]) f ++ [34].
Definition enc_field (f : field) : list N := if needs_quotes f then quoted f else f.
Definition cjoin (sep : list N) (xs : list (list N)) : list N :=
  match xs with [] => [] | x :: r => x ++ concat (map (fun y => sep ++ y) r) end.
Definition csv_line (fs : list field) : list N := cjoin [44] (map enc_field fs) ++ [10].

(* FormatCVSBatch: the header line in the batch numbered 0, then one line per record *)
Definition format_csv_batch (hdr : list field) (order : nat) (rows : list (list field)) : list N :=
  (if Nat.eqb order 0 then csv_line hdr else []) ++ concat (map csv_line rows).
Fixpoint csv_batches_from (hdr : list field) (k : nat) (bs : list (list (list field))) : list (list N) :=
  match bs with [] => [] | b :: bs' => format_csv_batch hdr k b :: csv_batches_from hdr (S k) bs' end.
Definition csv_expected (hdr : list field) (bs : list (list (list field))) : list N :=
  match bs with [] => [] | _ => csv_line hdr ++ concat (map csv_line (concat bs)) end.

(** a reader of the lines written above (the part of encoding/csv's Reader that matters here:
    LazyQuotes off, no comment, no trimming): returns the records of a text. *)
Inductive rmode := RStart | RBare | RQuoted | RQuoteInQuoted.
(* state: fields of the current record (reversed), current field (reversed), mode *)
Fixpoint csv_read (m : rmode) (cur : field) (fs : list field) (acc : list (list field)) (t : list N) : option (list (list field)) :=
  match t with
  | [] => match m, cur, fs with RStart, [], [] => Some (rev acc) | _, _, _ => None end   (* every line ends with LF *)
  | c :: t' =>
    match m with
    | RStart => if c =? 34 then csv_read RQuoted [] fs acc t'
                else if c =? 44 then csv_read RStart [] ([] :: fs) acc t'
                else if c =? 10 then csv_read RStart [] [] (rev ([] :: fs) :: acc) t'
                else csv_read RBare [c] fs acc t'
    | RBare => if c =? 44 then csv_read RStart [] (rev cur :: fs) acc t'
               else if c =? 10 then csv_read RStart [] [] (rev (rev cur :: fs) :: acc) t'
               else if c =? 34 then None
               else csv_read RBare (c :: cur) fs acc t'
    | RQuoted => if c =? 34 then csv_read RQuoteInQuoted cur fs acc t' else csv_read RQuoted (c :: cur) fs acc t'
    | RQuoteInQuoted => if c =? 34 then csv_read RQuoted (34 :: cur) fs acc t'
                        else if c =? 44 then csv_read RStart [] (rev cur :: fs) acc t'
                        else if c =? 10 then csv_read RStart [] [] (rev (rev cur :: fs) :: acc) t'
                        else None
    end
  end.
Definition csv_records (t : list N) : option (list (list field)) := csv_read RStart [] [] [] t.
