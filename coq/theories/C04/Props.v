(** C04 — property theorems (statements only; every proof is [exact] of a lemma of Proofs.v).
    Writers emit every batch once, in order, as well-formed FASTA/FASTQ/JSON/CSV — for every list of
    chunks (empty chunks included) and EVERY arrival permutation of the numbered chunks. *)
From Coq Require Import List Arith NArith Bool Permutation.
From OBI.C04 Require Import Json Csv.
From OBI.Common Require Import Reseq.
From OBI.C04 Require Import Model Proofs.
Import ListNotations.

(** the loop shared by the three writers = emit chunk 0, 1, ..., n-1 in this order, whatever [e] does *)
Theorem C04_writer_loop_any_permutation :
  forall (S : Type) (e : nat -> S -> chunk -> S) (s0 : S) (l : list chunk) (arr : list (nat * chunk)),
  Permutation arr (numbered l) -> wrun e e arr s0 = foldi e 0 l s0.
Proof. exact wrun_any_permutation. Qed.

(** every batch number is emitted exactly once, in increasing order *)
Theorem C04_every_batch_once_in_order : forall l arr, Permutation arr (numbered l) ->
  wrun emit_num emit_num arr [] = seq 0 (length l).
Proof. exact order_spec. Qed.

(** FASTA / FASTQ (WriteSeqFileChunk): the bytes are the concatenation of the chunks, then one Close *)
Theorem C04_fastx_bytes : forall l arr, Permutation arr (numbered l) ->
  fastx_writer arr = mkdev (concat l) 1.
Proof. exact fastx_spec. Qed.

(** JSON (repaired WriteJSON): "[\n" ++ join ",\n" (non-empty chunks) ++ "\n]\n", then one Close *)
Theorem C04_json_valid : forall l arr, Permutation arr (numbered l) ->
  json_writer arr = mkdev (json_open ++ join json_sep (filter nonempty l) ++ json_close) 1.
Proof. exact json_spec. Qed.
(** [join] puts exactly one separator between consecutive chunks and none elsewhere *)
Theorem C04_json_join_length : forall sep xs, xs <> [] ->
  length (join sep xs) + length sep = length (concat xs) + length xs * length sep.
Proof. exact join_length. Qed.

(** the unrepaired WriteJSON (json_writer_orig) violates it: a chunk drained from the buffer gets no
    separator (arrival 1,0); an empty batch gets one (sizes 1,0,1 in order) — both fail on the real
    unrepaired code as well (corpus of tools/props/c04.py) *)
Theorem C04_json_orig_refuted_drained_chunk :
  exists l arr, Permutation arr (numbered l) /\ got (json_writer_orig arr) <> json_expected l.
Proof. exact json_orig_refuted_drain. Qed.
Theorem C04_json_orig_refuted_empty_batch :
  exists l, got (json_writer_orig (numbered l)) <> json_expected l.
Proof. exact json_orig_refuted_empty. Qed.

(** CSV: at least one batch => the header (formatted into chunk 0) then the rows, then one Close *)
Theorem C04_csv_shape : forall header r rows arr,
  Permutation arr (numbered (csv_chunks header (r :: rows))) ->
  csv_writer arr = mkdev (header ++ concat (r :: rows)) 1.
Proof. exact csv_spec. Qed.
Theorem C04_csv_no_batch : forall header arr, Permutation arr (numbered (csv_chunks header [])) ->
  csv_writer arr = mkdev [] 1.
Proof. exact csv_empty_spec. Qed.

(** ================= round 2: over RECORDS (FormatJSONBatch / FormatCVSBatch inside the model) *)

(** JSON.  [batches]: the serialised records (JSONRecord) of every batch; the chunks are
    FormatJSONBatch of them (two blanks before a record, comma-newline between the records of one batch,
    nothing for an empty batch).  If every record is a serialised JSON object (executable recogniser
    [json_object] of Json.v) then, for EVERY arrival permutation, the sink receives exactly
    open-bracket, the indented records of all batches in order separated by comma-newline, close-bracket,
    then one Close; that text is ONE grammatical JSON text ([json_text], RFC 8259 automaton) and it is an
    array whose elements are, in order, exactly the records ([json_array_objects]). *)
Theorem C04_json_is_array : forall (batches : list (list (list N))) arr,
  Forall (fun r => json_object r = true) (concat batches) ->
  Permutation arr (numbered (json_chunks batches)) ->
  json_writer arr = mkdev (json_records_expected (concat batches)) 1 /\
  json_text (got (json_writer arr)) = true /\
  json_array_objects (got (json_writer arr)) = Some (concat batches).
Proof. exact json_records_spec. Qed.
(** the two grammar facts on their own: a framed list of objects is a JSON text / an array of them *)
Theorem C04_framed_objects_are_json : forall rs, Forall (fun r => json_object r = true) rs ->
  json_text (json_records_expected rs) = true.
Proof. exact JsonProofs.array_text_valid. Qed.
Theorem C04_framed_objects_elements : forall rs, Forall (fun r => json_object r = true) rs ->
  json_array_objects (json_records_expected rs) = Some rs.
Proof. exact JsonProofs.array_text_elements. Qed.
(** a serialised object is recognised as exactly one value in every context (the recogniser is a
    pushdown automaton: what is below the top of its stack is never looked at) *)
Theorem C04_object_in_any_context : forall r sg, json_object r = true ->
  Json.run (MV, sg) r = Some (MAfter, sg) /\ Json.run (MVE, sg) r = Some (MAfter, sg).
Proof. exact JsonProofs.object_run. Qed.
(** FormatJSONBatch and the writer's separators compose: one separator between consecutive records,
    wherever the batch boundaries and the empty batches are *)
Theorem C04_json_batches_flatten : forall batches,
  join json_sep (filter nonempty (json_chunks batches)) = jjoin jsep (map indent (concat batches)).
Proof. exact join_filter_chunks. Qed.

(** CSV.  [hdr]: the fields of CSVHeader; [batches]: the fields of CSVRecord of every record of every
    batch; the chunks are FormatCVSBatch of them (encoding/csv line syntax, the header line inside the
    batch numbered 0).  For EVERY arrival permutation the sink receives the header line followed by
    one line per record in order (nothing at all when there is no batch), then one Close. *)
Theorem C04_csv_rows : forall hdr (batches : list (list (list field))) arr,
  Permutation arr (numbered (csv_record_chunks hdr batches)) ->
  csv_writer arr = mkdev (match batches with [] => [] | _ => csv_line hdr ++ concat (map csv_line (concat batches)) end) 1.
Proof. exact csv_records_spec. Qed.
(** ... and these lines are unambiguous: a reader of the same line syntax gets the header and the
    rows back, in order (rows with at least one field) *)
Theorem C04_csv_rows_decodable : forall hdr (batches : list (list (list field))) arr,
  batches <> [] -> hdr <> [] -> Forall (fun r => r <> []) (concat batches) ->
  Permutation arr (numbered (csv_record_chunks hdr batches)) ->
  csv_records (got (csv_writer arr)) = Some (hdr :: concat batches).
Proof. exact csv_rows_decodable. Qed.
Theorem C04_csv_lines_roundtrip : forall rows, Forall (fun r => r <> []) rows ->
  csv_records (concat (map csv_line rows)) = Some rows.
Proof. exact CsvProofs.csv_roundtrip. Qed.

(** completion order: an observer that has seen the END of the iterator returned by a (repaired)
    writer finds the sink closed and complete; the unrepaired closing script guarantees nothing
    (it ended the iterator BEFORE closing the chunk channel), and waiting for the writer before the
    channel is closed would block. *)
Theorem C04_iter_end_implies_sink_closed : forall l arr, Permutation arr (numbered l) ->
  at_iter_end (fastx_writer arr) closer = Some (mkdev (concat l) 1) /\
  at_iter_end (json_writer arr) closer = Some (mkdev (json_expected l) 1) /\
  at_iter_end (csv_writer arr) closer = Some (mkdev (concat l) 1).
Proof.
  exact (fun l arr P => conj (iter_end_implies_closed_fastx l arr P)
                       (conj (iter_end_implies_closed_json l arr P) (iter_end_implies_closed_fastx l arr P))).
Qed.
Theorem C04_iter_end_after_wait : forall pre s,
  match fold_left cstep (pre ++ [AWaitWriter; AIterClose]) (Some s) with
  | Some s' => seen s' = Some true | None => True end.
Proof. exact iter_end_after_wait. Qed.
Theorem C04_iter_end_orig_refuted : sees_closed closer_orig = Some false /\ forall d, at_iter_end d closer_orig = None.
Proof. exact (conj closer_orig_sees_open iter_end_orig_nothing). Qed.
Theorem C04_wait_before_channel_close_blocks : sees_closed [AWaitWriter; AChanClose; AIterClose] = None.
Proof. exact wait_before_close_blocks. Qed.

(** hypotheses are satisfiable by a non-identity arrival with an empty chunk, and the writers compute *)
Example C04_nonvacuous :
  let l := [[49%N]; []; [50%N; 51%N]] in
  let arr := [(2, [50%N; 51%N]); (1, []); (0, [49%N])] in
  Permutation arr (numbered l) /\
  got (json_writer arr) = [91; 10; 49; 44; 10; 50; 51; 10; 93; 10]%N /\
  got (fastx_writer arr) = [49; 50; 51]%N /\ closes (json_writer arr) = 1.
Proof.
  simpl. split; [|vm_compute; auto].
  change (numbered [[49%N]; []; [50%N; 51%N]]) with (rev [(2, [50%N; 51%N]); (1, @nil N); (0, [49%N])]).
  apply Permutation_rev.
Qed.

(** the record-level hypotheses are satisfiable: two batches of serialised objects (one nested, with
    an escaped quote), non-identity arrival; a CSV field that needs quotes *)
Example C04_records_nonvacuous :
  let r1 := [123; 34; 97; 34; 58; 123; 34; 98; 92; 34; 34; 58; 91; 49; 44; 50; 93; 125; 125]%N in   (* an object holding an object holding an array; one key has an escaped double quote *)
  let r2 := [123; 125]%N in
  let batches := [[r1]; []; [r2; r1]] in
  Forall (fun r => json_object r = true) (concat batches) /\
  json_array_objects (json_records_expected (concat batches)) = Some [r1; r2; r1] /\
  json_text [91; 49; 44; 93]%N = false /\
  csv_line [[97; 44; 98]; []; [32; 120]; [113; 34]]%N = [34; 97; 44; 98; 34; 44; 44; 34; 32; 120; 34; 44; 34; 113; 34; 34; 34; 10]%N.
Proof. cbv zeta. split; [repeat constructor|]. vm_compute. auto. Qed.

Print Assumptions C04_writer_loop_any_permutation.
Print Assumptions C04_every_batch_once_in_order.
Print Assumptions C04_fastx_bytes.
Print Assumptions C04_json_valid.
Print Assumptions C04_json_join_length.
Print Assumptions C04_json_orig_refuted_drained_chunk.
Print Assumptions C04_json_orig_refuted_empty_batch.
Print Assumptions C04_csv_shape.
Print Assumptions C04_csv_no_batch.
Print Assumptions C04_json_is_array.
Print Assumptions C04_framed_objects_are_json.
Print Assumptions C04_framed_objects_elements.
Print Assumptions C04_object_in_any_context.
Print Assumptions C04_json_batches_flatten.
Print Assumptions C04_csv_rows.
Print Assumptions C04_csv_rows_decodable.
Print Assumptions C04_csv_lines_roundtrip.
Print Assumptions C04_iter_end_implies_sink_closed.
Print Assumptions C04_iter_end_after_wait.
Print Assumptions C04_iter_end_orig_refuted.
Print Assumptions C04_wait_before_channel_close_blocks.
