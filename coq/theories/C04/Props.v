(** C04 — property theorems (statements only; every proof is [exact] of a lemma of Proofs.v).
    Writers emit every batch once, in order, as well-formed FASTA/FASTQ/JSON/CSV — for every list of
    chunks (empty chunks included) and EVERY arrival permutation of the numbered chunks. *)
From Coq Require Import List Arith NArith Bool Permutation.
From OBI.C04 Require Import Json Csv.
From OBI.Common Require Import Reseq.
From OBI.C04 Require Import Model Proofs.
From OBI.C04 Require Import Glue GlueProofs.
From Coq Require Import Sorted.
Import ListNotations.

(** the loop shared by the three writers = emit chunk 0, 1, ..., n-1 in this order, whatever [e] does *)
Theorem C04_writer_loop_any_permutation :
  forall (S : Type) (e : nat -> S -> chunk -> S) (s0 : S) (l : list chunk) (arr : list (nat * chunk)),
  Permutation arr (numbered l) -> wrun e e arr s0 = foldi e 0 l s0.
Proof. exact wrun_any_permutation. Qed.

(** every batch number is emitted exactly once, in increasing order *)
Theorem C04_every_batch_once_in_order : forall l arr, Permutation arr (numbered l) ->
  wrun emit_num emit_num arr [] = seq 0 (length l).
Proof. exact order_spec. Qed.

(** FASTA / FASTQ (WriteSeqFileChunk): the bytes are the concatenation of the chunks, then one Close *)
Theorem C04_fastx_bytes : forall l arr, Permutation arr (numbered l) ->
  fastx_writer arr = mkdev (concat l) 1.
Proof. exact fastx_spec. Qed.

(** JSON (repaired WriteJSON): "[\n" ++ join ",\n" (non-empty chunks) ++ "\n]\n", then one Close *)
Theorem C04_json_valid : forall l arr, Permutation arr (numbered l) ->
  json_writer arr = mkdev (json_open ++ join json_sep (filter nonempty l) ++ json_close) 1.
Proof. exact json_spec. Qed.
(** [join] puts exactly one separator between consecutive chunks and none elsewhere *)
Theorem C04_json_join_length : forall sep xs, xs <> [] ->
  length (join sep xs) + length sep = length (concat xs) + length xs * length sep.
Proof. exact join_length. Qed.

(** the unrepaired WriteJSON (json_writer_orig) violates it: a chunk drained from the buffer gets no
    separator (arrival 1,0); an empty batch gets one (sizes 1,0,1 in order) — both fail on the real
    unrepaired code as well (corpus of tools/props/c04.py) *)
Theorem C04_json_orig_refuted_drained_chunk :
  exists l arr, Permutation arr (numbered l) /\ got (json_writer_orig arr) <> json_expected l.
Proof. exact json_orig_refuted_drain. Qed.
Theorem C04_json_orig_refuted_empty_batch :
  exists l, got (json_writer_orig (numbered l)) <> json_expected l.
Proof. exact json_orig_refuted_empty. Qed.

(** CSV: at least one batch => the header (formatted into chunk 0) then the rows, then one Close *)
Theorem C04_csv_shape : forall header r rows arr,
  Permutation arr (numbered (csv_chunks header (r :: rows))) ->
  csv_writer arr = mkdev (header ++ concat (r :: rows)) 1.
Proof. exact csv_spec. Qed.
Theorem C04_csv_no_batch : forall header arr, Permutation arr (numbered (csv_chunks header [])) ->
  csv_writer arr = mkdev [] 1.
Proof. exact csv_empty_spec. Qed.

(** ================= round 2: over RECORDS (FormatJSONBatch / FormatCVSBatch inside the model) *)

(** JSON.  [batches]: the serialised records (JSONRecord) of every batch; the chunks are
    FormatJSONBatch of them (two blanks before a record, comma-newline between the records of one batch,
    nothing for an empty batch).  If every record is a serialised JSON object (executable recogniser
    [json_object] of Json.v) then, for EVERY arrival permutation, the sink receives exactly
    open-bracket, the indented records of all batches in order separated by comma-newline, close-bracket,
    then one Close; that text is ONE grammatical JSON text ([json_text], RFC 8259 automaton) and it is an
    array whose elements are, in order, exactly the records ([json_array_objects]). *)
Theorem C04_json_is_array : forall (batches : list (list (list N))) arr,
  Forall (fun r => json_object r = true) (concat batches) ->
  Permutation arr (numbered (json_chunks batches)) ->
  json_writer arr = mkdev (json_records_expected (concat batches)) 1 /\
  json_text (got (json_writer arr)) = true /\
  json_array_objects (got (json_writer arr)) = Some (concat batches).
Proof. exact json_records_spec. Qed.
(** the two grammar facts on their own: a framed list of objects is a JSON text / an array of them *)
Theorem C04_framed_objects_are_json : forall rs, Forall (fun r => json_object r = true) rs ->
  json_text (json_records_expected rs) = true.
Proof. exact JsonProofs.array_text_valid. Qed.
Theorem C04_framed_objects_elements : forall rs, Forall (fun r => json_object r = true) rs ->
  json_array_objects (json_records_expected rs) = Some rs.
Proof. exact JsonProofs.array_text_elements. Qed.
(** a serialised object is recognised as exactly one value in every context (the recogniser is a
    pushdown automaton: what is below the top of its stack is never looked at) *)
Theorem C04_object_in_any_context : forall r sg, json_object r = true ->
  Json.run (MV, sg) r = Some (MAfter, sg) /\ Json.run (MVE, sg) r = Some (MAfter, sg).
Proof. exact JsonProofs.object_run. Qed.
(** FormatJSONBatch and the writer's separators compose: one separator between consecutive records,
    wherever the batch boundaries and the empty batches are *)
Theorem C04_json_batches_flatten : forall batches,
  join json_sep (filter nonempty (json_chunks batches)) = jjoin jsep (map indent (concat batches)).
Proof. exact join_filter_chunks. Qed.

(** CSV.  [hdr]: the fields of CSVHeader; [batches]: the fields of CSVRecord of every record of every
    batch; the chunks are FormatCVSBatch of them (encoding/csv line syntax, the header line inside the
    batch numbered 0).  For EVERY arrival permutation the sink receives the header line followed by
    one line per record in order (nothing at all when there is no batch), then one Close. *)
Theorem C04_csv_rows : forall hdr (batches : list (list (list field))) arr,
  Permutation arr (numbered (csv_record_chunks hdr batches)) ->
  csv_writer arr = mkdev (match batches with [] => [] | _ => csv_line hdr ++ concat (map csv_line (concat batches)) end) 1.
Proof. exact csv_records_spec. Qed.
(** ... and these lines are unambiguous: a reader of the same line syntax gets the header and the
    rows back, in order (rows with at least one field) *)
Theorem C04_csv_rows_decodable : forall hdr (batches : list (list (list field))) arr,
  batches <> [] -> hdr <> [] -> Forall (fun r => r <> []) (concat batches) ->
  Permutation arr (numbered (csv_record_chunks hdr batches)) ->
  csv_records (got (csv_writer arr)) = Some (hdr :: concat batches).
Proof. exact csv_rows_decodable. Qed.
Theorem C04_csv_lines_roundtrip : forall rows, Forall (fun r => r <> []) rows ->
  csv_records (concat (map csv_line rows)) = Some rows.
Proof. exact CsvProofs.csv_roundtrip. Qed.

(** completion order: an observer that has seen the END of the iterator returned by a (repaired)
    writer finds the sink closed and complete; the unrepaired closing script guarantees nothing
    (it ended the iterator BEFORE closing the chunk channel), and waiting for the writer before the
    channel is closed would block. *)
Theorem C04_iter_end_implies_sink_closed : forall l arr, Permutation arr (numbered l) ->
  at_iter_end (fastx_writer arr) closer = Some (mkdev (concat l) 1) /\
  at_iter_end (json_writer arr) closer = Some (mkdev (json_expected l) 1) /\
  at_iter_end (csv_writer arr) closer = Some (mkdev (concat l) 1).
Proof.
  exact (fun l arr P => conj (iter_end_implies_closed_fastx l arr P)
                       (conj (iter_end_implies_closed_json l arr P) (iter_end_implies_closed_fastx l arr P))).
Qed.
Theorem C04_iter_end_after_wait : forall pre s,
  match fold_left cstep (pre ++ [AWaitWriter; AIterClose]) (Some s) with
  | Some s' => seen s' = Some true | None => True end.
Proof. exact iter_end_after_wait. Qed.
Theorem C04_iter_end_orig_refuted : sees_closed closer_orig = Some false /\ forall d, at_iter_end d closer_orig = None.
Proof. exact (conj closer_orig_sees_open iter_end_orig_nothing). Qed.
Theorem C04_wait_before_channel_close_blocks : sees_closed [AWaitWriter; AChanClose; AIterClose] = None.
Proof. exact wait_before_close_blocks. Qed.

(** hypotheses are satisfiable by a non-identity arrival with an empty chunk, and the writers compute *)
Example C04_nonvacuous :
  let l := [[49%N]; []; [50%N; 51%N]] in
  let arr := [(2, [50%N; 51%N]); (1, []); (0, [49%N])] in
  Permutation arr (numbered l) /\
  got (json_writer arr) = [91; 10; 49; 44; 10; 50; 51; 10; 93; 10]%N /\
  got (fastx_writer arr) = [49; 50; 51]%N /\ closes (json_writer arr) = 1.
Proof.
  simpl. split; [|vm_compute; auto].
  change (numbered [[49%N]; []; [50%N; 51%N]]) with (rev [(2, [50%N; 51%N]); (1, @nil N); (0, [49%N])]).
  apply Permutation_rev.
Qed.

(** the record-level hypotheses are satisfiable: two batches of serialised objects (one nested, with
    an escaped quote), non-identity arrival; a CSV field that needs quotes *)
Example C04_records_nonvacuous :
  let r1 := [123; 34; 97; 34; 58; 123; 34; 98; 92; 34; 34; 58; 91; 49; 44; 50; 93; 125; 125]%N in   (* an object holding an object holding an array; one key has an escaped double quote *)
  let r2 := [123; 125]%N in
  let batches := [[r1]; []; [r2; r1]] in
  Forall (fun r => json_object r = true) (concat batches) /\
  json_array_objects (json_records_expected (concat batches)) = Some [r1; r2; r1] /\
  json_text [91; 49; 44; 93]%N = false /\
  csv_line [[97; 44; 98]; []; [32; 120]; [113; 34]]%N = [34; 97; 44; 98; 34; 44; 44; 34; 32; 120; 34; 44; 34; 113; 34; 34; 34; 10]%N.
Proof. cbv zeta. split; [repeat constructor|]. vm_compute. auto. Qed.

(** ================= round 3: the glue around the writers (Glue.v) *)

(** WriteSeqFileChunk(writer, toBeClosed) driven with ANY chunks: the bytes are the chunks in order for
    every arrival permutation; the sink is closed once iff toBeClosed *)
Theorem C04_chunk_writer_any_permutation : forall tbc l arr, Permutation arr (numbered l) ->
  chunk_writer tbc arr = mkdev (concat l) (if tbc then 1 else 0).
Proof. exact chunk_writer_spec. Qed.

(** the *ToFile entry points: whatever the file held before and whatever the arrival order, it holds
    afterwards exactly the framed batches in order - after its former content iff appending was asked *)
Theorem C04_file_truncated_or_appended : forall k app old header chunks order,
  Permutation order (seq 0 (length chunks)) ->
  file_writer k app old header chunks order = (if app then old else []) ++ expected_of k header chunks.
Proof. exact file_writer_spec. Qed.
Theorem C04_paired_files : forall k app old1 old2 header fwd rev order,
  length rev = length fwd -> Permutation order (seq 0 (length fwd)) ->
  paired_files k app old1 old2 header fwd rev order =
  ((if app then old1 else []) ++ expected_of k header fwd, (if app then old2 else []) ++ expected_of k header rev).
Proof. exact paired_files_spec. Qed.

(** FASTA / FASTQ over RECORDS: the chunk of a batch is the texts of its records that have a sequence
    (zero-length sequences are skipped), so for every batch partition and arrival order the output is
    the text of every record with a sequence, once, in order *)
Theorem C04_fastx_records : forall (batches : list (list (bool * chunk))) arr,
  Permutation arr (numbered (fastx_record_chunks batches)) ->
  fastx_writer arr = mkdev (concat (map snd (filter fst (concat batches)))) 1.
Proof. exact fastx_records_spec. Qed.

(** the universal writer decides its format from the first non-empty batch that ARRIVES; on a stream
    whose non-empty batches agree about qualities (q) the decision, hence the output, does not depend
    on the arrival order nor on which batches are empty: the FASTQ (q) / FASTA chunks in order, one Close *)
Theorem C04_universal_homogeneous : forall (q : bool) quals fa fq order,
  Forall (fun x => x = BEmpty \/ x = (if q then BQual else BNoQual)) quals ->
  length fa = length quals -> length fq = length quals ->
  (forall i, nth i quals BEmpty = BEmpty -> nth i fa [] = nth i fq []) ->
  Permutation order (seq 0 (length quals)) ->
  universal_writer quals fa fq order = mkdev (concat (if q then fq else fa)) 1.
Proof. exact universal_homogeneous. Qed.
(** ... in particular on a FASTQ stream holding zero-length reads (which carry no quality): a batch says
    FASTQ, or nothing when it has no read with a sequence; so the output is FASTQ for every arrival order.
    The unrepaired writer looked at the first record of the first batch to arrive, whatever its length:
    the same stream came out as FASTQ or as FASTA (qualities lost) depending on the arrival order. *)
Theorem C04_universal_fastq_stream : forall (batches : list (list (bool * bool))) fa fq order,
  Forall (Forall (fun r => fst r = true -> snd r = true)) batches ->
  length fa = length batches -> length fq = length batches ->
  (forall i, nth i (map bq_of batches) BEmpty = BEmpty -> nth i fa [] = nth i fq []) ->
  Permutation order (seq 0 (length batches)) ->
  universal_writer (map bq_of batches) fa fq order = mkdev (concat fq) 1.
Proof. exact universal_fastq_stream. Qed.
Theorem C04_universal_orig_first_record_refuted :
  let batches := [[(true, true)]; [(false, false); (true, true)]] in
  Forall (Forall (fun r => fst r = true -> snd r = true)) batches /\
  decide (map bq_of_orig batches) [0; 1] = true /\ decide (map bq_of_orig batches) [1; 0] = false /\
  decide (map bq_of batches) [0; 1] = true /\ decide (map bq_of batches) [1; 0] = true.
Proof. exact universal_orig_first_record_refuted. Qed.
(** no batch at all: the (repaired) universal writer still closes the output once; the unrepaired one
    left it open (0-byte compressed files) *)
Theorem C04_universal_no_batch_closes : forall quals fa fq, universal_writer quals fa fq [] = mkdev [] 1.
Proof. exact universal_no_batch. Qed.
Theorem C04_universal_orig_refuted : closes (universal_writer_orig [] [] [] []) = 0.
Proof. exact universal_orig_no_batch. Qed.

(** CSVHeader / CSVRecord under every column option: every row has exactly the columns of the header;
    hence for every arrival order the output decodes to the header followed by one row per record in
    order, all of the header's width *)
Theorem C04_csv_rectangular : forall o r, length (csv_record o r) = length (csv_header o).
Proof. exact csv_rectangular. Qed.
Theorem C04_csv_table : forall o (recs : list (list crec)) arr, recs <> [] -> csv_header o <> [] ->
  Permutation arr (numbered (csv_record_chunks (csv_header o) (map (map (csv_record o)) recs))) ->
  csv_records (got (csv_writer arr)) = Some (csv_header o :: map (csv_record o) (concat recs)) /\
  Forall (fun row => length row = length (csv_header o)) (map (csv_record o) (concat recs)).
Proof. exact csv_table. Qed.

(** obicsv --auto: the proposed columns are a function of batch 0 alone - not of the arrival order -,
    strictly increasing in byte order (so without duplicates), and exactly the keys of batch 0 *)
Theorem C04_auto_columns_arrival_independent : forall explicit (l : list (list field)) arr,
  Permutation arr (numbered l) ->
  auto_columns explicit arr = explicit ++ match l with b0 :: _ => sort_keys b0 | [] => [] end.
Proof. exact auto_columns_spec. Qed.
Theorem C04_auto_columns_sorted : forall l,
  StronglySorted flt (sort_keys l) /\ NoDup (sort_keys l) /\ forall k, In k (sort_keys l) <-> In k l.
Proof. intros l. split; [apply sort_keys_sorted|split; [apply sorted_nodup, sort_keys_sorted|intros k; apply sort_keys_In]]. Qed.

(** the hypotheses of round 3 are satisfiable and the definitions compute: a FASTQ stream with a leading
    empty batch arriving first; appending to a file; columns proposed from batch 0 arriving last *)
Example C04_glue_nonvacuous :
  let quals := [BEmpty; BQual; BQual] in
  let fq := [[]; [64; 97]; [64; 98]]%N in
  Permutation [0; 2; 1] (seq 0 (length quals)) /\
  universal_writer quals [] fq [0; 2; 1] = mkdev [64; 97; 64; 98]%N 1 /\
  file_writer KJson true [111]%N [] [[49]; []; [50]]%N [2; 1; 0] = [111; 91; 10; 49; 44; 10; 50; 10; 93; 10]%N /\
  file_writer KCsv false [111]%N [104; 10]%N [[49; 10]; [50; 10]]%N [1; 0] = [104; 10; 49; 10; 50; 10]%N /\
  auto_columns [[107]]%N [(1, [[122]]%N); (0, [[98]; [97; 98]; [97]; [98]]%N)] = [[107]; [97]; [97; 98]; [98]]%N /\
  csv_record (mkco true false true false [[107]]%N true true [78; 65]%N)
             (mkcr [120]%N [49]%N [49]%N true None [] [([107], [118])]%N [97]%N None) = [[120]; [49]; s_root; [118]; [97]; [78; 65]]%N.
Proof.
  cbv zeta. split; [|vm_compute; repeat split].
  cbn. apply perm_skip. apply perm_swap.
Qed.

Print Assumptions C04_writer_loop_any_permutation.
Print Assumptions C04_every_batch_once_in_order.
Print Assumptions C04_fastx_bytes.
Print Assumptions C04_json_valid.
Print Assumptions C04_json_join_length.
Print Assumptions C04_json_orig_refuted_drained_chunk.
Print Assumptions C04_json_orig_refuted_empty_batch.
Print Assumptions C04_csv_shape.
Print Assumptions C04_csv_no_batch.
Print Assumptions C04_json_is_array.
Print Assumptions C04_framed_objects_are_json.
Print Assumptions C04_framed_objects_elements.
Print Assumptions C04_object_in_any_context.
Print Assumptions C04_json_batches_flatten.
Print Assumptions C04_csv_rows.
Print Assumptions C04_csv_rows_decodable.
Print Assumptions C04_csv_lines_roundtrip.
Print Assumptions C04_iter_end_implies_sink_closed.
Print Assumptions C04_iter_end_after_wait.
Print Assumptions C04_iter_end_orig_refuted.
Print Assumptions C04_wait_before_channel_close_blocks.
Print Assumptions C04_chunk_writer_any_permutation.
Print Assumptions C04_file_truncated_or_appended.
Print Assumptions C04_paired_files.
Print Assumptions C04_universal_homogeneous.
Print Assumptions C04_universal_no_batch_closes.
Print Assumptions C04_universal_orig_refuted.
Print Assumptions C04_csv_rectangular.
Print Assumptions C04_csv_table.
Print Assumptions C04_auto_columns_arrival_independent.
Print Assumptions C04_auto_columns_sorted.
Print Assumptions C04_universal_fastq_stream.
Print Assumptions C04_universal_orig_first_record_refuted.
Print Assumptions C04_fastx_records.
