(** C04 — property theorems (statements only; every proof is [exact] of a lemma of Proofs.v).
    Writers emit every batch once, in order, as well-formed FASTA/FASTQ/JSON/CSV — for every list of
    chunks (empty chunks included) and EVERY arrival permutation of the numbered chunks. *)
From Coq Require Import List Arith NArith Bool Permutation.
From OBI.Common Require Import Reseq.
From OBI.C04 Require Import Model Proofs.
Import ListNotations.

(** the loop shared by the three writers = emit chunk 0, 1, ..., n-1 in this order, whatever [e] does *)
Theorem C04_writer_loop_any_permutation :
  forall (S : Type) (e : nat -> S -> chunk -> S) (s0 : S) (l : list chunk) (arr : list (nat * chunk)),
  Permutation arr (numbered l) -> wrun e e arr s0 = foldi e 0 l s0.
Proof. exact wrun_any_permutation. Qed.

(** every batch number is emitted exactly once, in increasing order *)
Theorem C04_every_batch_once_in_order : forall l arr, Permutation arr (numbered l) ->
  wrun emit_num emit_num arr [] = seq 0 (length l).
Proof. exact order_spec. Qed.

(** FASTA / FASTQ (WriteSeqFileChunk): the bytes are the concatenation of the chunks, then one Close *)
Theorem C04_fastx_bytes : forall l arr, Permutation arr (numbered l) ->
  fastx_writer arr = mkdev (concat l) 1.
Proof. exact fastx_spec. Qed.

(** JSON (repaired WriteJSON): "[\n" ++ join ",\n" (non-empty chunks) ++ "\n]\n", then one Close *)
Theorem C04_json_valid : forall l arr, Permutation arr (numbered l) ->
  json_writer arr = mkdev (json_open ++ join json_sep (filter nonempty l) ++ json_close) 1.
Proof. exact json_spec. Qed.
(** [join] puts exactly one separator between consecutive chunks and none elsewhere *)
Theorem C04_json_join_length : forall sep xs, xs <> [] ->
  length (join sep xs) + length sep = length (concat xs) + length xs * length sep.
Proof. exact join_length. Qed.

(** the unrepaired WriteJSON (json_writer_orig) violates it: a chunk drained from the buffer gets no
    separator (arrival 1,0); an empty batch gets one (sizes 1,0,1 in order) — both fail on the real
    unrepaired code as well (corpus of tools/props/c04.py) *)
Theorem C04_json_orig_refuted_drained_chunk :
  exists l arr, Permutation arr (numbered l) /\ got (json_writer_orig arr) <> json_expected l.
Proof. exact json_orig_refuted_drain. Qed.
Theorem C04_json_orig_refuted_empty_batch :
  exists l, got (json_writer_orig (numbered l)) <> json_expected l.
Proof. exact json_orig_refuted_empty. Qed.

(** CSV: at least one batch => the header (formatted into chunk 0) then the rows, then one Close *)
Theorem C04_csv_shape : forall header r rows arr,
  Permutation arr (numbered (csv_chunks header (r :: rows))) ->
  csv_writer arr = mkdev (header ++ concat (r :: rows)) 1.
Proof. exact csv_spec. Qed.
Theorem C04_csv_no_batch : forall header arr, Permutation arr (numbered (csv_chunks header [])) ->
  csv_writer arr = mkdev [] 1.
Proof. exact csv_empty_spec. Qed.

(** hypotheses are satisfiable by a non-identity arrival with an empty chunk, and the writers compute *)
Example C04_nonvacuous :
  let l := [[49%N]; []; [50%N; 51%N]] in
  let arr := [(2, [50%N; 51%N]); (1, []); (0, [49%N])] in
  Permutation arr (numbered l) /\
  got (json_writer arr) = [91; 10; 49; 44; 10; 50; 51; 10; 93; 10]%N /\
  got (fastx_writer arr) = [49; 50; 51]%N /\ closes (json_writer arr) = 1.
Proof.
  simpl. split; [|vm_compute; auto].
  change (numbered [[49%N]; []; [50%N; 51%N]]) with (rev [(2, [50%N; 51%N]); (1, @nil N); (0, [49%N])]).
  apply Permutation_rev.
Qed.

Print Assumptions C04_writer_loop_any_permutation.
Print Assumptions C04_every_batch_once_in_order.
Print Assumptions C04_fastx_bytes.
Print Assumptions C04_json_valid.
Print Assumptions C04_json_join_length.
Print Assumptions C04_json_orig_refuted_drained_chunk.
Print Assumptions C04_json_orig_refuted_empty_batch.
Print Assumptions C04_csv_shape.
Print Assumptions C04_csv_no_batch.
