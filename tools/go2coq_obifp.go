//go:build ignore

// go2coq_obifp — translator of pkg/obifp/{uint64,uint128,uint256}.go (CURRENT working tree) into Gallina.
//
//	go run tools/go2coq_obifp.go <repo> <out.v>
//
// Standard library only (go/parser + go/ast, no type checker: a small type inference of its own).
// Subset handled: methods on the three limb structs; uint64/uint/int/bool locals; struct literals;
// [N]uint64 arrays; if / tagless switch / for; := = op= ++ --; named results and bare return;
// math/bits primitives; log.Panicf (-> Panic); log.Warnf (ignored: no effect on the value).
// Everything else is reported as `UNTRANSLATED <func>: <reason>` (stdout and a comment in the
// output) and the function is left out — never silently skipped.
//
// Shape of the output (see the header written into the file): limbs are Z; every wrapping
// operation has its wrap written out; functions that can panic / need fuel return `res T`;
// loops are fuelled fixpoints `<fn>_loop<k>`.
package main

import (
	"bytes"
	"fmt"
	"go/ast"
	"go/parser"
	"go/token"
	"os"
	"path/filepath"
	"sort"
	"strconv"
	"strings"
)

// ---------------------------------------------------------------- types

type Ty struct {
	K     string // u64 int bool struct arr tuple untyped
	Name  string
	N     int
	Elems []*Ty
}

var (
	tU64     = &Ty{K: "u64"}
	tInt     = &Ty{K: "int"}
	tBool    = &Ty{K: "bool"}
	tUntyped = &Ty{K: "untyped"}
)

func (t *Ty) coq() string {
	switch t.K {
	case "u64", "int", "untyped":
		return "Z"
	case "bool":
		return "bool"
	case "struct":
		if s, ok := structs[t.Name]; ok && s.erased {
			return "Z"
		}
		return structs[t.Name].coqType
	case "arr":
		return "list Z"
	case "tuple":
		p := []string{}
		for _, e := range t.Elems {
			p = append(p, e.coq())
		}
		return "(" + strings.Join(p, " * ") + ")"
	}
	return "?"
}

func (t *Ty) isNum() bool { return t.K == "u64" || t.K == "int" || t.K == "untyped" }

type structInfo struct {
	fields  []string          // Go declaration order
	coqType string            // u128 / u256
	ctor    string            // mk128 / mk256
	ctorArg []string          // Go field names in constructor argument order
	proj    map[string]string // Go field -> Coq projection
	erased  bool              // single-limb struct represented by its limb
}

// the records of C20/Model.v
var structs = map[string]*structInfo{
	"Uint64":  {erased: true, ctorArg: []string{"w0"}},
	"Uint128": {coqType: "u128", ctor: "mk128", ctorArg: []string{"w1", "w0"}, proj: map[string]string{"w1": "h1", "w0": "h0"}},
	"Uint256": {coqType: "u256", ctor: "mk256", ctorArg: []string{"w3", "w2", "w1", "w0"}, proj: map[string]string{"w3": "q3", "w2": "q2", "w1": "q1", "w0": "q0"}},
}

// loop fuel: enough for every input (this is PROVED in GenProps.v: the equalities are with `Ok (model ...)`
// or with the model function whose own fuel is proved sufficient); constant-bound counting loops get bound+1.
var fuelTable = map[string]int{
	"Uint256.LeftShift#1":  8,
	"Uint256.RightShift#1": 8,
	"Uint256.Div#1":        257,
	"Uint256.Div#2":        257,
}

const defaultFuel = 1024

var reserved = map[string]bool{"q0": true, "q1": true, "q2": true, "q3": true, "h0": true, "h1": true, "W": true, "fuel": true,
	"fix": true, "fun": true, "if": true, "then": true, "else": true, "let": true, "in": true, "match": true, "with": true,
	"end": true, "return": true, "as": true, "at": true, "forall": true, "exists": true, "Type": true, "Prop": true, "Set": true,
	"cofix": true, "using": true, "where": true, "for": true, "bind": true, "res": true, "Ok": true, "Panic": true, "S": true, "O": true,
	"add64": true, "sub64": true, "mul64": true, "div64": true, "nat": true, "Z": true, "bool": true, "true": true, "false": true,
	"aget": true, "aset": true, "wrapi": true, "list": true, "tt": true}

func cname(s string) string {
	if reserved[s] {
		return s + "_"
	}
	return s
}

// ---------------------------------------------------------------- functions

type Var struct {
	Name string
	Ty   *Ty
}

type Fn struct {
	key     string // Uint128.Add
	recv    string
	name    string
	decl    *ast.FuncDecl
	recvVar string
	params  []Var
	results []Var
	named   bool
	retTy   *Ty
	state   int // 0 new, 1 in progress, 2 done, 3 failed
	res     bool
	text    string // emitted definitions (loops + the function)
	loopNames []string
	sigNames []string // Coq parameter names
	err     string
}

func (f *Fn) coqName() string {
	if f.recv == "" {
		return "T_fn_" + f.name
	}
	return "T_" + f.recv + "_" + f.name
}

var fns = map[string]*Fn{}
var fnOrder []string
var emitted []string // keys in emission order
var fset = token.NewFileSet()

type untranslated struct{ msg string }

func fail(format string, a ...interface{}) { panic(untranslated{fmt.Sprintf(format, a...)}) }

func goType(e ast.Expr) *Ty {
	switch t := e.(type) {
	case *ast.Ident:
		switch t.Name {
		case "uint64", "uint":
			return tU64
		case "int":
			return tInt
		case "bool":
			return tBool
		}
		if _, ok := structs[t.Name]; ok {
			return &Ty{K: "struct", Name: t.Name}
		}
		fail("type %s outside the subset", t.Name)
	case *ast.ArrayType:
		if t.Len == nil {
			fail("slices are outside the subset")
		}
		n := constInt(t.Len)
		el := goType(t.Elt)
		if el.K != "u64" {
			fail("only arrays of uint64 are in the subset")
		}
		return &Ty{K: "arr", N: n}
	}
	fail("type expression %T outside the subset", e)
	return nil
}

func constInt(e ast.Expr) int {
	if b, ok := e.(*ast.BasicLit); ok && b.Kind == token.INT {
		v, err := strconv.ParseInt(b.Value, 0, 64)
		if err == nil {
			return int(v)
		}
	}
	fail("constant integer expected")
	return 0
}

// ---------------------------------------------------------------- translation context

type scope struct {
	vars  map[string]*Ty
	order []string
}

type ctx struct {
	fn      *Fn
	res     bool // monadic mode
	effect  bool // a Panic / bind / loop was produced
	scopes  []*scope
	inLoop  int
	nloop   int
	ntmp    int
	loops   []string // emitted loop fixpoints
	loopNames []string
	retLoop func() string
	contK   func() string // what `continue` does in the innermost loop
	breakK  func() string // what `break` does in the innermost loop
	brk     []string      // stack of breakable statements: "loop" / "switch"
	nrange  int
}

func (c *ctx) push()       { c.scopes = append(c.scopes, &scope{vars: map[string]*Ty{}}) }
func (c *ctx) pop() *scope { s := c.scopes[len(c.scopes)-1]; c.scopes = c.scopes[:len(c.scopes)-1]; return s }
func (c *ctx) lookup(n string) (*Ty, int) {
	for i := len(c.scopes) - 1; i >= 0; i-- {
		if t, ok := c.scopes[i].vars[n]; ok {
			return t, i
		}
	}
	return nil, -1
}
func (c *ctx) declare(n string, t *Ty) {
	if n == "_" {
		return
	}
	if _, d := c.lookup(n); d >= 0 && d != len(c.scopes)-1 {
		fail("declaration of %s shadows an outer variable (outside the subset)", n)
	}
	s := c.scopes[len(c.scopes)-1]
	if _, ok := s.vars[n]; !ok {
		s.order = append(s.order, n)
	}
	s.vars[n] = t
}
func (c *ctx) allVars() []Var {
	r := []Var{}
	for _, s := range c.scopes {
		for _, n := range s.order {
			r = append(r, Var{n, s.vars[n]})
		}
	}
	return r
}
func (c *ctx) tmp() string { c.ntmp++; return fmt.Sprintf("t%d_", c.ntmp) }

func (c *ctx) ok(v string) string {
	if c.res {
		return "Ok " + paren(v)
	}
	return v
}
func (c *ctx) panic_() string {
	c.effect = true
	if !c.res {
		fail("internal: effect in pure mode")
	}
	return "Panic"
}

// bind a res-valued computation to a pattern
func (c *ctx) bind(m string, pat string, body string) string {
	c.effect = true
	if !c.res {
		fail("internal: effect in pure mode")
	}
	return "bind (" + m + ") (fun " + pat + " =>\n" + body + ")"
}

func paren(s string) string {
	if isAtom(s) {
		return s
	}
	return "(" + s + ")"
}

func isAtom(s string) bool {
	if s == "" {
		return true
	}
	if s[0] == '(' && matching(s) == len(s)-1 {
		return true
	}
	if s[0] == '[' {
		return true
	}
	for _, r := range s {
		if !(r == '_' || r == '\'' || r >= '0' && r <= '9' || r >= 'a' && r <= 'z' || r >= 'A' && r <= 'Z') {
			return false
		}
	}
	return true
}

func matching(s string) int {
	d := 0
	for i, r := range s {
		if r == '(' {
			d++
		} else if r == ')' {
			d--
			if d == 0 {
				return i
			}
		}
	}
	return -1
}

func zero(t *Ty) string {
	switch t.K {
	case "u64", "int", "untyped":
		return "0"
	case "bool":
		return "false"
	case "struct":
		s := structs[t.Name]
		if s.erased {
			return "0"
		}
		return "(" + s.ctor + strings.Repeat(" 0", len(s.ctorArg)) + ")"
	case "arr":
		z := make([]string, t.N)
		for i := range z {
			z[i] = "0"
		}
		return "[" + strings.Join(z, "; ") + "]"
	}
	fail("no zero value for %s", t.K)
	return ""
}

func pat(names []string) string {
	if len(names) == 0 {
		return "_"
	}
	if len(names) == 1 {
		return names[0]
	}
	return "'(" + strings.Join(names, ", ") + ")"
}

func tuple(vals []string) string {
	if len(vals) == 0 {
		return "tt"
	}
	if len(vals) == 1 {
		return vals[0]
	}
	return "(" + strings.Join(vals, ", ") + ")"
}

// ---------------------------------------------------------------- expressions (CPS: k receives a pure Gallina term)

type K func(s string, t *Ty) string

func (c *ctx) exprs(es []ast.Expr, k func(ss []string, ts []*Ty) string) string {
	ss := []string{}
	ts := []*Ty{}
	var rec func(i int) string
	rec = func(i int) string {
		if i == len(es) {
			return k(ss, ts)
		}
		return c.expr(es[i], func(s string, t *Ty) string {
			ss = append(ss[:i:i], s)
			ts = append(ts[:i:i], t)
			return rec(i + 1)
		})
	}
	return rec(0)
}

const pureMark = "\x00PURE\x00"

// tryPure translates e; ok if no bind was needed
func (c *ctx) tryPure(e ast.Expr) (string, *Ty, bool) {
	var ps string
	var pt *Ty
	saveEff, saveTmp := c.effect, c.ntmp
	r := c.expr(e, func(s string, t *Ty) string { ps, pt = s, t; return pureMark })
	if r == pureMark {
		return ps, pt, true
	}
	c.effect, c.ntmp = saveEff, saveTmp
	return "", nil, false
}

func joinNum(a, b *Ty, what string) *Ty {
	if a.K == "untyped" {
		return b
	}
	if b.K == "untyped" || a.K == b.K {
		return a
	}
	fail("mixed operand types %s/%s in %s", a.K, b.K, what)
	return nil
}

func wrap(t *Ty, s string) string {
	switch t.K {
	case "u64":
		return "(" + s + ") mod W"
	case "int":
		return "wrapi (" + s + ")"
	}
	return s // untyped constant arithmetic: exact
}

func (c *ctx) binop(op token.Token, xs string, xt *Ty, ys string, yt *Ty) (string, *Ty) {
	switch op {
	case token.ADD, token.SUB, token.MUL:
		t := joinNum(xt, yt, op.String())
		o := map[token.Token]string{token.ADD: "+", token.SUB: "-", token.MUL: "*"}[op]
		return wrap(t, paren(xs)+" "+o+" "+paren(ys)), t
	case token.QUO, token.REM:
		t := joinNum(xt, yt, op.String())
		d, err := strconv.ParseUint(ys, 10, 64)
		if err != nil || d == 0 {
			fail("division by a non-constant or zero divisor outside the subset")
		}
		if t.K == "int" {
			// Go truncates toward zero
			if op == token.QUO {
				return "Z.quot " + paren(xs) + " " + ys, t
			}
			return "Z.rem " + paren(xs) + " " + ys, t
		}
		if op == token.QUO {
			return paren(xs) + " / " + ys, t
		}
		return paren(xs) + " mod " + ys, t
	case token.SHL, token.SHR:
		t := xt
		if t.K == "untyped" {
			t = tU64 // untyped constant in a non-constant shift takes the type of its context: uint64 in this package
		}
		if t.K != "u64" {
			fail("shift of a %s value outside the subset", t.K)
		}
		f := "shl64"
		if op == token.SHR {
			f = "shr64"
		}
		return f + " " + paren(xs) + " " + paren(ys), t
	case token.AND, token.OR, token.XOR, token.AND_NOT:
		t := joinNum(xt, yt, op.String())
		if t.K == "int" {
			fail("bitwise operation on int outside the subset")
		}
		switch op {
		case token.AND:
			return "Z.land " + paren(xs) + " " + paren(ys), t
		case token.OR:
			return "Z.lor " + paren(xs) + " " + paren(ys), t
		case token.XOR:
			return "Z.lxor " + paren(xs) + " " + paren(ys), t
		default:
			return "Z.land " + paren(xs) + " (not64 " + paren(ys) + ")", t
		}
	case token.EQL, token.NEQ:
		var s string
		if xt.K == "struct" && yt.K == "struct" && xt.Name == yt.Name {
			si := structs[xt.Name]
			if si.erased {
				s = paren(xs) + " =? " + paren(ys)
			} else {
				parts := []string{}
				for _, f := range si.ctorArg {
					parts = append(parts, "("+si.proj[f]+" "+paren(xs)+" =? "+si.proj[f]+" "+paren(ys)+")")
				}
				s = strings.Join(parts, " && ")
			}
		} else if xt.isNum() && yt.isNum() {
			joinNum(xt, yt, "==")
			s = paren(xs) + " =? " + paren(ys)
		} else if xt.K == "bool" && yt.K == "bool" {
			s = "Bool.eqb " + paren(xs) + " " + paren(ys)
		} else {
			fail("comparison of %s with %s outside the subset", xt.K, yt.K)
		}
		if op == token.NEQ {
			s = "negb (" + s + ")"
		}
		return s, tBool
	case token.LSS, token.GTR, token.LEQ, token.GEQ:
		joinNum(xt, yt, op.String())
		switch op {
		case token.LSS:
			return paren(xs) + " <? " + paren(ys), tBool
		case token.GTR:
			return paren(ys) + " <? " + paren(xs), tBool
		case token.LEQ:
			return paren(xs) + " <=? " + paren(ys), tBool
		default:
			return paren(ys) + " <=? " + paren(xs), tBool
		}
	}
	fail("operator %s outside the subset", op)
	return "", nil
}

func (c *ctx) expr(e ast.Expr, k K) string {
	switch x := e.(type) {
	case *ast.ParenExpr:
		return c.expr(x.X, k)
	case *ast.BasicLit:
		if x.Kind != token.INT {
			fail("literal %s outside the subset", x.Value)
		}
		v, err := strconv.ParseUint(x.Value, 0, 64)
		if err != nil {
			fail("integer literal %s", x.Value)
		}
		return k(strconv.FormatUint(v, 10), tUntyped)
	case *ast.Ident:
		switch x.Name {
		case "true", "false":
			return k(x.Name, tBool)
		}
		t, _ := c.lookup(x.Name)
		if t == nil {
			fail("unknown identifier %s", x.Name)
		}
		return k(cname(x.Name), t)
	case *ast.SelectorExpr:
		if id, ok := x.X.(*ast.Ident); ok && id.Name == "math" {
			if x.Sel.Name == "MaxUint64" {
				return k("18446744073709551615", tUntyped)
			}
			fail("math.%s outside the subset", x.Sel.Name)
		}
		return c.expr(x.X, func(s string, t *Ty) string {
			if t.K != "struct" {
				fail("field selection on %s", t.K)
			}
			si := structs[t.Name]
			if !contains(si.ctorArg, x.Sel.Name) {
				fail("unknown field %s.%s", t.Name, x.Sel.Name)
			}
			if si.erased {
				return k(s, tU64)
			}
			return k(si.proj[x.Sel.Name]+" "+paren(s), tU64)
		})
	case *ast.CompositeLit:
		t := goType(x.Type)
		if t.K == "arr" {
			if len(x.Elts) != t.N {
				fail("array literal with %d of %d elements", len(x.Elts), t.N)
			}
			return c.exprs(x.Elts, func(ss []string, ts []*Ty) string {
				return k("["+strings.Join(ss, "; ")+"]", t)
			})
		}
		if t.K != "struct" {
			fail("composite literal of %s", t.K)
		}
		si := structs[t.Name]
		goFields := fns_structFields[t.Name]
		vals := map[string]ast.Expr{}
		for i, el := range x.Elts {
			if kv, ok := el.(*ast.KeyValueExpr); ok {
				vals[kv.Key.(*ast.Ident).Name] = kv.Value
			} else {
				if len(x.Elts) != len(goFields) {
					fail("positional literal of %s with %d values", t.Name, len(x.Elts))
				}
				vals[goFields[i]] = el
			}
		}
		for f := range vals {
			if !contains(si.ctorArg, f) {
				fail("unknown field %s in literal of %s", f, t.Name)
			}
		}
		// Go evaluates the elements in source order; all operands here are pure or panic-only, order is irrelevant to the value
		es := []ast.Expr{}
		idx := []int{}
		for i, f := range si.ctorArg {
			if v, ok := vals[f]; ok {
				es = append(es, v)
				idx = append(idx, i)
			}
		}
		return c.exprs(es, func(ss []string, ts []*Ty) string {
			args := make([]string, len(si.ctorArg))
			for i := range args {
				args[i] = "0"
			}
			for j, i := range idx {
				if !ts[j].isNum() || ts[j].K == "int" {
					fail("field of %s initialised with a %s", t.Name, ts[j].K)
				}
				args[i] = paren(ss[j])
			}
			if si.erased {
				return k(args[0], t)
			}
			return k(si.ctor+" "+strings.Join(args, " "), t)
		})
	case *ast.UnaryExpr:
		return c.expr(x.X, func(s string, t *Ty) string {
			switch x.Op {
			case token.NOT:
				return k("negb "+paren(s), tBool)
			case token.XOR:
				if t.K == "int" {
					fail("^ on int outside the subset")
				}
				return k("not64 "+paren(s), tU64)
			case token.SUB:
				if t.K == "untyped" {
					return k("(-"+paren(s)+")", t)
				}
				return k(wrap(t, "0 - "+paren(s)), t)
			}
			fail("unary %s outside the subset", x.Op)
			return ""
		})
	case *ast.BinaryExpr:
		if x.Op == token.LAND || x.Op == token.LOR {
			return c.expr(x.X, func(xs string, xt *Ty) string {
				if ys, _, ok := c.tryPure(x.Y); ok {
					if x.Op == token.LAND {
						return k(paren(xs)+" && "+paren(ys), tBool)
					}
					return k(paren(xs)+" || "+paren(ys), tBool)
				}
				// short circuit around an operand that can panic
				my := c.expr(x.Y, func(s string, t *Ty) string { return "Ok " + paren(s) })
				t := c.tmp()
				var m string
				if x.Op == token.LAND {
					m = "if " + xs + " then " + my + " else Ok false"
				} else {
					m = "if " + xs + " then Ok true else " + my
				}
				return c.bind(m, t, k(t, tBool))
			})
		}
		return c.expr(x.X, func(xs string, xt *Ty) string {
			return c.expr(x.Y, func(ys string, yt *Ty) string {
				s, t := c.binop(x.Op, xs, xt, ys, yt)
				return k(s, t)
			})
		})
	case *ast.IndexExpr:
		return c.expr(x.X, func(as string, at *Ty) string {
			if at.K != "arr" {
				fail("indexing a %s", at.K)
			}
			return c.expr(x.Index, func(is string, it *Ty) string {
				t := c.tmp()
				return c.bind("aget "+paren(as)+" "+paren(is), t, k(t, tU64))
			})
		})
	case *ast.CallExpr:
		return c.call(x, k)
	}
	fail("expression %T outside the subset", e)
	return ""
}

func contains(l []string, s string) bool {
	for _, x := range l {
		if x == s {
			return true
		}
	}
	return false
}

var fns_structFields = map[string][]string{}

func (c *ctx) call(x *ast.CallExpr, k K) string {
	// conversions
	if id, ok := x.Fun.(*ast.Ident); ok {
		switch id.Name {
		case "uint", "uint64":
			return c.expr(x.Args[0], func(s string, t *Ty) string {
				switch t.K {
				case "u64", "untyped":
					return k(s, tU64)
				case "int":
					return k("("+paren(s)+") mod W", tU64)
				}
				fail("conversion of %s to %s", t.K, id.Name)
				return ""
			})
		case "int":
			return c.expr(x.Args[0], func(s string, t *Ty) string {
				switch t.K {
				case "int", "untyped":
					return k(s, tInt)
				case "u64":
					return k("wrapi "+paren(s), tInt)
				}
				fail("conversion of %s to int", t.K)
				return ""
			})
		}
		// plain (non-method) function of the package
		if callee := fns["fn."+id.Name]; callee != nil {
			return c.apply(callee, "", x.Args, k)
		}
		fail("call of %s outside the subset", id.Name)
	}
	sel, ok := x.Fun.(*ast.SelectorExpr)
	if !ok {
		fail("call form outside the subset")
	}
	if id, ok := sel.X.(*ast.Ident); ok {
		if _, isVar := c.lookup(id.Name); isVar == -1 {
			switch id.Name + "." + sel.Sel.Name {
			case "bits.Add64", "bits.Sub64":
				return c.exprs(x.Args, func(ss []string, ts []*Ty) string {
					f := map[string]string{"Add64": "add64", "Sub64": "sub64"}[sel.Sel.Name]
					return k(f+" "+paren(ss[0])+" "+paren(ss[1])+" "+paren(ss[2]), &Ty{K: "tuple", Elems: []*Ty{tU64, tU64}})
				})
			case "bits.Mul64":
				return c.exprs(x.Args, func(ss []string, ts []*Ty) string {
					return k("mul64 "+paren(ss[0])+" "+paren(ss[1]), &Ty{K: "tuple", Elems: []*Ty{tU64, tU64}})
				})
			case "bits.Div64":
				return c.exprs(x.Args, func(ss []string, ts []*Ty) string {
					t := c.tmp()
					return c.bind("div64r "+paren(ss[0])+" "+paren(ss[1])+" "+paren(ss[2]), t, k(t, &Ty{K: "tuple", Elems: []*Ty{tU64, tU64}}))
				})
			case "bits.Len64":
				return c.exprs(x.Args, func(ss []string, ts []*Ty) string {
					return k("len64 "+paren(ss[0]), tInt)
				})
			case "bits.LeadingZeros64":
				return c.exprs(x.Args, func(ss []string, ts []*Ty) string {
					return k("lzcnt64 "+paren(ss[0]), tInt)
				})
			}
			fail("call of %s.%s outside the subset", id.Name, sel.Sel.Name)
		}
	}
	// method call
	return c.expr(sel.X, func(rs string, rt *Ty) string {
		if rt.K != "struct" {
			fail("method call on %s", rt.K)
		}
		callee := fns[rt.Name+"."+sel.Sel.Name]
		if callee == nil {
			fail("unknown method %s.%s", rt.Name, sel.Sel.Name)
		}
		return c.apply(callee, paren(rs), x.Args, k)
	})
}

// apply: call of a translated method (recv = receiver term) or plain function (recv = "")
func (c *ctx) apply(callee *Fn, recv string, args []ast.Expr, k K) string {
	translate(callee)
	if callee.state == 1 {
		fail("recursion through %s outside the subset", callee.key)
	}
	if callee.state != 2 {
		fail("calls %s, which is untranslated", callee.key)
	}
	if len(args) != len(callee.params) {
		fail("arity of %s", callee.key)
	}
	return c.exprs(args, func(ss []string, ts []*Ty) string {
		app := callee.coqName()
		if recv != "" {
			app += " " + recv
		}
		for i, s := range ss {
			w := callee.params[i].Ty
			if !(ts[i].K == w.K && ts[i].Name == w.Name || ts[i].K == "untyped" && w.isNum()) {
				fail("argument %d of %s: %s where %s is declared", i, callee.key, ts[i].K, w.K)
			}
			app += " " + paren(s)
		}
		if callee.res {
			t := c.tmp()
			return c.bind(app, t, k(t, callee.retTy))
		}
		return k(app, callee.retTy)
	})
}

// ---------------------------------------------------------------- statements (CPS: k = what follows)

func (c *ctx) ret(vals []string) string {
	if c.inLoop > 0 {
		// a loop that contains a return yields `inl <returned value>` / `inr <loop state>`
		return "Ok (inl " + paren(tuple(vals)) + ")"
	}
	return c.ok(tuple(vals))
}

func (c *ctx) block(stmts []ast.Stmt, k func() string) string {
	c.push()
	s := c.stmts(stmts, func() string {
		saved := c.pop()
		r := k()
		c.scopes = append(c.scopes, saved)
		return r
	})
	c.pop()
	return s
}

func (c *ctx) stmts(l []ast.Stmt, k func() string) string {
	if len(l) == 0 {
		return k()
	}
	return c.stmt(l[0], func() string { return c.stmts(l[1:], k) })
}

// assignTo produces `let <lhs> := v in` for one Go left-hand side
func (c *ctx) assignTo(lhs ast.Expr, define bool, v string, vt *Ty, k func() string) string {
	switch l := lhs.(type) {
	case *ast.Ident:
		if l.Name == "_" {
			return k()
		}
		t, _ := c.lookup(l.Name)
		if define && (t == nil || !c.inCurrent(l.Name)) {
			if vt.K == "untyped" {
				vt = tInt
			}
			c.declare(l.Name, vt)
		} else if t == nil {
			fail("assignment to unknown %s", l.Name)
		} else if !(t.K == vt.K || vt.K == "untyped" && t.isNum()) {
			fail("assignment of %s to %s %s", vt.K, t.K, l.Name)
		}
		return "let " + cname(l.Name) + " := " + v + " in\n" + k()
	case *ast.SelectorExpr:
		id, ok := l.X.(*ast.Ident)
		if !ok {
			fail("nested field assignment outside the subset")
		}
		t, _ := c.lookup(id.Name)
		if t == nil || t.K != "struct" {
			fail("field assignment on %s", id.Name)
		}
		si := structs[t.Name]
		if !contains(si.ctorArg, l.Sel.Name) {
			fail("unknown field %s", l.Sel.Name)
		}
		if si.erased {
			return "let " + cname(id.Name) + " := " + v + " in\n" + k()
		}
		args := []string{}
		for _, f := range si.ctorArg {
			if f == l.Sel.Name {
				args = append(args, paren(v))
			} else {
				args = append(args, "("+si.proj[f]+" "+cname(id.Name)+")")
			}
		}
		return "let " + cname(id.Name) + " := " + si.ctor + " " + strings.Join(args, " ") + " in\n" + k()
	case *ast.IndexExpr:
		id, ok := l.X.(*ast.Ident)
		if !ok {
			fail("nested index assignment outside the subset")
		}
		t, _ := c.lookup(id.Name)
		if t == nil || t.K != "arr" {
			fail("index assignment on %s", id.Name)
		}
		return c.expr(l.Index, func(is string, it *Ty) string {
			return c.bind("aset "+cname(id.Name)+" "+paren(is)+" "+paren(v), cname(id.Name), k())
		})
	}
	fail("assignment target %T outside the subset", lhs)
	return ""
}

func (c *ctx) inCurrent(n string) bool {
	_, ok := c.scopes[len(c.scopes)-1].vars[n]
	return ok
}

func (c *ctx) assign(lhs []ast.Expr, rhs []ast.Expr, define bool, k func() string) string {
	if len(rhs) == 1 && len(lhs) > 1 {
		return c.expr(rhs[0], func(s string, t *Ty) string {
			if t.K != "tuple" || len(t.Elems) != len(lhs) {
				fail("assignment count mismatch")
			}
			// simple identifiers are bound directly by the pattern, other targets through temporaries
			names := []string{}
			var post []func(func() string) string
			for i, l := range lhs {
				i, l := i, l
				if id, ok := l.(*ast.Ident); ok {
					if id.Name == "_" {
						names = append(names, "_")
						continue
					}
					tt, _ := c.lookup(id.Name)
					if define && (tt == nil || !c.inCurrent(id.Name)) {
						c.declare(id.Name, t.Elems[i])
					} else if tt == nil {
						fail("assignment to unknown %s", id.Name)
					} else if tt.K != t.Elems[i].K {
						fail("assignment of %s to %s %s", t.Elems[i].K, tt.K, id.Name)
					}
					names = append(names, cname(id.Name))
				} else {
					tn := c.tmp()
					names = append(names, tn)
					post = append(post, func(k2 func() string) string { return c.assignTo(l, false, tn, t.Elems[i], k2) })
				}
			}
			var rec func(i int) string
			rec = func(i int) string {
				if i == len(post) {
					return k()
				}
				return post[i](func() string { return rec(i + 1) })
			}
			return "let " + pat(names) + " := " + s + " in\n" + rec(0)
		})
	}
	if len(lhs) != len(rhs) {
		fail("assignment count mismatch")
	}
	if len(lhs) > 1 {
		// a, b := e1, e2: every right-hand side is evaluated before any assignment
		return c.exprs(rhs, func(ss []string, ts []*Ty) string {
			tn := make([]string, len(ss))
			out := ""
			for i, s := range ss {
				tn[i] = c.tmp()
				out += "let " + tn[i] + " := " + s + " in\n"
			}
			var rec func(i int) string
			rec = func(i int) string {
				if i == len(lhs) {
					return k()
				}
				return c.assignTo(lhs[i], define, tn[i], ts[i], func() string { return rec(i + 1) })
			}
			return out + rec(0)
		})
	}
	return c.expr(rhs[0], func(s string, t *Ty) string {
		return c.assignTo(lhs[0], define, s, t, k)
	})
}

func (c *ctx) cond(e ast.Expr, thenS func() string, elseS func() string) string {
	return c.expr(e, func(s string, t *Ty) string {
		if t.K != "bool" {
			fail("condition of type %s", t.K)
		}
		return "if " + s + "\nthen " + thenS() + "\nelse " + elseS()
	})
}

func (c *ctx) stmt(s ast.Stmt, k func() string) string {
	switch x := s.(type) {
	case *ast.EmptyStmt:
		return k()
	case *ast.BlockStmt:
		return c.block(x.List, k)
	case *ast.ReturnStmt:
		if len(x.Results) == 0 {
			if !c.fn.named && len(c.fn.results) > 0 {
				fail("bare return without named results")
			}
			vals := []string{}
			for _, r := range c.fn.results {
				vals = append(vals, cname(r.Name))
			}
			return c.ret(vals)
		}
		return c.exprs(x.Results, func(ss []string, ts []*Ty) string {
			if len(ss) == 1 && ts[0].K == "tuple" {
				if len(ts[0].Elems) != len(c.fn.results) {
					fail("return count mismatch")
				}
				return c.ret(ss)
			}
			if len(ss) != len(c.fn.results) {
				fail("return count mismatch")
			}
			for i, t := range ts {
				w := c.fn.results[i].Ty
				if !(t.K == w.K && t.Name == w.Name || t.K == "untyped" && w.isNum()) {
					fail("return of %s where %s is declared", t.K, w.K)
				}
			}
			return c.ret(ss)
		})
	case *ast.ExprStmt:
		if call, ok := x.X.(*ast.CallExpr); ok {
			if sel, ok := call.Fun.(*ast.SelectorExpr); ok {
				if id, ok := sel.X.(*ast.Ident); ok && id.Name == "log" {
					switch sel.Sel.Name {
					case "Panicf", "Panic", "Panicln":
						return c.panic_()
					case "Warnf", "Warn", "Debugf", "Infof":
						return k() // logging has no effect on the value
					}
					fail("log.%s outside the subset", sel.Sel.Name)
				}
			}
		}
		return c.expr(x.X, func(s string, t *Ty) string { return k() })
	case *ast.DeclStmt:
		gd, ok := x.Decl.(*ast.GenDecl)
		if !ok || gd.Tok != token.VAR {
			fail("declaration outside the subset")
		}
		var rec func(i int) string
		specs := gd.Specs
		rec = func(i int) string {
			if i == len(specs) {
				return k()
			}
			vs := specs[i].(*ast.ValueSpec)
			if vs.Type == nil {
				fail("var without type outside the subset")
			}
			t := goType(vs.Type)
			if len(vs.Values) == 0 {
				out := ""
				for _, n := range vs.Names {
					c.declare(n.Name, t)
					out += "let " + cname(n.Name) + " := " + zero(t) + " in\n"
				}
				return out + rec(i+1)
			}
			if len(vs.Values) != 1 || len(vs.Names) != 1 {
				fail("multi-value var outside the subset")
			}
			return c.expr(vs.Values[0], func(s string, st *Ty) string {
				if !(st.K == t.K && st.Name == t.Name || st.K == "untyped" && t.isNum()) {
					fail("var %s of type %s initialised with %s", vs.Names[0].Name, t.K, st.K)
				}
				c.declare(vs.Names[0].Name, t)
				return "let " + cname(vs.Names[0].Name) + " := " + s + " in\n" + rec(i+1)
			})
		}
		return rec(0)
	case *ast.AssignStmt:
		switch x.Tok {
		case token.DEFINE:
			return c.assign(x.Lhs, x.Rhs, true, k)
		case token.ASSIGN:
			return c.assign(x.Lhs, x.Rhs, false, k)
		}
		ops := map[token.Token]token.Token{token.ADD_ASSIGN: token.ADD, token.SUB_ASSIGN: token.SUB, token.MUL_ASSIGN: token.MUL,
			token.SHL_ASSIGN: token.SHL, token.SHR_ASSIGN: token.SHR, token.AND_ASSIGN: token.AND, token.OR_ASSIGN: token.OR,
			token.XOR_ASSIGN: token.XOR, token.AND_NOT_ASSIGN: token.AND_NOT}
		op, ok := ops[x.Tok]
		if !ok || len(x.Lhs) != 1 || len(x.Rhs) != 1 {
			fail("assignment operator %s outside the subset", x.Tok)
		}
		return c.expr(x.Lhs[0], func(ls string, lt *Ty) string {
			return c.expr(x.Rhs[0], func(rs string, rt *Ty) string {
				v, vt := c.binop(op, ls, lt, rs, rt)
				return c.assignTo(x.Lhs[0], false, v, vt, k)
			})
		})
	case *ast.IncDecStmt:
		op := token.ADD
		if x.Tok == token.DEC {
			op = token.SUB
		}
		return c.expr(x.X, func(ls string, lt *Ty) string {
			v, vt := c.binop(op, ls, lt, "1", tUntyped)
			return c.assignTo(x.X, false, v, vt, k)
		})
	case *ast.IfStmt:
		c.push()
		r := c.stmtOpt(x.Init, func() string {
			return c.cond(x.Cond,
				func() string { return c.block(x.Body.List, c.outer(k)) },
				func() string {
					if x.Else == nil {
						return c.outer(k)()
					}
					return c.stmt(x.Else, c.outer(k))
				})
		})
		c.pop()
		return r
	case *ast.SwitchStmt:
		if x.Tag != nil || x.Init != nil {
			fail("switch with a tag/init outside the subset")
		}
		var def *ast.CaseClause
		cases := []*ast.CaseClause{}
		for _, cl := range x.Body.List {
			cc := cl.(*ast.CaseClause)
			for _, st := range cc.Body {
				if b, ok := st.(*ast.BranchStmt); ok {
					fail("%s in switch outside the subset", b.Tok)
				}
			}
			if cc.List == nil {
				def = cc
			} else {
				if len(cc.List) != 1 {
					fail("case with several expressions outside the subset")
				}
				cases = append(cases, cc)
			}
		}
		var rec func(i int) string
		rec = func(i int) string {
			if i == len(cases) {
				if def != nil {
					return c.block(def.Body, k)
				}
				return k()
			}
			return c.cond(cases[i].List[0],
				func() string { return c.block(cases[i].Body, k) },
				func() string { return rec(i + 1) })
		}
		k0 := k
		k = func() string { // the code after the switch is not inside it
			saved := c.brk
			c.brk = c.brk[:len(c.brk)-1]
			r := k0()
			c.brk = saved
			return r
		}
		c.brk = append(c.brk, "switch")
		r := rec(0)
		c.brk = c.brk[:len(c.brk)-1]
		return r
	case *ast.ForStmt:
		return c.forStmt(x, k)
	case *ast.RangeStmt:
		return c.rangeStmt(x, k)
	case *ast.BranchStmt:
		if x.Label != nil || c.inLoop == 0 {
			fail("%s outside the subset", x.Tok)
		}
		switch x.Tok {
		case token.CONTINUE:
			return c.contK()
		case token.BREAK:
			if len(c.brk) == 0 || c.brk[len(c.brk)-1] != "loop" {
				fail("break inside a switch outside the subset")
			}
			return c.breakK()
		}
		fail("%s outside the subset", x.Tok)
	}
	fail("statement %T outside the subset", s)
	return ""
}

// outer wraps k so that it runs with the scope pushed by an if-init popped
func (c *ctx) outer(k func() string) func() string {
	return func() string {
		saved := c.pop()
		r := k()
		c.scopes = append(c.scopes, saved)
		return r
	}
}

func (c *ctx) stmtOpt(s ast.Stmt, k func() string) string {
	if s == nil {
		return k()
	}
	return c.stmt(s, k)
}

func identOrder(nodes ...ast.Node) []string {
	seen := map[string]bool{}
	order := []string{}
	for _, n := range nodes {
		if n == nil || isNilNode(n) {
			continue
		}
		ast.Inspect(n, func(x ast.Node) bool {
			if id, ok := x.(*ast.Ident); ok && !seen[id.Name] {
				seen[id.Name] = true
				order = append(order, id.Name)
			}
			return true
		})
	}
	return order
}

func identsUsed(nodes ...ast.Node) map[string]bool {
	m := map[string]bool{}
	for _, n := range nodes {
		if n == nil || isNilNode(n) {
			continue
		}
		ast.Inspect(n, func(x ast.Node) bool {
			if id, ok := x.(*ast.Ident); ok {
				m[id.Name] = true
			}
			return true
		})
	}
	return m
}

func isNilNode(n ast.Node) bool {
	switch v := n.(type) {
	case ast.Stmt:
		return v == nil
	case ast.Expr:
		return v == nil
	}
	return false
}

func rootIdent(e ast.Expr) string {
	switch x := e.(type) {
	case *ast.Ident:
		return x.Name
	case *ast.SelectorExpr:
		return rootIdent(x.X)
	case *ast.IndexExpr:
		return rootIdent(x.X)
	case *ast.ParenExpr:
		return rootIdent(x.X)
	}
	return ""
}

func identsAssigned(nodes ...ast.Node) map[string]bool {
	m := map[string]bool{}
	for _, n := range nodes {
		if n == nil || isNilNode(n) {
			continue
		}
		ast.Inspect(n, func(x ast.Node) bool {
			switch s := x.(type) {
			case *ast.AssignStmt:
				for _, l := range s.Lhs {
					m[rootIdent(l)] = true
				}
			case *ast.IncDecStmt:
				m[rootIdent(s.X)] = true
			case *ast.RangeStmt:
				if s.Key != nil {
					m[rootIdent(s.Key)] = true
				}
				if s.Value != nil {
					m[rootIdent(s.Value)] = true
				}
			case *ast.BranchStmt:
				if s.Label != nil || (s.Tok != token.CONTINUE && s.Tok != token.BREAK) {
					fail("%s outside the subset", s.Tok)
				}
			}
			return true
		})
	}
	return m
}

func (c *ctx) forStmt(x *ast.ForStmt, k func() string) string {
	c.nloop++
	idx := c.nloop
	name := fmt.Sprintf("%s_loop%d", c.fn.coqName(), idx)
	c.effect = true
	if !c.res {
		fail("internal: loop in pure mode")
	}
	c.push() // scope of the init statement
	r := c.stmtOpt(x.Init, func() string {
		var post, cond ast.Node
		if x.Post != nil {
			post = x.Post
		}
		if x.Cond != nil {
			cond = x.Cond
		}
		// parameters of the loop fixpoint: the variables the loop mentions, in the order of their first occurrence in
		// (condition, body, post) — independent of the names and of the order of the declarations before the loop
		assigned := identsAssigned(x.Body, post)
		params := []Var{}
		state := []Var{}
		for _, n := range identOrder(cond, x.Body, post) {
			if t, d := c.lookup(n); d >= 0 {
				params = append(params, Var{n, t})
				if assigned[n] {
					state = append(state, Var{n, t})
				}
			}
		}
		pn, sn := []string{}, []string{}
		sig := ""
		for _, p := range params {
			pn = append(pn, cname(p.Name))
			sig += " (" + cname(p.Name) + " : " + p.Ty.coq() + ")"
		}
		st := []*Ty{}
		for _, s := range state {
			sn = append(sn, cname(s.Name))
			st = append(st, s.Ty)
		}
		stTy := "unit"
		if len(st) == 1 {
			stTy = st[0].coq()
		} else if len(st) > 1 {
			stTy = (&Ty{K: "tuple", Elems: st}).coq()
		}
		// fuel
		fuel, why := loopFuel(c.fn.key, idx, x)
		// a loop whose body contains a return yields inl <returned value> | inr <state>
		hasRet := containsReturn(x.Body)
		if hasRet {
			stTy = "(" + c.fn.retTy.coq() + " + " + stTy + ")"
		}
		// body of the fixpoint
		c.inLoop++
		again := func() string { return name + " fuel' " + strings.Join(pn, " ") }
		exit := "Ok " + paren(tuple(sn))
		if hasRet {
			exit = "Ok (inr " + paren(tuple(sn)) + ")"
		}
		saveC, saveB, saveBrk := c.contK, c.breakK, c.brk
		c.contK = func() string { return c.stmtOpt(x.Post, again) }
		c.breakK = func() string { return exit }
		c.brk = append(append([]string{}, c.brk...), "loop")
		body := func() string {
			return c.block(x.Body.List, func() string { return c.stmtOpt(x.Post, again) })
		}
		var fx string
		if x.Cond == nil {
			fx = body()
		} else {
			fx = c.cond(x.Cond, body, func() string { return exit })
		}
		c.contK, c.breakK, c.brk = saveC, saveB, saveBrk
		c.inLoop--
		line := fset.Position(x.Pos()).Line
		if !x.Pos().IsValid() && x.Body != nil {
			line = fset.Position(x.Body.Pos()).Line
		}
		def := fmt.Sprintf("(* %s: loop %d of %s (line %d); fuel used by the caller: %d (%s) *)\nFixpoint %s (fuel : nat)%s {struct fuel} : res %s :=\nmatch fuel with\n| O => OutOfFuel\n| S fuel' =>\n%s\nend.\n",
			name, idx, c.fn.key, line, fuel, why, name, sig, stTy, fx)
		c.loops = append(c.loops, def)
		c.loopNames = append(c.loopNames, name)
		call := fmt.Sprintf("%s %d%%nat %s", name, fuel, strings.Join(pn, " "))
		if hasRet {
			t := c.tmp()
			rv := c.tmp()
			c.effect = true
			return "bind (" + call + ") (fun " + t + " =>\nmatch " + t + " with\n| inl " + rv + " => " + c.retRaw(rv) + "\n| inr " + tuplePat(sn) + " =>\n" + c.outer(k)() + "\nend)"
		}
		return c.bind(call, pat(sn), c.outer(k)())
	})
	c.pop()
	return r
}

// retRaw: return of an already evaluated (tupled) value
func (c *ctx) retRaw(v string) string {
	if c.inLoop > 0 {
		return "Ok (inl " + v + ")"
	}
	return c.ok(v)
}

func tuplePat(names []string) string {
	if len(names) == 0 {
		return "_"
	}
	if len(names) == 1 {
		return names[0]
	}
	return "(" + strings.Join(names, ", ") + ")"
}

func containsReturn(n ast.Node) bool {
	found := false
	ast.Inspect(n, func(x ast.Node) bool {
		if _, ok := x.(*ast.ReturnStmt); ok {
			found = true
		}
		if _, ok := x.(*ast.FuncLit); ok {
			return false
		}
		return true
	})
	return found
}

// rangeStmt: `for i, w := range X` over an array of constant length N is the counting loop
// `{ r := X; for i := 0; i < N; i++ { w := r[i]; body } }` (Go evaluates X once and iterates over a copy)
func (c *ctx) rangeStmt(x *ast.RangeStmt, k func() string) string {
	if x.Tok != token.DEFINE {
		fail("range without := outside the subset")
	}
	xs, xt, ok := c.tryPure(x.X)
	_ = xs
	if !ok || xt.K != "arr" {
		fail("range over something else than an array value outside the subset")
	}
	c.nrange++
	arr := fmt.Sprintf("rng%d_", c.nrange)
	key := fmt.Sprintf("rki%d_", c.nrange)
	if id, ok := x.Key.(*ast.Ident); ok && id.Name != "_" {
		key = id.Name
	} else if x.Key != nil {
		if _, ok := x.Key.(*ast.Ident); !ok {
			fail("range key outside the subset")
		}
	}
	body := []ast.Stmt{}
	if x.Value != nil {
		vid, ok := x.Value.(*ast.Ident)
		if !ok {
			fail("range value outside the subset")
		}
		if vid.Name != "_" {
			body = append(body, &ast.AssignStmt{Lhs: []ast.Expr{ast.NewIdent(vid.Name)}, Tok: token.DEFINE,
				Rhs: []ast.Expr{&ast.IndexExpr{X: ast.NewIdent(arr), Index: ast.NewIdent(key)}}})
		}
	}
	body = append(body, x.Body.List...)
	loop := &ast.ForStmt{
		Init: &ast.AssignStmt{Lhs: []ast.Expr{ast.NewIdent(key)}, Tok: token.DEFINE, Rhs: []ast.Expr{&ast.BasicLit{Kind: token.INT, Value: "0"}}},
		Cond: &ast.BinaryExpr{X: ast.NewIdent(key), Op: token.LSS, Y: &ast.BasicLit{Kind: token.INT, Value: strconv.Itoa(xt.N)}},
		Post: &ast.IncDecStmt{X: ast.NewIdent(key), Tok: token.INC},
		Body: &ast.BlockStmt{Lbrace: x.Body.Lbrace, List: body},
	}
	blk := &ast.BlockStmt{List: []ast.Stmt{
		&ast.AssignStmt{Lhs: []ast.Expr{ast.NewIdent(arr)}, Tok: token.DEFINE, Rhs: []ast.Expr{x.X}},
		loop,
	}}
	return c.stmt(blk, k)
}

func loopFuel(key string, idx int, x *ast.ForStmt) (int, string) {
	if f, ok := fuelTable[fmt.Sprintf("%s#%d", key, idx)]; ok {
		return f, "translator table; sufficiency is proved in GenProps.v"
	}
	// for i := a; i < b; i++ with constant a, b and i not assigned in the body
	if as, ok := x.Init.(*ast.AssignStmt); ok && as.Tok == token.DEFINE && len(as.Lhs) == 1 {
		if id, ok := as.Lhs[0].(*ast.Ident); ok {
			if a, ok := as.Rhs[0].(*ast.BasicLit); ok {
				if be, ok := x.Cond.(*ast.BinaryExpr); ok && be.Op == token.LSS {
					if bi, ok := be.X.(*ast.Ident); ok && bi.Name == id.Name {
						if b, ok := be.Y.(*ast.BasicLit); ok {
							if inc, ok := x.Post.(*ast.IncDecStmt); ok && inc.Tok == token.INC && rootIdent(inc.X) == id.Name {
								assignedInBody := false
								func() {
									defer func() { recover() }()
									assignedInBody = identsAssigned(x.Body)[id.Name]
								}()
								if !assignedInBody {
									av, _ := strconv.Atoi(a.Value)
									bv, _ := strconv.Atoi(b.Value)
									if bv >= av {
										return bv - av + 1, "counting loop with constant bounds"
									}
								}
							}
						}
					}
				}
			}
		}
	}
	return defaultFuel, "default"
}

// ---------------------------------------------------------------- one function

func translate(f *Fn) {
	if f.state != 0 {
		return
	}
	f.state = 1
	run := func(res bool) (text string, c *ctx, err string) {
		defer func() {
			if r := recover(); r != nil {
				if u, ok := r.(untranslated); ok {
					err = u.msg
					return
				}
				panic(r)
			}
		}()
		c = &ctx{fn: f, res: res}
		c.push()
		sig := ""
		f.sigNames = nil
		if f.recv == "" {
			// plain function: no receiver
		} else if f.recvVar != "" {
			c.declare(f.recvVar, &Ty{K: "struct", Name: f.recv})
			sig += " (" + cname(f.recvVar) + " : " + (&Ty{K: "struct", Name: f.recv}).coq() + ")"
			f.sigNames = append(f.sigNames, cname(f.recvVar))
		} else {
			sig += " (recv_ : " + (&Ty{K: "struct", Name: f.recv}).coq() + ")"
			f.sigNames = append(f.sigNames, "recv_")
		}
		for _, p := range f.params {
			c.declare(p.Name, p.Ty)
			sig += " (" + cname(p.Name) + " : " + p.Ty.coq() + ")"
			f.sigNames = append(f.sigNames, cname(p.Name))
		}
		c.push()
		init := ""
		if f.named {
			for _, r := range f.results {
				c.declare(r.Name, r.Ty)
				init += "let " + cname(r.Name) + " := " + zero(r.Ty) + " in\n"
			}
		}
		body := c.stmts(f.decl.Body.List, func() string {
			fail("control reaches the end of the function without return")
			return ""
		})
		rt := f.retTy.coq()
		if res {
			rt = "res " + rt
		}
		text = strings.Join(c.loops, "\n")
		if len(c.loops) > 0 {
			text += "\n"
		}
		text += fmt.Sprintf("(* %s  (%s:%d) *)\nDefinition %s%s : %s :=\n%s%s.\n", f.key,
			filepath.Base(fset.Position(f.decl.Pos()).Filename), fset.Position(f.decl.Pos()).Line, f.coqName(), sig, rt, init, body)
		// uniform res-typed view R_<f> (Ok around the pure functions): statements on R_ survive a change of purity
		rname := "R" + strings.TrimPrefix(f.coqName(), "T")
		app := f.coqName() + " " + strings.Join(f.sigNames, " ")
		if !res {
			app = "Ok (" + strings.TrimSpace(app) + ")"
		}
		text += fmt.Sprintf("Definition %s%s : res %s := %s.\n", rname, sig, f.retTy.coq(), strings.TrimSpace(app))
		return
	}
	text, c, err := run(true)
	if err == "" && !c.effect {
		text, c, err = run(false)
		f.res = false
	} else {
		f.res = true
	}
	if err != "" {
		f.state = 3
		f.err = err
		return
	}
	f.text = text
	f.loopNames = c.loopNames
	f.state = 2
	emitted = append(emitted, f.key)
}

// ---------------------------------------------------------------- main

const header = `(** GENERATED by tools/go2coq_obifp.go from pkg/obifp/{uint64,uint128,uint256}.go of the CURRENT working tree.
    Do not edit: tools/props/c20.py regen() rewrites this file before every Coq build (write-if-changed);
    C20/GenProps.v proves every T_<Type>_<Method> below equal to the hand-written model function of C20/Model.v.

    Conventions of the translation
    - uint64 / uint / int values are Z; Uint64 is its limb; Uint128 / Uint256 are the records mk128 / mk256 of Model.v
      (w1,w0 = h1,h0; w3..w0 = q3..q0).  uint is taken to be 64 bits wide (amd64/arm64).
    - math/bits: Add64 Sub64 Mul64 LeadingZeros64 -> add64 sub64 mul64 lzcnt64; Div64 -> div64r (Panic where bits.Div64 panics).
    - every wrapping operation has its wrap written out: a+b -> (a + b) mod W on uint64, wrapi (...) on int; << >> -> shl64 shr64
      (0 for counts >= 64); ^x -> not64 x; a &^ b -> Z.land a (not64 b); uint(x) of an int -> x mod W.
    - a > b is written b <? a, a >= b is written b <=? a.
    - a function that can reach log.Panicf, bits.Div64, an array index or a loop returns [res T] (Ok / Panic / OutOfFuel) and is
      sequenced with [bind]; the others are pure.  log.Warnf is ignored (no effect on the value).
    - if / switch chains -> nested if; the statements after an if are duplicated in both branches (early returns).
    - assignments -> shadowing let; x.f = e -> record rebuilt; a[i] = e -> aset (Panic when out of range).
    - for loops -> fuelled fixpoints <fn>_loop<k> over the variables they use, returning the variables they assign;
      [for i, w := range A] over an array of constant length N -> [r := A; for i := 0; i < N; i++ { w := r[i]; ... }];
      continue -> the post statement and the next iteration; break -> the loop exit; a loop containing a return yields
      inl <returned value> | inr <state>.
    - plain functions f -> T_fn_f; bits.Len64 -> len64; x / c, x mod c for a non-zero constant c (Z.quot / Z.rem on int);
      int(x) -> wrapi x; a, b := e1, e2 -> both right-hand sides first.
    - R_<f> is T_<f> seen as a res-valued function (Ok around the pure ones): the theorems of GenProps.v that must survive
      a change of purity are stated on R_. *)
From Coq Require Import ZArith List Bool.
From OBI.C20 Require Import Model.
Import ListNotations.
Open Scope Z_scope.
Open Scope bool_scope.

Definition bind {A B : Type} (r : res A) (f : A -> res B) : res B :=
  match r with Ok a => f a | Panic => Panic | OutOfFuel => OutOfFuel end.
Definition div64r (hi lo y : Z) : res (Z * Z) :=
  match div64 hi lo y with Some p => Ok p | None => Panic end.
Definition wrapi (x : Z) : Z := (x + 2^63) mod W - 2^63.
Definition len64 (x : Z) : Z := 64 - lzcnt64 x.
Definition aget (a : list Z) (i : Z) : res Z :=
  if (0 <=? i) && (i <? Z.of_nat (length a)) then Ok (nth (Z.to_nat i) a 0) else Panic.
Fixpoint upd (a : list Z) (i : nat) (v : Z) : list Z :=
  match a, i with [], _ => [] | _ :: a', O => v :: a' | x :: a', S i' => x :: upd a' i' v end.
Definition aset (a : list Z) (i : Z) (v : Z) : res (list Z) :=
  if (0 <=? i) && (i <? Z.of_nat (length a)) then Ok (upd a (Z.to_nat i) v) else Panic.

`

func main() {
	if len(os.Args) < 3 {
		fmt.Fprintln(os.Stderr, "usage: go2coq_obifp <repo> <out.v>")
		os.Exit(2)
	}
	repo, out := os.Args[1], os.Args[2]
	files := []string{"uint64.go", "uint128.go", "uint256.go"}
	var report []string
	for _, fn := range files {
		p := filepath.Join(repo, "pkg", "obifp", fn)
		af, err := parser.ParseFile(fset, p, nil, 0)
		if err != nil {
			fmt.Println("UNTRANSLATED " + fn + ": parse error: " + err.Error())
			os.Exit(1)
		}
		for _, d := range af.Decls {
			switch x := d.(type) {
			case *ast.GenDecl:
				if x.Tok == token.TYPE {
					for _, sp := range x.Specs {
						ts := sp.(*ast.TypeSpec)
						st, ok := ts.Type.(*ast.StructType)
						if !ok {
							continue
						}
						fs := []string{}
						for _, f := range st.Fields.List {
							id, ok := f.Type.(*ast.Ident)
							if !ok || id.Name != "uint64" {
								report = append(report, fmt.Sprintf("UNTRANSLATED type %s: field of a type other than uint64", ts.Name.Name))
							}
							for _, n := range f.Names {
								fs = append(fs, n.Name)
							}
						}
						fns_structFields[ts.Name.Name] = fs
						if si, ok := structs[ts.Name.Name]; ok {
							a, b := append([]string{}, fs...), append([]string{}, si.ctorArg...)
							sort.Strings(a)
							sort.Strings(b)
							if strings.Join(a, ",") != strings.Join(b, ",") {
								report = append(report, fmt.Sprintf("UNTRANSLATED type %s: fields %v differ from the record of Model.v %v", ts.Name.Name, fs, si.ctorArg))
								delete(structs, ts.Name.Name)
							}
						}
					}
				}
			case *ast.FuncDecl:
				if x.Recv == nil {
					f := &Fn{key: "fn." + x.Name.Name, recv: "", name: x.Name.Name, decl: x}
					fns[f.key] = f
					fnOrder = append(fnOrder, f.key)
					continue
				}
				if len(x.Recv.List) != 1 {
					report = append(report, fmt.Sprintf("UNTRANSLATED %s: not a method", x.Name.Name))
					continue
				}
				rid, ok := x.Recv.List[0].Type.(*ast.Ident)
				if !ok {
					report = append(report, fmt.Sprintf("UNTRANSLATED %s: pointer receiver", x.Name.Name))
					continue
				}
				f := &Fn{key: rid.Name + "." + x.Name.Name, recv: rid.Name, name: x.Name.Name, decl: x}
				if len(x.Recv.List[0].Names) == 1 {
					f.recvVar = x.Recv.List[0].Names[0].Name
				}
				fns[f.key] = f
				fnOrder = append(fnOrder, f.key)
			}
		}
	}
	// signatures
	for _, key := range fnOrder {
		f := fns[key]
		func() {
			defer func() {
				if r := recover(); r != nil {
					if u, ok := r.(untranslated); ok {
						f.state, f.err = 3, u.msg
						return
					}
					panic(r)
				}
			}()
			if _, ok := structs[f.recv]; !ok && f.recv != "" {
				fail("receiver type %s outside the subset", f.recv)
			}
			if f.decl.Type.TypeParams != nil {
				fail("generic method")
			}
			for _, p := range f.decl.Type.Params.List {
				t := goType(p.Type)
				if len(p.Names) == 0 {
					fail("unnamed parameter")
				}
				for _, n := range p.Names {
					f.params = append(f.params, Var{n.Name, t})
				}
			}
			if f.decl.Type.Results == nil {
				fail("no result")
			}
			for _, p := range f.decl.Type.Results.List {
				t := goType(p.Type)
				if len(p.Names) == 0 {
					f.results = append(f.results, Var{"", t})
				}
				for _, n := range p.Names {
					f.named = true
					f.results = append(f.results, Var{n.Name, t})
				}
			}
			if len(f.results) == 1 {
				f.retTy = f.results[0].Ty
			} else {
				ts := []*Ty{}
				for _, r := range f.results {
					ts = append(ts, r.Ty)
				}
				f.retTy = &Ty{K: "tuple", Elems: ts}
			}
		}()
	}
	for _, key := range fnOrder {
		translate(fns[key])
	}
	var b bytes.Buffer
	b.WriteString(header)
	for _, key := range emitted {
		b.WriteString(fns[key].text)
		b.WriteString("\n")
	}
	for _, key := range fnOrder {
		if fns[key].state == 3 {
			report = append(report, fmt.Sprintf("UNTRANSLATED %s: %s", key, fns[key].err))
		}
	}
	// tactics naming everything defined above (used by the shape-independent proofs of C20/GenProofs.v)
	defs, loops := []string{}, []string{}
	for _, key := range emitted {
		f := fns[key]
		defs = append(defs, f.coqName(), "R"+strings.TrimPrefix(f.coqName(), "T"))
		loops = append(loops, f.loopNames...)
	}
	b.WriteString("Ltac T_unfold_all := cbv delta [" + strings.Join(defs, " ") + "].\n")
	b.WriteString("Ltac T_unfold_all_in H := cbv delta [" + strings.Join(defs, " ") + "] in H.\n")
	b.WriteString("Ltac T_loops_step := cbn [bind " + strings.Join(loops, " ") + "].\n\n")
	b.WriteString("(* translated: " + strings.Join(emitted, " ") + " *)\n")
	for _, r := range report {
		b.WriteString("(* " + strings.ReplaceAll(r, "*)", "* )") + " *)\n")
		fmt.Println(r)
	}
	fmt.Printf("TRANSLATED %d functions\n", len(emitted))
	old, err := os.ReadFile(out)
	if err == nil && bytes.Equal(old, b.Bytes()) {
		fmt.Println("UNCHANGED " + out)
		return
	}
	if err := os.MkdirAll(filepath.Dir(out), 0o755); err != nil {
		fmt.Fprintln(os.Stderr, err)
		os.Exit(1)
	}
	if err := os.WriteFile(out, b.Bytes(), 0o644); err != nil {
		fmt.Fprintln(os.Stderr, err)
		os.Exit(1)
	}
	fmt.Println("WROTE " + out)
}
