#!/usr/bin/env python3
"""anchor_coverage.py <PID> [tier]: development aid. Runs the check of one property with Go coverage instrumentation
(VERIF_COVER=1) and lists, for the files the property is anchored in, the functions and statement blocks that NO process
of the check executed: code that a change could break without the check noticing. Writes .build/cover/<PID>/report.txt.
Evidence and replays written by this run are those of a normal run of the check."""
import sys, os, json, subprocess, shutil, re, collections
VERIF = os.path.dirname(os.path.dirname(os.path.abspath(__file__)))
REPO = os.environ.get("VERIF_REPO", "/repo")
pid = sys.argv[1].upper()
tier = sys.argv[2] if len(sys.argv) > 2 else "quick"
cd = os.path.join(VERIF, ".build", "cover", pid)
shutil.rmtree(cd, ignore_errors=True)
os.makedirs(os.path.join(cd, "raw"))
wt = "/tmp/verif_cov_wt_" + pid
subprocess.run(["git", "-C", REPO, "worktree", "remove", "--force", wt], capture_output=True)
subprocess.run(["git", "-C", REPO, "worktree", "add", "--detach", wt, "HEAD"], capture_output=True, check=True)
env = dict(os.environ, VERIF_COVER="1", GOCOVERDIR=os.path.join(cd, "raw"), VERIF_REPO=wt)
p = subprocess.run(["python3", os.path.join(VERIF, "tools", "check.py"), pid, "--tier", tier], cwd=VERIF, env=env, capture_output=True, text=True)
print("check exit", p.returncode, [l for l in p.stdout.splitlines() if l.startswith("VIOLATION")][:3])
txt = os.path.join(cd, "cover.txt")
genv = dict(os.environ, GOFLAGS="", GOPROXY="off", GOSUMDB="off", GOTOOLCHAIN="local")
r = subprocess.run(["go", "tool", "covdata", "textfmt", "-i=" + os.path.join(cd, "raw"), "-o", txt], cwd=wt, env=genv, capture_output=True, text=True)
subprocess.run(["git", "-C", REPO, "worktree", "remove", "--force", wt], capture_output=True)
if r.returncode != 0:
    print("covdata failed:", r.stderr[-500:]); sys.exit(1)
shutil.rmtree(os.path.join(cd, "raw"), ignore_errors=True)
anchors = []
for l in open(os.path.join(VERIF, "properties.jsonl")):
    q = json.loads(l)
    if q["id"] == pid:
        anchors = q["anchors"]["files"]
MOD = "git.metabarcoding.org/obitools/obitools4/obitools4/"
blocks = collections.defaultdict(dict)          # file -> (l0,c0,l1,c1) -> (nstmt, count)
for l in open(txt):
    m = re.match(r"(.+?):(\d+)\.(\d+),(\d+)\.(\d+) (\d+) (\d+)$", l.strip())
    if not m:
        continue
    f = m.group(1).replace(MOD, "")
    k = tuple(int(x) for x in m.groups()[1:5])
    n, c = int(m.group(6)), int(m.group(7))
    old = blocks[f].get(k, (n, 0))
    blocks[f][k] = (n, old[1] + c)
rep = []
for a in anchors:
    files = [f for f in blocks if f == a or f.startswith(a.rstrip("/") + "/")]
    for f in sorted(files):
        if os.path.basename(f).startswith("verif") or "_verif" in f or f.endswith("_test.go"):
            continue
        bl = blocks[f]
        tot = sum(n for n, c in bl.values())
        cov = sum(n for n, c in bl.values() if c > 0)
        rep.append("== %s: %d/%d statements executed (%.0f%%)" % (f, cov, tot, 100.0 * cov / max(tot, 1)))
        src = open(os.path.join(REPO, f)).read().split("\n")
        # function of each line
        fn_at, cur = {}, None
        for i, line in enumerate(src, 1):
            m = re.match(r"func\s+(\([^)]*\)\s*)?(\w+)", line)
            if m:
                cur = m.group(2)
            fn_at[i] = cur
        unc = sorted(k for k, (n, c) in bl.items() if c == 0)
        byfn = collections.OrderedDict()
        for k in unc:
            byfn.setdefault(fn_at.get(k[0]), []).append(k)
        for fn, ks in byfn.items():
            fn_blocks = [k for k in bl if fn_at.get(k[0]) == fn]
            whole = all(bl[k][1] == 0 for k in fn_blocks)
            rep.append("   %s%s: lines %s" % (fn, "  [NEVER CALLED]" if whole else "", ", ".join("%d-%d" % (k[0], k[2]) if k[0] != k[2] else str(k[0]) for k in ks[:40])))
open(os.path.join(cd, "report.txt"), "w").write("\n".join(rep) + "\n")
os.remove(txt)
print("\n".join(rep))
