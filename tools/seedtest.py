#!/usr/bin/env python3
"""seedtest.py <seed out dir> <seed worktree> <PID> <name> : validate one seeded change and run the check against it.
1. worktree -> current main; demo must PASS without the patch, FAIL with it; pinned tests must pass with it;
2. run tools/check.py PID (quick) with VERIF_REPO=<worktree with patch>; 3. record everything in /verif/seeded/<name>/."""
import sys, os, json, subprocess, shutil, glob, re
out, wt, pid, name = sys.argv[1:5]
tier = sys.argv[5] if len(sys.argv) > 5 else "quick"
env = dict(os.environ, GOPROXY="off", GOSUMDB="off", GOTOOLCHAIN="local", CGO_CFLAGS="-w", GOFLAGS="")
def sh(cmd, cwd=None, timeout=1800, e=env):
    try:
        p = subprocess.run(cmd, shell=True, cwd=cwd, env=e, capture_output=True, text=True, timeout=timeout)
        return p.returncode, (p.stdout + p.stderr)
    except subprocess.TimeoutExpired as ex:
        return 124, "TIMEOUT"
meta = json.load(open(os.path.join(out, "meta.json")))
res = dict(name=name, property=pid, title=meta.get("title"), needs=meta.get("needs_to_manifest"))
sh("git checkout -q --detach main && git checkout -- . && git clean -fdq", cwd=wt)
demo = meta.get("demo", {})
demos = demo if isinstance(demo, list) else [demo]
copied = []
def place_demos():
    for f in glob.glob(os.path.join(out, "*_test.go")):
        # destination: from meta copy_to if it names this file's package, else guess from 'package' line
        dst = None
        for d in demos:
            ct = d.get("copy_to") if isinstance(d, dict) else None
            if ct and (os.path.basename(f).replace("demo", "") in ct or len(glob.glob(os.path.join(out, "*_test.go"))) == 1 or os.path.basename(f) in str(ct)):
                dst = ct
        if dst is None:
            continue
        if isinstance(dst, list):
            dst = dst[0]
        m = re.search(r"(pkg/[\w/]+|cmd/[\w/]+)", dst)
        if not m:
            continue
        d = m.group(1)
        if d.endswith(".go"):
            d = os.path.dirname(d)
        if os.path.splitext(d)[1]:
            d = os.path.dirname(d)
        target = os.path.join(wt, d, "zz_" + os.path.basename(f))
        if not os.path.isdir(os.path.join(wt, d)):
            d = os.path.dirname(d); target = os.path.join(wt, d, "zz_" + os.path.basename(f))
        shutil.copyfile(f, target); copied.append((target, d))
place_demos()
def run_demos():
    rc_all, log = 0, ""
    for target, d in copied:
        rc, o = sh("go test -vet=off -count=1 -run 'TestDemo' ./%s/" % d, cwd=wt, timeout=900)
        rc_all |= (rc != 0); log += o[-1500:]
    return rc_all, log
if copied:
    rc0, l0 = run_demos()
    res["demo_without_patch"] = "pass" if rc0 == 0 else "FAIL(unexpected)"
rc, o = sh("git apply %s" % os.path.join(out, "patch.diff"), cwd=wt)
if rc != 0:
    # later fix commits touched neighbouring lines: try a three-way merge, accepted only when it leaves no conflict
    rc, o = sh("git apply -3 %s" % os.path.join(out, "patch.diff"), cwd=wt)
    rc2, st = sh("git diff --name-only --diff-filter=U", cwd=wt)
    if rc != 0 or st.strip():
        rc = 1
        sh("git reset -q && git checkout -- .", cwd=wt)
    else:
        sh("git reset -q", cwd=wt)          # keep the merged changes unstaged, as a plain apply would
        res["applied_by"] = "three-way merge (neighbouring lines changed by later fix commits)"
res["patch_applies_on_main"] = (rc == 0)
if rc != 0:
    res["apply_error"] = o[-500:]
else:
    if copied:
        rc1, l1 = run_demos()
        res["demo_with_patch"] = "fail(as expected)" if rc1 != 0 else "PASS(unexpected)"
        res["demo_log_tail"] = l1[-600:]
    for target, d in copied:
        if os.path.exists(target):
            os.remove(target)
    rc, o = sh("go build ./pkg/... ./cmd/obitools/...", cwd=wt)
    res["builds"] = (rc == 0)
    rc, o = sh("python3 /verif/tools/baseline.py %s" % wt)
    res["pinned_tests"] = o.strip().splitlines()[-1] if o.strip() else "?"
    e2 = dict(os.environ, VERIF_REPO=wt, VERIF_TIER=tier)
    rc, o = sh("python3 tools/check.py %s --tier %s" % (pid, tier), cwd="/verif", timeout=3600, e=e2)
    res["check_rc"] = rc
    res["check_lines"] = [l for l in o.splitlines() if l.startswith("VIOLATION") or l.startswith("KNOWN")][:8]
    res["caught"] = (rc == 1 and any(l.startswith("VIOLATION") for l in o.splitlines()))
    # keep the first replay
    for l in res["check_lines"]:
        m = re.search(r"replay=(\S+)", l)
        if m and os.path.exists(m.group(1)):
            res["first_replay"] = json.load(open(m.group(1)))
            break
sh("git checkout -- . && git clean -fdq", cwd=wt)
dst = os.path.join("/verif/seeded", name)
os.makedirs(dst, exist_ok=True)
# what earlier runs recorded about this seed - read BEFORE the seed's own files (its meta.json among them) are copied over it
_old_meta = None
if os.path.exists(os.path.join(dst, "meta.json")):
    try:
        _old_meta = json.load(open(os.path.join(dst, "meta.json")))
    except Exception:
        _old_meta = None
for f in os.listdir(out):
    p = os.path.join(out, f)
    if os.path.isfile(p) and os.path.getsize(p) < 400000 and not f.endswith(".txt") and not f.endswith(".log"):
        shutil.copyfile(p, os.path.join(dst, f))
rep = res.pop("first_replay", None)
# keep what earlier runs recorded about this seed (strengthening notes, first-try result)
if _old_meta is not None:
    try:
        old = _old_meta
        for k in ("strengthened", "first_try_caught", "kind", "obsolete", "refactor_note", "ported"):
            if k in old and k not in meta:
                meta[k] = old[k]
        if "first_try_caught" not in meta and "verification_run" in old:
            meta["first_try_caught"] = bool(old["verification_run"].get("caught")) and "strengthened" not in old
    except Exception:
        pass
if "first_try_caught" not in meta:
    meta["first_try_caught"] = bool(res.get("caught"))
if os.environ.get("SEED_KIND"):
    meta["kind"] = os.environ["SEED_KIND"]
meta["verification_run"] = res
json.dump(meta, open(os.path.join(dst, "meta.json"), "w"), indent=1)
if rep is not None:
    json.dump(rep, open(os.path.join(dst, "first_replay.json"), "w"), indent=1, default=str)
print(json.dumps({k: res[k] for k in res if k not in ("demo_log_tail",)}, indent=1)[:1500])
