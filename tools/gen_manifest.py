#!/usr/bin/env python3
"""Regenerate MANIFEST.json (and the merged, human-readable known_findings.json) from the per-property
modules tools/props/cXX.py (META dict) and known_findings.d/*.json.  Run by hand at integration time."""
import os, sys, json, importlib, glob, re
sys.path.insert(0, os.path.dirname(os.path.abspath(__file__)))
import vlib

ALL = ["C%02d" % i for i in range(1, 21)]
checks, served, na = [], [], []
NA_REASONS = {}
CLAIMED = open(os.path.join(vlib.VERIF, "tools", "claimed.txt")).read().split()
for pid in ALL:
    p = os.path.join(vlib.VERIF, "tools", "props", pid.lower() + ".py")
    if pid not in CLAIMED or not os.path.exists(p):
        na.append(dict(property_id=pid, reason=NA_REASONS.get(pid, "not yet claimed: model/theorems/correspondence under construction (see DESIGN.md §6); the proof technique applies")))
        continue
    mod = importlib.import_module("props." + pid.lower())
    M = mod.META
    served.append(pid)
    checks.append(dict(property_id=pid,
                       quick_cmd="python3 tools/check.py %s --tier quick" % pid,
                       thorough_cmd="python3 tools/check.py %s --tier thorough" % pid,
                       evidence_file="/verif/evidence/%s.json" % pid,
                       replay_cmd_template="python3 tools/check.py %s --replay {path}" % pid,
                       engine="coq-obi",
                       level_claimed=dict(category="proof", text=M["text"], design_ref="DESIGN.md §4 " + pid),
                       level_note=M["note"],
                       technique=M.get("technique", "machine-checked proof in Rocq (Coq 8.16) over an executable model + model/code correspondence by vm_compute")))
# MANIFEST.hooks is regenerated from /repo's history: every commit whose subject starts with "verif hook"
import subprocess
log = subprocess.run(["git", "-C", "/repo", "log", "--reverse", "--format=%h%x09%s", "--grep=^verif hook"], capture_output=True, text=True).stdout
hooks_commits, lines = [], ["# Hooks added to /repo for verification. Guard: Go build tag `verif` (new files start with `//go:build verif`;",
                            "# calls added to existing code have a no-op twin under `//go:build !verif`). With the tag off the test suite is unchanged.",
                            "# <file>\t<commit>\t<subject>"]
for l in log.splitlines():
    h, subj = l.split("\t", 1)
    hooks_commits.append(h)
    files = subprocess.run(["git", "-C", "/repo", "show", "--name-only", "--format=", h], capture_output=True, text=True).stdout.split()
    for f in files:
        lines.append("%s\t%s\t%s" % (f, h, subj))
open(os.path.join(vlib.VERIF, "MANIFEST.hooks"), "w").write("\n".join(lines) + "\n")
m = dict(version=1, setup_cmd="cd /verif && python3 tools/setup.py",
         hooks=dict(guard="verif",
                    enable="go build -tags verif (scratch harness module generated under /verif/.build/hsrc with replace => /repo; commands: go build -tags verif ./cmd/obitools/...)",
                    baseline_off_cmd="cd /repo && go test -vet=off -count=1 -timeout 25m ./...",
                    source_commits=hooks_commits, add_only=True),
         engines=[dict(name="coq-obi", path="/verif/coq", serves_properties=served,
                       kind_free_text="Rocq/Coq 8.16.1 development (logical root OBI) + Go correspondence harness /verif/harness + tools/check.py")],
         checks=checks,
         notes="see DESIGN.md; known_findings.d/*.json (merged copy: known_findings.json) list genuine defects (known / fixed)",
         not_applicable=na)
json.dump(m, open(os.path.join(vlib.VERIF, "MANIFEST.json"), "w"), indent=1)
json.dump(dict(comment="merged copy of known_findings.d/*.json (the checks read the .d files)", findings=vlib.load_known()),
          open(os.path.join(vlib.VERIF, "known_findings.json"), "w"), indent=1)
print("claimed:", served)
