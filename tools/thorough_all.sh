#!/bin/bash
# run every thorough check once on the current /repo (background soak); prints rc and VIOLATION/KNOWN lines
cd "$(dirname "$0")/.."
python3 tools/setup.py > /dev/null 2>&1
for p in "$@"; do
  s=$(date +%s)
  out=$(python3 tools/check.py $p --tier thorough 2>&1)
  rc=$?
  echo "== $p rc=$rc $(( $(date +%s) - s ))s"
  echo "$out" | grep -E "^(VIOLATION|KNOWN)" | cut -c1-220
done
