#!/usr/bin/env python3
"""check.py <ID> [--tier quick|thorough] [--replay FILE]  — the only entry point registered in MANIFEST.json.
Exit 0: property held on everything explored; exit 1 + 'VIOLATION property=<id> replay=<path>' otherwise."""
import sys, os, importlib, argparse, json, traceback
sys.path.insert(0, os.path.dirname(os.path.abspath(__file__)))
import vlib


def main():
    # every temporary file of this run (harness, commands under test - obiuniq leaves its chunk directories behind when it is
    # killed -, generated inputs) goes to one private directory which is removed when the check ends
    import tempfile, shutil, atexit
    tmpd = tempfile.mkdtemp(prefix="verif_check_")
    os.environ["TMPDIR"] = tmpd
    tempfile.tempdir = tmpd
    atexit.register(shutil.rmtree, tmpd, True)
    ap = argparse.ArgumentParser()
    ap.add_argument("pid")
    ap.add_argument("--tier", default=None)
    ap.add_argument("--replay", default=None)
    a = ap.parse_args()
    tier = a.tier or os.environ.get("VERIF_TIER") or "quick"
    if tier not in ("quick", "thorough"):
        tier = "quick"
    try:
        seed = int(os.environ.get("VERIF_SEED", "1"))
    except ValueError:
        seed = 1
    pid = a.pid.upper()
    ctx = vlib.Ctx(pid, tier, seed)
    mod = importlib.import_module("props." + pid.lower())
    ctx.cov["checker_cmd"] = "make -C /verif/coq (coqc 8.16.1, full .vo build) ; coqc theories/%s ; python3 tools/check.py %s --tier %s" % (
        " ".join(mod.PROPS), pid, tier)
    ctx.cov["trusted_base"] = [
        "Coq 8.16.1 kernel + vm_compute (no native_compute)",
        "hand-written Gallina model tied to /repo by the correspondence run of this check (Go harness vh built with -tags verif from the working tree, case generators/renderers in tools/props/%s.py)" % pid.lower(),
        "Python direct oracle (executable statement of the property) used for triage and search",
    ] + list(getattr(mod, "TRUSTED", []))
    broken = []   # proof obligations / correspondences that no longer check, used when no failing input is found

    # 0. regenerated model parts (tables) — before the build so that the theorems over them are re-proved
    if hasattr(mod, "regen"):
        try:
            mod.regen(ctx)
        except Exception as e:
            broken.append(dict(kind="regen", detail=repr(e)))

    # 1. Coq build
    ok, out, loc = ctx.coq_build(mod.PROPS)
    if not ok:
        broken.append(dict(kind="proof-obligation", file=loc[0] if loc else None, line=loc[1] if loc else None, log=out[-1500:]))
    bad = ctx.forbidden_scan()
    if bad:
        broken.append(dict(kind="forbidden-vernacular", where=bad))
    if ok:
        pa, err = ctx.props_assumptions(mod.PROPS)
        if pa is None:
            broken.append(dict(kind="proof-obligation", detail=err))
            ctx.cov.update(obligations=1, discharged=0)
        else:
            ctx.cov.update(obligations=pa["obligations"], discharged=pa["discharged"], theorems=pa["theorems"],
                           print_assumptions=("all %d theorems: Closed under the global context" % pa["closed"]) if not pa["axioms"] else pa["axioms"])
            if pa["discharged"] != pa["obligations"]:
                broken.append(dict(kind="proof-obligation", detail="%d theorems, %d assumption reports" % (pa["obligations"], pa["discharged"])))
    else:
        ctx.cov.update(obligations=1, discharged=0)
    if ok and tier == "thorough":
        # independent re-check of the compiled theorems (and everything they depend on) + axiom list
        mods = " ".join("OBI." + p[:-2].replace("/", ".") for p in mod.PROPS)
        rc, out, err, dt = vlib.sh("timeout 5400 coqchk -silent -o -Q theories OBI %s 2>&1" % mods, cwd=vlib.COQ, timeout=5500)
        summ = out[out.find("CONTEXT SUMMARY"):][:1500] if "CONTEXT SUMMARY" in out else out[-1500:]
        ctx.cov["coqchk"] = dict(rc=rc, wall_s=round(dt, 1), summary=summ)
        if rc != 0:
            broken.append(dict(kind="coqchk", detail=summ))

    # 2. harness from the current working tree
    vh, err = ctx.build_harness()
    if vh is None:
        broken.append(dict(kind="harness-build", detail=err))
    # 3. property-specific run (correspondence, traces, direct oracle, search)
    if vh is not None:
        try:
            if a.replay:
                mod.replay(ctx, json.load(open(a.replay)))
            else:
                mod.run(ctx, broken)
        except Exception:
            broken.append(dict(kind="check-crashed", detail=traceback.format_exc()[-3000:]))
    # 4. something no longer checks but no failing input was found
    if broken and not ctx.violations:
        ctx.violation("unchecked", dict(property=pid, reason="a proof obligation or the correspondence no longer checks and the search found no failing input",
                                        broken=broken), no_input=True)
    elif broken:
        ctx.cov["also_broken"] = broken
    sys.exit(ctx.finish("proof"))


if __name__ == "__main__":
    main()
