#!/bin/bash
# quick checks of every claimed property under several seeds (false-alarm hunt); prints only non-zero exits / VIOLATION lines
cd "$(dirname "$0")/.."
python3 tools/setup.py > /dev/null 2>&1
for s in "$@"; do
  for p in $(cat tools/claimed.txt); do
    out=$(VERIF_SEED=$s python3 tools/check.py $p --tier quick 2>&1); rc=$?
    if [ $rc -ne 0 ] || echo "$out" | grep -q "^VIOLATION"; then echo "!! seed=$s $p rc=$rc"; echo "$out" | grep -E "^VIOLATION" | head -3; fi
  done
  echo "seed $s done"
done
