#!/usr/bin/env python3
"""integrate.py <branch> : cherry-pick the commits of a worktree branch of /repo onto main (in order), stop at the first conflict."""
import subprocess, sys
br = sys.argv[1]
def git(*a, check=True):
    p = subprocess.run(["git", "-C", "/repo"] + list(a), capture_output=True, text=True)
    if check and p.returncode != 0:
        print(p.stdout, p.stderr); sys.exit(1)
    return p.stdout.strip()
base = git("merge-base", "main", br)
commits = git("log", "--reverse", "--format=%H %s", "%s..%s" % (base, br)).splitlines()
for c in commits:
    h, subj = c.split(" ", 1)
    p = subprocess.run(["git", "-C", "/repo", "cherry-pick", "-x", h], capture_output=True, text=True)
    if p.returncode != 0:
        print("CONFLICT on", h[:8], subj); print(p.stdout[-800:], p.stderr[-800:]); sys.exit(2)
    print("picked", h[:8], subj)
