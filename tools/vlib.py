"""Shared machinery of the checks (see DESIGN.md §2.4): Coq build / evaluation, harness build,
known findings, evidence, VIOLATION reporting."""
import json, os, re, subprocess, sys, time, random, hashlib, shutil

VERIF = os.path.dirname(os.path.dirname(os.path.abspath(__file__)))
REPO = os.environ.get("VERIF_REPO", "/repo")
COQ = os.path.join(VERIF, "coq")
BUILD = os.path.join(VERIF, ".build")
HARNESS = os.path.join(VERIF, "harness")
GOENV = dict(os.environ, GOFLAGS="-mod=mod", GOWORK="off", GOPROXY="off", GOSUMDB="off",
             GOTOOLCHAIN="local", CGO_CFLAGS="-w")
# VERIF_COVER=1: development aid (tools/anchor_coverage.py) - harness and commands are built with Go's coverage
# instrumentation of the repository's packages and every process they start writes its counters to $GOCOVERDIR
COVER = bool(os.environ.get("VERIF_COVER"))
COVER_FLAGS = "-cover -coverpkg=./..."
FORBIDDEN = re.compile(r"\b(Admitted|admit|Axiom|Axioms|Parameter|Parameters|Conjecture|Conjectures|"
                       r"Admit Obligations|Unset Guard Checking|bypass_check|Unset Positivity Checking|"
                       r"Unset Universe Checking|type-in-type|impredicative-set)\b")


def sh(cmd, timeout=600, cwd=None, env=None, inp=None):
    """Run a command (string = through the shell) in its OWN process group; on timeout the whole group is
    killed, so that a harness child that never returns (e.g. a non-terminating library call) cannot survive the check."""
    import signal
    t0 = time.time()
    p = subprocess.Popen(cmd, shell=isinstance(cmd, str), cwd=cwd, env=env, stdin=subprocess.PIPE if inp is not None else subprocess.DEVNULL,
                         stdout=subprocess.PIPE, stderr=subprocess.PIPE, start_new_session=True)
    try:
        out, err = p.communicate(inp, timeout=timeout)
        return p.returncode, out.decode("utf8", "replace"), err.decode("utf8", "replace"), time.time() - t0
    except subprocess.TimeoutExpired:
        try:
            os.killpg(p.pid, signal.SIGKILL)
        except Exception:
            p.kill()
        try:
            out, err = p.communicate(timeout=10)
        except Exception:
            out, err = b"", b""
        return 124, (out or b"").decode("utf8", "replace"), "TIMEOUT " + (err or b"").decode("utf8", "replace"), time.time() - t0


class Ctx:
    def __init__(self, pid, tier, seed):
        self.pid, self.tier, self.seed = pid, tier, seed
        self.rng = random.Random(seed * 1000003 + int(pid[1:]))
        self.t0 = time.time()
        self.violations = []          # (line, replay path)
        self.known_lines = []
        self.cov = {}
        self.assumptions = []
        self.samples = []
        self.kf = [k for k in load_known() if k["property"] == pid]
        os.makedirs(BUILD, exist_ok=True)
        os.makedirs(os.path.join(VERIF, "replays", pid), exist_ok=True)
        os.makedirs(os.path.join(VERIF, "evidence"), exist_ok=True)

    @property
    def quick(self):
        return self.tier == "quick"

    # ---------------- reporting
    def replay_path(self, name):
        return os.path.join(VERIF, "replays", self.pid, name + ".json")

    def violation(self, name, replay_obj, no_input=False):
        path = self.replay_path(name)
        with open(path, "w") as f:
            json.dump(replay_obj, f, indent=1, default=str)
        line = "VIOLATION property=%s replay=%s" % (self.pid, path)
        if no_input:
            line += " no-failing-input-found"
        self.violations.append(line)

    def known(self, key, what):
        """Report a failing witness that matches a recorded known finding (status known)."""
        line = "KNOWN-FINDING: property=%s %s" % (self.pid, what)
        if line not in self.known_lines:
            self.known_lines.append(line)

    def kf_match(self, key):
        for k in self.kf:
            if k.get("status") == "known" and k.get("key") == key:
                return k
        return None

    # ---------------- Coq
    def coq_build(self, props=None):
        """(Re)generate _CoqProject/Makefile when the set of .v files changed, then make the .vo of
        the given Props files and everything they depend on (full .vo build, never -vos)."""
        import fcntl
        targets = " ".join(os.path.join("theories", p[:-2] + ".vo") for p in (props or [])) or "all"
        with open(os.path.join(BUILD, "coq.lock"), "w") as lk:     # concurrent checks share one Makefile
            fcntl.flock(lk, fcntl.LOCK_EX)
            ensure_coq_makefile()
            rc, out, err, dt = sh("timeout 3000 make -j16 %s 2>&1" % targets, cwd=COQ, timeout=3100)
        self.cov["coq_make_s"] = round(dt, 1)
        if rc != 0:
            m = re.findall(r'File "([^"]+)", line (\d+)', out)
            return False, out[-3000:], (m[-1] if m else None)
        return True, out, None

    def forbidden_scan(self):
        bad = []
        for root, _, files in os.walk(os.path.join(COQ, "theories")):
            for fn in files:
                if fn.endswith(".v"):
                    src = open(os.path.join(root, fn)).read()
                    src_nc = strip_comments(src)
                    for m in FORBIDDEN.finditer(src_nc):
                        bad.append("%s: %s" % (os.path.join(root, fn), m.group(0)))
        proj = open(os.path.join(COQ, "_CoqProject")).read()
        if re.search(r"type-in-type|impredicative-set|-vos|-vok", proj):
            bad.append("_CoqProject: forbidden flag")
        return bad

    def props_assumptions(self, files):
        """Parse theorem names of the property's Props files and their Print Assumptions output.
        The output of `coqc Props.v` is cached under .build keyed by the hash of every .v file of the
        development (Print Assumptions walks the whole proof terms: ~10 s per file)."""
        h = hashlib.sha256()
        for root, _, fs in sorted(os.walk(os.path.join(COQ, "theories"))):
            for fn in sorted(fs):
                if fn.endswith(".v"):
                    h.update(fn.encode()); h.update(open(os.path.join(root, fn), "rb").read())
        key = h.hexdigest()[:24]
        total, closed, axioms, names = 0, 0, [], []
        for rel in files:
            path = os.path.join(COQ, "theories", rel)
            src = strip_comments(open(path).read())
            thms = re.findall(r"^\s*Theorem\s+(\w+)", src, re.M)
            cache = os.path.join(BUILD, "pa_%s_%s.txt" % (rel.replace("/", "_"), key))
            if os.path.exists(cache):
                out = open(cache).read()
            else:
                rc, out, err, dt = sh("timeout 1800 coqc -noglob -Q theories OBI -w none %s 2>&1" % os.path.join("theories", rel), cwd=COQ, timeout=1850)
                if rc != 0:
                    return None, "coqc failed on %s:\n%s" % (rel, out[-2000:])
                open(cache, "w").write(out)
            n_closed = out.count("Closed under the global context")
            # each "Axioms:" block lists the axioms one theorem depends on: "<Qualified.name> : type" or "<Qualified.name>" + indented type
            ax = []
            for blk in re.split(r"^(?=Axioms:|Closed under the global context)", out, flags=re.M):
                if blk.startswith("Axioms:"):
                    names = re.findall(r"^([A-Za-z_][\w.']*)(?=\s*:|\s*$)", blk[len("Axioms:"):], re.M)
                    ax.append(", ".join(sorted(set(names))))
            total += len(thms)
            names += thms
            closed += n_closed
            for a in ax:
                axioms.append(a.strip())
            n_pa = len(re.findall(r"Print Assumptions", src))
            if n_pa < len(thms):
                return None, "%s: %d theorems but only %d Print Assumptions" % (rel, len(thms), n_pa)
        return dict(obligations=total, discharged=closed + len(axioms), closed=closed, axioms=axioms, theorems=names), None

    def coq_eval(self, name, source, timeout=900):
        """Compile a generated file under .build/coq (logical path OBIGen) and return coqc's stdout."""
        d = os.path.join(BUILD, "coq")
        os.makedirs(d, exist_ok=True)
        path = os.path.join(d, name + ".v")
        with open(path, "w") as f:
            f.write(source)
        rc, out, err, dt = sh("timeout %d coqc -noglob -Q %s/theories OBI -Q %s OBIGen -w none %s 2>&1" % (timeout, COQ, d, path), cwd=d, timeout=timeout + 20)
        return rc, out, dt

    def correspond(self, name, imports, terms, fn="mismatches", shard=300, timeout=900):
        """Evaluate `fn [terms]` by vm_compute inside Coq (shards in parallel);
        returns (list of mismatching indices, error)."""
        from concurrent.futures import ThreadPoolExecutor
        jobs = []
        for k in range(0, len(terms), shard):
            part = terms[k:k + shard]
            src = imports + "\nDefinition cases := [\n" + ";\n".join(part) + "\n].\n" + \
                "Definition M := Eval vm_compute in (%s cases).\nPrint M.\n" % fn
            jobs.append((k, "%s_%s_%d" % (self.pid, name, k // shard), src))
        bad = []
        def one(j):
            # a coqc killed from outside or by its time limit (loaded machine) is retried with a longer limit:
            # only a genuine Coq error or a computed mismatch may count against the property
            t = timeout
            for attempt in range(3):
                rc, out, dt = self.coq_eval(j[1], j[2], timeout=t)
                if rc in (124, 137, 143, -9, -15) or ("Terminated" in out[-200:] or "Killed" in out[-200:]) and "Error" not in out:
                    t *= 3
                    continue
                break
            return (j[0], rc, out, dt)
        with ThreadPoolExecutor(max_workers=14) as ex:
            res = list(ex.map(one, jobs))
        for k, rc, out, dt in res:
            if rc != 0:
                return None, "coqc failed on generated cases (%s): %s" % (name, out[-1500:])
            idx = parse_nat_list(out)
            if idx is None:
                return None, "cannot parse coqc output: " + out[-500:]
            bad += [k + i for i in idx]
        self.cov["model_evaluations"] = self.cov.get("model_evaluations", 0) + len(terms)
        return sorted(bad), None

    # ---------------- harness
    def build_harness(self, race=False, pid=None):
        """Build the harness of this property from REPO's current working tree: a scratch module under
        .build/hsrc (main.go + common*.go + <pid>*.go of /verif/harness/cmd/vh) with `replace => REPO`."""
        pid = (pid or self.pid).lower()
        src = os.path.join(HARNESS, "cmd", "vh")
        tag = hashlib.sha1(REPO.encode()).hexdigest()[:8]
        d = os.path.join(BUILD, "hsrc", "%s-%s" % (pid, tag))
        dd = os.path.join(d, "cmd", "vh")
        shutil.rmtree(dd, ignore_errors=True)
        os.makedirs(dd, exist_ok=True)
        for fn in os.listdir(src):
            if fn.endswith(".go") and (fn == "main.go" or fn.startswith("common") or fn.startswith(pid)):
                shutil.copyfile(os.path.join(src, fn), os.path.join(dd, fn))
        if COVER:
            # coverage instrumentation only reaches the packages of the module being built: the harness is compiled as a
            # command of a SCRATCH copy of the repository (REPO is a throw-away worktree made by tools/anchor_coverage.py)
            assert not REPO.startswith("/repo"), "VERIF_COVER needs VERIF_REPO = a scratch worktree"
            zz = os.path.join(REPO, "cmd", "zz_verif_vh")
            shutil.rmtree(zz, ignore_errors=True)
            shutil.copytree(dd, zz)
            out = os.path.join(BUILD, "vh_%s_cov_%s" % (pid, tag))
            env = dict(os.environ, GOPROXY="off", GOSUMDB="off", GOTOOLCHAIN="local", CGO_CFLAGS="-w", GOFLAGS="")
            rc, so, se, dt = sh("go build -tags verif -cover -coverpkg=./... -o %s ./cmd/zz_verif_vh" % out, cwd=REPO, env=env, timeout=1500)
            if rc != 0:
                return None, filter_go_noise(se)
            self.vh_bin = out
            return out, None
        gomod = open(os.path.join(HARNESS, "go.mod")).read().replace("=> /repo", "=> " + REPO)
        open(os.path.join(d, "go.mod"), "w").write(gomod)
        shutil.copyfile(os.path.join(REPO, "go.sum"), os.path.join(d, "go.sum"))
        out = os.path.join(BUILD, "vh_%s%s%s_%s" % (pid, "_race" if race else "", "_cov" if COVER else "", tag))
        cmd = "go build -tags verif %s %s -o %s ./cmd/vh" % ("-race" if race else "", COVER_FLAGS if COVER else "", out)
        rc, so, se, dt = sh(cmd, cwd=d, env=GOENV, timeout=1500)
        self.cov["harness_build_s"] = round(dt, 1)
        if rc != 0:
            return None, filter_go_noise(se)
        if not race:
            self.vh_bin = out
        return out, None

    def build_cmds(self, names, race=False):
        """Build obitools commands from /repo's working tree with the verif tag into .build/bin."""
        d = os.path.join(BUILD, ("bin_race_" if race else "bin_cov_" if COVER else "bin_") + hashlib.sha1(REPO.encode()).hexdigest()[:8])
        os.makedirs(d, exist_ok=True)
        pk = " ".join("./cmd/obitools/" + n for n in names)
        env = dict(os.environ, GOPROXY="off", GOSUMDB="off", GOTOOLCHAIN="local", CGO_CFLAGS="-w", GOFLAGS="")
        rc, so, se, dt = sh("go build -tags verif %s %s -o %s/ %s" % ("-race" if race else "", COVER_FLAGS if COVER else "", d, pk), cwd=REPO, env=env, timeout=1500)
        if rc != 0:
            return None, filter_go_noise(se)
        return d, None

    def vh(self, sub, cases, timeout=600, binary=None, args=""):
        """Run harness subcommand on JSON cases -> list of observations (None if the run failed)."""
        binary = binary or getattr(self, "vh_bin", None) or os.path.join(BUILD, "vh")
        inp = "".join(json.dumps(c) + "\n" for c in cases).encode()
        rc, out, err, dt = sh("%s %s %s" % (binary, sub, args), inp=inp, timeout=timeout)
        if rc != 0:
            return None, "vh %s rc=%s: %s" % (sub, rc, err[-2000:])
        obs = [json.loads(l) for l in out.splitlines() if l.strip()]
        if len(obs) != len(cases):
            return None, "vh %s: %d observations for %d cases; stderr: %s" % (sub, len(obs), len(cases), err[-1000:])
        return obs, None

    def vh_robust(self, sub, cases, timeout=600, one_timeout=20, binary=None, args=""):
        """Like vh, but isolates cases on which the harness process crashes or hangs:
        their observation is {"kind": "crash", "err": ...}."""
        obs, err = self.vh(sub, cases, timeout=timeout, binary=binary, args=args)
        if obs is not None:
            return obs
        if len(cases) == 1:
            return [{"kind": "crash", "err": (err or "")[-400:]}]
        if len(cases) == 0:
            return []
        mid = len(cases) // 2
        t = max(one_timeout, timeout // 2)
        return self.vh_robust(sub, cases[:mid], t, one_timeout, binary, args) + \
               self.vh_robust(sub, cases[mid:], t, one_timeout, binary, args)

    # ---------------- evidence
    def finish(self, level="proof"):
        wall = time.time() - self.t0
        cov = dict(self.cov)
        cov.setdefault("samples", self.samples[:8] if self.samples else ["(no case sampled)"])
        # keep the evidence file schema-valid whatever a property module stored under the typed keys
        for k in ("evaluations", "distinct_nontrivial", "states", "transitions", "traces_validated_against_impl",
                  "obligations", "discharged", "programs", "disagreements_checked"):
            if k in cov and not (isinstance(cov[k], int) and not isinstance(cov[k], bool) and cov[k] >= 0):
                cov[k + "_note"] = cov.pop(k)
        for k in ("rule", "checker_cmd", "explanation"):
            if k in cov and not isinstance(cov[k], str):
                cov[k] = json.dumps(cov[k], default=str)
        if "exhaustive" in cov and not isinstance(cov["exhaustive"], bool):
            cov["exhaustive_scope"] = cov["exhaustive"]
            cov["exhaustive"] = True
        if not isinstance(cov.get("samples"), list) or not cov["samples"]:
            cov["samples"] = [cov.get("samples") or "(no case sampled)"]
        if "trusted_base" in cov:
            cov["trusted_base"] = [str(x) for x in (cov["trusted_base"] if isinstance(cov["trusted_base"], list) else [cov["trusted_base"]])]
        self.assumptions = [str(x) for x in self.assumptions]
        ev = dict(property_id=self.pid, tier=self.tier, seed=self.seed, level=level, coverage=cov,
                  assumptions=self.assumptions, wall_s=round(wall, 2), violations=len(self.violations),
                  known_findings_reported=self.known_lines)
        with open(os.path.join(VERIF, "evidence", self.pid + ".json"), "w") as f:
            json.dump(ev, f, indent=1, default=str)
        for l in self.known_lines:
            print(l)
        for l in self.violations:
            print(l)
        sys.stdout.flush()
        return 1 if self.violations else 0


def strip_comments(src):
    out, depth, i = [], 0, 0
    while i < len(src):
        if src.startswith("(*", i):
            depth += 1; i += 2
        elif src.startswith("*)", i) and depth > 0:
            depth -= 1; i += 2
        else:
            if depth == 0:
                out.append(src[i])
            i += 1
    return "".join(out)


def filter_go_noise(s):
    return "\n".join(l for l in s.splitlines() if "warning" not in l and not l.startswith("#") and l.strip())[-3000:]


def load_known():
    """Known findings: every known_findings.d/*.json (committed; never written at run time)."""
    res = []
    d = os.path.join(VERIF, "known_findings.d")
    if os.path.isdir(d):
        for fn in sorted(os.listdir(d)):
            if fn.endswith(".json"):
                res += json.load(open(os.path.join(d, fn)))["findings"]
    return res


def ensure_coq_makefile():
    """_CoqProject lists every .v under theories/ (sorted); regenerate the Makefile when it changes."""
    files = []
    for root, _, fs in os.walk(os.path.join(COQ, "theories")):
        for fn in fs:
            if fn.endswith(".v"):
                files.append(os.path.relpath(os.path.join(root, fn), COQ))
    files.sort()
    text = "-Q theories OBI\n-arg -w -arg -notation-overridden,-deprecated-hint-without-locality,-deprecated-instance-without-locality\n" + "\n".join(files) + "\n"
    p = os.path.join(COQ, "_CoqProject")
    if not os.path.exists(p) or open(p).read() != text or not os.path.exists(os.path.join(COQ, "Makefile")):
        open(p, "w").write(text)
        sh("coq_makefile -f _CoqProject -o Makefile", cwd=COQ)


def parse_nat_list(out):
    """Parse '= [1; 2; 3]' (possibly wrapped over lines) printed by Eval/Print into a list of ints."""
    m = re.search(r"=\s*\[(.*?)\]", out, re.S)
    if not m:
        return None
    body = m.group(1).strip()
    if not body:
        return []
    return [int(x) for x in re.findall(r"-?\d+", body)]


def zlist(l):
    return "[" + "; ".join("(%d)" % x if x < 0 else str(x) for x in l) + "]"


def bytes_coq(b):
    """bytes -> Gallina list N literal"""
    return "[" + ";".join(str(x) for x in b) + "]%N"
