#!/usr/bin/env python3
"""print the markdown table of DESIGN §8.6 from seeded/*/meta.json"""
import json, glob, os
rows = []
for d in sorted(glob.glob(os.path.join(os.path.dirname(__file__), "..", "seeded", "*", "meta.json"))):
    m = json.load(open(d)); r = m.get("verification_run", {})
    n = os.path.basename(os.path.dirname(d))
    how = ""
    for l in r.get("check_lines", []):
        if l.startswith("VIOLATION"):
            how = os.path.basename(l.split("replay=")[1].split()[0]).replace(".json", "")
            if "no-failing-input-found" in l:
                how += " (no-failing-input-found)"
            break
    note = m.get("strengthened", "")
    rows.append("| %s | %s | %s | %s | %s |" % (n, (m.get("title") or "").replace("|", "/")[:110], (m.get("needs_to_manifest") or "").replace("|", "/").replace("\n", " ")[:140],
                                          ("caught: " + how) if r.get("caught") else "MISSED", note))
print("| seed | change | needs to manifest | quick check of the property | check strengthened because of it |")
print("|---|---|---|---|---|")
print("\n".join(rows))
