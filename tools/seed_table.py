#!/usr/bin/env python3
"""print the markdown tables of DESIGN §8.6 from seeded/*/meta.json: breaking changes (A..D) and behaviour-preserving
refactorings (R1..R3)"""
import json, glob, os, re


def first_violation(r):
    for l in r.get("check_lines", []):
        if l.startswith("VIOLATION"):
            how = os.path.basename(l.split("replay=")[1].split()[0]).replace(".json", "")
            if "no-failing-input-found" in l:
                how += " (no-failing-input-found)"
            return how
    return ""


def cell(s, n):
    return (s or "").replace("|", "/").replace("\n", " ")[:n]


mut, ref = [], []
for d in sorted(glob.glob(os.path.join(os.path.dirname(__file__), "..", "seeded", "*", "meta.json"))):
    m = json.load(open(d))
    r = m.get("verification_run", {})
    n = os.path.basename(os.path.dirname(d))
    if re.search(r"-R\d$", n):
        if not r.get("patch_applies_on_main", True):
            out = "patch does not apply on the current tree"
        elif r.get("caught"):
            out = "reported: " + first_violation(r)
        else:
            out = "silent (exit 0)"
        ref.append("| %s | %s | %s | %s | %s |" % (n, cell(m.get("title"), 150), r.get("pinned_tests", "")[-7:], out, cell(m.get("refactor_note", ""), 400)))
        continue
    if m.get("obsolete"):
        res = "obsolete"
    elif r.get("caught"):
        res = "caught: " + first_violation(r)
    else:
        res = "MISSED"
    first = "yes" if m.get("first_try_caught", r.get("caught")) and not m.get("strengthened") else "no"
    mut.append("| %s | %s | %s | %s | %s | %s |" % (n, cell(m.get("title"), 110), cell(m.get("needs_to_manifest"), 140), res, first,
                                                cell(m.get("strengthened") or m.get("obsolete"), 600)))
print("| seed | change | needs to manifest | quick check of the property (current tree) | caught at the first try | check strengthened because of it / note |")
print("|---|---|---|---|---|---|")
print("\n".join(mut))
print()
print("| refactoring | change (behaviour-preserving) | pinned tests | quick check of the property | note |")
print("|---|---|---|---|---|")
print("\n".join(ref))
