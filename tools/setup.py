#!/usr/bin/env python3
"""setup: full .vo build of the Coq development, harness build, Print Assumptions caches (offline)."""
import os, sys, json
sys.path.insert(0, os.path.dirname(os.path.abspath(__file__)))
import vlib

ctx = vlib.Ctx("C00", "quick", 1)
rc, out, err, dt = vlib.sh("coq_makefile -f _CoqProject -o Makefile", cwd=vlib.COQ)
ok, out, loc = ctx.coq_build()
print("coq build:", "ok" if ok else "FAILED", ctx.cov.get("coq_make_s"), "s")
if not ok:
    print(out)
    sys.exit(1)
man = json.load(open(os.path.join(vlib.VERIF, "MANIFEST.json")))
vh = True
for c in man["checks"]:
    b, err = ctx.build_harness(pid=c["property_id"])
    print("harness", c["property_id"], "ok" if b else "FAILED\n" + str(err))
    vh = vh and bool(b)
files = set()
import importlib
for c in man["checks"]:
    mod = importlib.import_module("props." + c["property_id"].lower())
    files.update(mod.PROPS)
from concurrent.futures import ThreadPoolExecutor
with ThreadPoolExecutor(max_workers=12) as ex:
    res = list(ex.map(lambda f: (f, ctx.props_assumptions([f])), sorted(files)))
bad = 0
for f, (pa, e) in res:
    if pa is None:
        print("assumptions FAILED", f, e); bad = 1
    else:
        print("assumptions", f, pa["obligations"], "theorems", "closed" if not pa["axioms"] else pa["axioms"])
sys.exit(0 if vh and not bad else 1)
