"""C15 — assignment search is lossless: k-mer prefilters never change the answer."""
import json
import os

PROPS = ["C15/Props.v"]
META = dict(
    text="Rocq theorems over an executable model of Encode4mer/Count4Mer/Common4Mer (base-code table and counter width REGENERATED from the build "
         "on every run and re-proved: C15/Gen/Tables.v), the FindClosests scan (maxe, wordmin, bests; obitag and obitag2) and the IndexSequence / "
         "Identify tables: the q-gram bound (d single-symbol edits leave at least max(|s|,|t|)-3-4d shared 4-mers) is proved for all sequences, and "
         "for the WRAPPED uint16 counters the code really uses under the explicit guard 'no 4-mer occurs 2^16 times or more'; hence the scan pruned "
         "with the threshold |query|-3-4*maxe returns exactly the references at minimal kernel distance, all ties included, and that distance, for "
         "every candidate order sorted by shared 4-mers; whatever the counts / symbols / cap, the answer is the exact answer over a non-empty prefix "
         "of the candidate order; obitag2 (cap `i > 1000`) is lossless IF AND ONLY IF no closest reference has rank > 1000; every recorded index "
         "distance gives the LCA of the taxa of all references within it, IndexSequence always records distance 0, and the lookup loops of Identify "
         "(modelled exactly, 'horrible hack' branch and spinning included) return for EVERY observed distance e the LCA of the references within "
         "min(e, |reference|-1); the taxon written by Identify is an ancestor-or-self of the taxon of every best match. Every run ties the model to "
         "the real obitag.FindClosests / obitag2.FindClosests / obirefidx.IndexSequence / obitag.Identify (lazily indexed AND pre-indexed database) "
         "/ Common4Mer on random and adversarial databases x queries x random taxonomies (vm_compute on the same inputs, IUPAC cases included) and "
         "checks the real functions against a brute force over ALL references with the real kernels; the returned idx are checked to pair with the "
         "returned bests.",
    note="Trusted / assumed: the LCS kernels (Section variable: the reported alilen-lcs of two acgt sequences is witnessed by that many "
         "single-symbol edits — C15_alignment_is_edit_script shows any alignment gives one; the bounded kernel / D1Or0 answer d exactly "
         "when d <= bound — cross-checked by the harness on every pair, inconsistent cases are set aside and counted) = property C09; "
         "the LCA (Section variables anc/lca with reflexivity, transitivity, greatest-lower-bound law) = property C14. Guard acgt_only: "
         "with IUPAC codes the kernels match ambiguous symbols while the 4-mer code maps them to 'a'; characterised (C15_iupac_bound: each "
         "kernel-matched column of two different symbols costs at most four 4-mers; only completeness can fail, C15_iupac_refuted; "
         "C15_search_prefix_exact still holds and is checked on those cases); what the code does there is counted under coverage.observations, "
         "never a violation. Guard cells_exact (uint16 counters): beyond it the closest reference is pruned — known finding "
         "search-4mer-count-wrap (C15_qgram_wrapped_refuted / C15_search_wrapped_refuted; exhibited on the real tables every run, on the real "
         "FindClosests in the thorough tier only: one quadratic alignment of two 65 kb sequences). Guard: reference set not empty (FindClosests "
         "indexes o[0]). Labelled observation lookup_beyond_reference_length: IndexSequence records no distance >= |reference| (`old := lseq`), "
         "so for an observed distance e >= |best match| the assigned taxon is the LCA of the references within |best match|-1 only — more specific "
         "than the LCA of all references within e, still an ancestor-or-self of every best match: neither clause of the property is violated "
         "(C15_index_lookup_all_distances, C15_lookup_beyond_length_witness); not repaired (changing `old := lseq` changes the content of every "
         "index written by obirefidx). Not compared: order of the ties, obitag_bestid / obitag_bestmatch (depend on the unstable sort). Known "
         "finding: obitag2.FindClosests stops after 1001 candidates (C15_search2_cap_refuted; sharp: "
         "C15_search2_lossless_iff_no_closest_beyond_rank_1000); obitag2 is reachable from the built command cmd/obitools/obitag2 (not documented, "
         "not in the release notes); 'the search used by obitag' = obitag.FindClosests (no cap). obitag2's second pass (family databases, "
         "BestConsensus with the reffamidx_in slot) is not modelled.")
TRUSTED = [
    "LCS kernels FastLCSScore / D1Or0 (property C09) are a Section variable: hypothesis kernel_edits (distance alilen-lcs of two acgt sequences = that many single-symbol edits) and Model.kern (bounded kernel / D1Or0 answer d iff d <= bound; obitag2 uses byte equality for bound 0); the harness cross-checks bounded vs unbounded kernel and D1Or0 on every pair and sets inconsistent cases aside",
    "TaxNode.Path / LCA (property C14) are Section variables anc / lca with reflexivity, transitivity and anc x (lca a b) <-> anc x a /\\ anc x b; the correspondence uses an executable path/LCA over the parent table (Model.lca_exec) and the Python oracle its own LCA",
    "the candidate order (sort.Sort is not stable) is read back from the code (obiutils.IntOrder + Reverse on the observed counts) and validated by the model as a permutation sorted by decreasing shared 4-mers",
    "C15/Gen/Tables.v (base-code table of Encode4mer through the hook obikmer.VerifC15SingleBaseCode, cell width of Table4mer through reflect) is rewritten from the current build before the Coq build; C15_base_code_table and C15_cells_are_uint16 are re-proved from it on every run",
    "sequences long enough to wrap a counter (> 65538 bases) are outside what the kernels can align (16-bit path lengths, quadratic time): for them distances come from D1Or0 only",
]

ACGT = "acgt"
TABLES_V = os.path.join(os.path.dirname(os.path.dirname(os.path.dirname(os.path.abspath(__file__)))), "coq", "theories", "C15", "Gen", "Tables.v")


# --------------------------------------------------------------------------- regenerated tables (pattern C07)
def tables_source(t):
    return ("(** GENERATED by tools/props/c15.py regen() from the CURRENT build (vh c15, case {\"kind\":\"tables\"}). Do not edit.\n"
            "    base_code_tab : obikmer.__single_base_code__ (indexed by byte & 31);\n"
            "    cell_bits     : width in bits of one obikmer.Table4mer counter; table_cells: number of counters. *)\n"
            "From Coq Require Import NArith List.\nImport ListNotations.\n\n"
            "Definition base_code_tab : list N := [%s]%%N.\n\nDefinition cell_bits : N := %d%%N.\n\nDefinition table_cells : N := %d%%N.\n"
            % ("; ".join(str(int(x)) for x in t["base_code"]), int(t["cell_bits"]), int(t["cells"])))


def regen(ctx):
    """Called by check.py before the Coq build: rewrite C15/Gen/Tables.v from the current code (write-if-changed); the theorems
    C15_base_code_table / C15_cells_are_uint16 (and everything that depends on base_code / cell_modulus) are then re-proved."""
    vh, err = ctx.build_harness()
    if vh is None:
        raise RuntimeError("harness build failed: %s" % err)
    obs, err = ctx.vh("c15", [dict(kind="tables")], timeout=60)
    if obs is None or not obs or obs[0].get("kind") != "tables":
        raise RuntimeError("vh c15 tables: %s" % (err or obs))
    t = obs[0]
    src = tables_source(t)
    os.makedirs(os.path.dirname(TABLES_V), exist_ok=True)
    old = open(TABLES_V).read() if os.path.exists(TABLES_V) else None
    if old != src:
        with open(TABLES_V, "w") as f:
            f.write(src)
        ctx.cov["tables_regenerated"] = "changed"
    else:
        ctx.cov["tables_regenerated"] = "unchanged"
    ctx._c15_tables = t


def table_failures(t):
    """executable statement of C15_base_code_table / C15_cells_are_uint16 on the dumped tables"""
    bad = []
    tab = t["base_code"]
    if len(tab) != 32:
        bad.append("base-code table has %d entries, Encode4mer indexes it with byte & 31" % len(tab))
    want = {"a": 0, "c": 1, "g": 2, "t": 3, "u": 3}
    for ch, code in want.items():
        for b in (ord(ch), ord(ch.upper())):
            if (b & 31) >= len(tab) or tab[b & 31] != code:
                bad.append("base code of %r is not %d" % (chr(b), code))
    for i, c in enumerate(tab):
        if c > 3 or (c != 0 and i not in (3, 7, 20, 21)):
            bad.append("entry %d of the base-code table is %d" % (i, c))
    if t["cell_bits"] != 16 or t["cells"] != 256:
        bad.append("Table4mer is %d cells of %d bits (the guard of the search theorems is stated for 256 x uint16)" % (t["cells"], t["cell_bits"]))
    return bad


# --------------------------------------------------------------------------- generators
def rseq(rng, n, alpha=ACGT):
    return "".join(rng.choice(alpha) for _ in range(n))


def mutate(rng, s, k, alpha=ACGT):
    s = list(s)
    for _ in range(k):
        op = rng.choice("sid")
        if op == "s" and s:
            p = rng.randrange(len(s))
            s[p] = rng.choice([c for c in alpha if c != s[p]] or list(alpha))
        elif op == "i":
            p = rng.randrange(len(s) + 1)
            s.insert(p, rng.choice(alpha))
        elif op == "d" and len(s) > 5:
            del s[rng.randrange(len(s))]
    return "".join(s)


def rtaxo(rng, n):
    """random rooted tree: taxid 1 is the root (its own parent); taxids 1..n; parent < child"""
    t = [[1, 1]]
    for i in range(2, n + 1):
        # bias to deep trees
        p = i - 1 if rng.random() < 0.45 else rng.randrange(1, i)
        t.append([i, p])
    return t


def fix_len(rng, s):
    """(round 1 avoided sequences of exactly 3 bases: Encode4mer panicked, defect repaired under C08; they are generated now)"""
    return s


def gen_case(rng, index=True, big=False):
    kind = rng.choice(["family", "family", "family", "adversarial", "adversarial", "random", "lowcomplex", "lengths", "indexadv", "indexadv", "short"])
    L = rng.choice([4, 5, 6, 7, 8, 9, 11, 15, 20, 23, 24, 30, 40]) if rng.random() < 0.5 else rng.randrange(7, 45)
    nref = rng.randrange(1, 9) if not big else rng.randrange(8, 40)
    alpha = ACGT if kind != "lowcomplex" else rng.choice(["ac", "at", "acg", "a"])
    seed = rseq(rng, L, alpha)
    refs = []
    if kind == "adversarial":
        # the query; an insertion variant (longer, keeps many 4-mers); substitution variants (same length, lose 4 each)
        q = seed
        e = rng.choice([1, 1, 1, 2, 3])
        for _ in range(nref):
            k = rng.random()
            if k < 0.35:    # e insertions near the ends
                s = q
                for _ in range(e):
                    p = rng.choice([0, len(s), rng.randrange(len(s) + 1)])
                    s = s[:p] + rng.choice(ACGT) + s[p:]
                refs.append(s)
            elif k < 0.7:   # e substitutions far apart in the middle
                s = list(q)
                for j in range(e):
                    p = min(len(s) - 1, 3 + 5 * j + rng.randrange(0, 2))
                    s[p] = rng.choice([c for c in ACGT if c != s[p]])
                refs.append("".join(s))
            elif k < 0.85:  # e deletions
                s = q
                for _ in range(e):
                    if len(s) > 5:
                        p = rng.randrange(len(s))
                        s = s[:p] + s[p + 1:]
                refs.append(s)
            else:
                refs.append(mutate(rng, q, rng.randrange(0, 5)))
    elif kind == "indexadv":
        # for IndexSequence: duplicates / near-duplicates of a short sequence under different taxa, mixed with
        # long extensions of it (share all its 4-mers, but far) that come early in the candidate order
        base = seed[:rng.randrange(4, max(5, min(len(seed), 12)))]
        for _ in range(max(3, nref)):
            k = rng.random()
            if k < 0.3:
                refs.append(base)
            elif k < 0.55:
                refs.append(mutate(rng, base, 1))
            elif k < 0.85:
                refs.append(base + rseq(rng, rng.randrange(3, 9)) if rng.random() < 0.6 else rseq(rng, rng.randrange(3, 9)) + base)
            else:
                refs.append(mutate(rng, base, rng.randrange(2, 4)))
        q = mutate(rng, base, rng.randrange(0, 3))
    elif kind == "short":
        # sequences around the 4-mer size (1..7 bases, exactly 3 included): no or very few 4-mers, thresholds at 0
        q = rseq(rng, rng.randrange(2, 8))
        refs = [rseq(rng, rng.randrange(1, 8)) if rng.random() < 0.6 else mutate(rng, q, rng.randrange(0, 3)) or "a" for _ in range(nref)]
        if rng.random() < 0.5:
            refs += [mutate(rng, q, 0), "".join(rng.sample(q, len(q)))]     # the query itself and a permutation of it (same length)
    elif kind == "random":
        q = seed
        refs = [rseq(rng, max(4, L + rng.randrange(-3, 4))) for _ in range(nref)]
    elif kind == "lengths":
        q = seed
        for _ in range(nref):
            k = rng.randrange(-4, 5)
            if k >= 0:
                p = rng.randrange(len(q) + 1)
                refs.append(q[:p] + rseq(rng, k) + q[p:])
            else:
                p = rng.randrange(len(q))
                refs.append((q[:p] + q[p - k:]) or q)
    else:
        seeds = [seed] + [mutate(rng, seed, rng.randrange(1, 6), alpha) for _ in range(rng.randrange(0, 3))]
        for _ in range(nref):
            refs.append(mutate(rng, rng.choice(seeds), rng.choice([0, 0, 1, 1, 1, 2, 2, 3, 4]), alpha))
        q = mutate(rng, rng.choice(seeds + refs), rng.choice([0, 1, 1, 2, 2, 3]), alpha)
        if rng.random() < 0.15 and refs:
            refs.append(refs[0])        # exact duplicate
    if kind != "short":
        refs = [r if len(r) >= 4 else r + rseq(rng, 4 - len(r)) for r in refs]
        q = q if len(q) >= 4 else q + rseq(rng, 4 - len(q))
    rng.shuffle(refs)
    nt = rng.randrange(1, 10)
    taxo = rtaxo(rng, nt)
    taxids = [rng.randrange(1, nt + 1) for _ in refs]
    return dict(q=q, refs=refs, taxids=taxids, taxo=taxo, index=index, tag=kind)


def gen_iupac_case(rng):
    """outside the guard acgt_only: ambiguity codes in query and references"""
    c = gen_case(rng, index=False)
    amb = "nrykmswbdhv"

    def amb_some(s):
        s = list(s)
        for _ in range(rng.randrange(1, 4)):
            s[rng.randrange(len(s))] = rng.choice(amb)
        return "".join(s)
    c["q"] = amb_some(c["q"]) if rng.random() < 0.7 else c["q"]
    c["refs"] = [amb_some(r) if rng.random() < 0.5 else r for r in c["refs"]]
    c["tag"] = "iupac"
    return c


def gen_lowcomplexity_case(rng):
    """Low-complexity sequences (homopolymer / microsatellite runs of 250..330 units): one 4-mer occurs hundreds of times, so the
    4-mer tables hold large counts (a counter narrower than the data wraps around and the prefilter then prunes a closest reference)."""
    motif = rng.choice(["a", "c", "g", "t", "ac", "ag", "ct", "acg"])
    n = rng.randrange(250, 330)
    fl, fr = rseq(rng, rng.randrange(4, 12)), rseq(rng, rng.randrange(4, 12))
    core = (motif * n)[:n] if len(motif) > 1 and rng.random() < 0.5 else motif * n
    q = fl + core + fr
    def var(k):
        if k == "ins":
            return fl + core + motif[0] + fr
        if k == "del":
            return fl + core[1:] + fr
        if k == "sub2":
            return mutate(rng, fl, 1) + core + mutate(rng, fr, 1)
        if k == "sub1":
            return fl + core + mutate(rng, fr, 1)
        return rseq(rng, 12) + core[: len(core) // 2] + rseq(rng, 12)
    kinds = rng.sample(["ins", "del", "sub2", "sub1", "far"], rng.randrange(3, 6))
    refs = [var(k) for k in kinds]
    taxo = [[1, 1], [2, 1], [3, 2], [4, 2], [5, 1]]
    return dict(q=q, refs=refs, taxids=[rng.randrange(1, 6) for _ in refs], taxo=taxo, index=True, tag="lowcomplexity")


def gen_beyond_case(rng):
    """best reference much shorter than the query (identity still >= 0.5): the observed distance reaches the reference length,
    which IndexSequence never records; other references are extensions / variants of it under other taxa"""
    L = rng.randrange(4, 9)
    b = rseq(rng, L)
    refs = [b]
    for _ in range(rng.randrange(1, 5)):
        k = rng.random()
        if k < 0.5:
            refs.append(b + rseq(rng, rng.randrange(L, 2 * L + 1)))
        elif k < 0.7:
            refs.append(rseq(rng, rng.randrange(L, 2 * L + 1)) + b)
        else:
            refs.append(mutate(rng, b, rng.randrange(0, 3)))
    x = rseq(rng, rng.randrange(L, L + 3))
    q = rng.choice([b + x, x + b, b[:L // 2] + x + b[L // 2:]])
    refs = [fix_len(rng, r if len(r) >= 4 else r + rseq(rng, 4 - len(r))) for r in refs]
    rng.shuffle(refs)
    nt = rng.randrange(2, 7)
    return dict(q=q, refs=refs, taxids=[rng.randrange(1, nt + 1) for _ in refs], taxo=rtaxo(rng, nt), index=True, tag="beyondlength")


# minimised defect witnesses (always run first)
CORPUS = [
    # FindClosests (fixed): ref 1 (one insertion, 9 bases, 5 shared 4-mers) is found first at distance 1; with the original
    # threshold wordmin = max(8, 9)-3-4 = 2 and ref 0 (one substitution, 1 shared 4-mer) was pruned although it is a tie.
    dict(q="tcccccga", refs=["tccctcga", "tcccccgag"], taxids=[2, 3], taxo=[[1, 1], [2, 1], [3, 1]], index=True, tag="corpus:fixed-findclosests"),
    # the design-phase example: 23-base query, 24-base insertion variant found first, 23-base substitution variant pruned
    dict(q="acgtaggctagcttagcatcgga", refs=["acgtaggctagcttagcatcggat", "acgtaggctaggttagcatcgga", "acgtaggctagcttagca"],
         taxids=[4, 5, 2], taxo=[[1, 1], [2, 1], [3, 2], [4, 3], [5, 3]], index=True, tag="corpus:fixed-findclosests"),
    # IndexSequence (fixed): indexing ref 1 (cgtcc, taxon 4): candidate cgtcctataaa (11 bases) made the scan stop before the
    # identical sequence of taxon 2 was seen: distance 0 was mapped to taxon 4 instead of LCA(4, 2) = 1.
    dict(q="cgtccta", refs=["tccta", "cgtcc", "cgtcc", "cgtacctccta", "cgtcctataaa", "cgtcct"], taxids=[1, 4, 2, 4, 2, 1],
         taxo=[[1, 1], [2, 1], [3, 1], [4, 3]], index=True, tag="corpus:fixed-indexsequence"),
    # boundary cases: single reference; query identical to a reference; duplicates of different taxa; 4-base sequences
    # 4-mer counters: query with 258 a, a reference with 259 a (distance 1, 'aaaa' x 256) and one with two substitutions (distance 2)
    dict(q="cgtcatg" + "a" * 258 + "gtcagct", refs=["cgtcatg" + "a" * 259 + "gtcagct", "cgtgatg" + "a" * 258 + "gtcacct"], taxids=[2, 3],
         taxo=[[1, 1], [2, 1], [3, 1]], index=True, tag="corpus:boundary-4mer-count-256"),
    # observed distance 4 = |gccg| (best match, taxon 4): index of gccg = {0: 4, 1: 3}; gccggaca (taxon 2, LCA with gccg = root) is at distance 4
    # of gccg but no distance >= |gccg| is recorded: assigned 3 (labelled observation lookup_beyond_reference_length; C15_lookup_beyond_length_witness)
    dict(q="tttggccg", refs=["gccggaca", "gccg", "gctcg", "gccggagtt"], taxids=[2, 4, 3, 2], taxo=[[1, 1], [2, 1], [3, 1], [4, 3], [5, 1], [6, 2]],
         index=True, tag="corpus:lookup-beyond-length"),
    # seed B of round 1 (dropped reset of bestidxs): the first-ranked candidate (query + tail) is not a closest reference
    dict(q="acgtagctaggatccagtcatgca", refs=["acgtagctaggatccagtcatgcattgacca", "acgtagctacgatccagtgatgca"], taxids=[3, 2],
         taxo=[[1, 1], [2, 1], [3, 1]], index=True, tag="corpus:idx-pairs-with-bests"),
    dict(q="acgt", refs=["acgt"], taxids=[1], taxo=[[1, 1]], index=True, tag="corpus:boundary"),
    dict(q="acgtacgtac", refs=["acgtacgtac", "acgtacgtac", "acgtacgtaa"], taxids=[3, 4, 2], taxo=[[1, 1], [2, 1], [3, 2], [4, 2]], index=True, tag="corpus:boundary"),
    dict(q="aaaaaaaa", refs=["aaaaaaa", "aaaaaaaaa", "aaaa", "cccccccc"], taxids=[2, 3, 1, 3], taxo=[[1, 1], [2, 1], [3, 2]], index=True, tag="corpus:boundary"),
    dict(q="ac", refs=["acgtt", "ca", "a"], taxids=[1, 2, 2], taxo=[[1, 1], [2, 1]], index=True, tag="corpus:boundary"),
    # obitag2 `case 0` (byte equality once the best distance is 0): the identical reference is scanned first (rank 0), then a
    # different reference of the same length that passes the prefilter (|q| <= 3: threshold 0; 8 bases: same 4-mer multiset)
    dict(q="acg", refs=["tcg", "acg"], taxids=[2, 3], taxo=[[1, 1], [2, 1], [3, 1]], index=True, tag="corpus:boundary-best-0-then-same-length"),
    dict(q="ac", refs=["ca", "aa", "ac"], taxids=[2, 3, 3], taxo=[[1, 1], [2, 1], [3, 1]], index=True, tag="corpus:boundary-best-0-then-same-length"),
    dict(q="acg", refs=["acg", "ac", "acgt", "cgt", "tcg"], taxids=[2, 3, 1, 3, 2], taxo=[[1, 1], [2, 1], [3, 2]], index=True, tag="corpus:boundary-3-bases"),
]


def acgt_only(c):
    return all(set(s) <= set(ACGT) for s in [c["q"]] + c["refs"])


# --------------------------------------------------------------------------- taxonomy helpers (independent of the code)
def path_of(parent, t):
    p = [t]
    while parent[t] != t:
        t = parent[t]
        p.append(t)
    return p          # taxon ... root


def lca2(parent, a, b):
    pa = path_of(parent, a)
    sb = set(path_of(parent, b))
    for x in pa:
        if x in sb:
            return x
    raise ValueError("no common ancestor")


def lca_all(parent, ts):
    ts = list(ts)
    r = ts[0]
    for t in ts[1:]:
        r = lca2(parent, r, t)
    return r


def is_anc(parent, a, t):
    return a in path_of(parent, t)


# --------------------------------------------------------------------------- direct oracle
def oracle(c, o):
    """Executable statement of the property on one observation. Returns list of (name, detail)."""
    bad = []
    n = len(c["refs"])
    d = [a - l for (l, a) in o["qd"]]
    dmin = min(d)
    best = sorted(i for i in range(n) if d[i] == dmin)
    for name, key in (("FindClosests", "fc"), ("obitag2.FindClosests", "fc2")):
        fc = o[key]
        if fc["kind"] != "ok":
            bad.append((key, dict(what=name + (" does not return" if fc["kind"] == "timeout" else " panics"), got=fc)))
            continue
        if not fc.get("pairok", True):
            bad.append((key, dict(what=name + ": the returned indices do not pair with the returned best sequences (bests[i] must be references[idx[i]]: "
                                  "Identify indexes references[idx[i]] and reads the index of bests[i])",
                                  got=dict(idx=fc["idxs"], bests=fc.get("bestids")))))
        if sorted(fc["idxs"]) != best or fc["maxe"] != dmin or len(set(fc["idxs"])) != len(fc["idxs"]):
            bad.append((key, dict(what=name + " does not return the references at minimal distance (all ties) and that distance",
                                  got=dict(best=sorted(fc["idxs"]), distance=fc["maxe"]),
                                  expected=dict(best=best, distance=dmin), distances=d, shared_4mers=o["cw"])))
    # the q-gram bound itself, on the real Common4Mer and the real kernel (C15_qgram_bound)
    for i in range(n):
        if o["cw"][i] < max(len(c["q"]), len(c["refs"][i])) - 3 - 4 * d[i]:
            bad.append(("qgram", dict(what="a reference at distance d shares fewer than max(len)-3-4d 4-mers with the query (Common4Mer / kernel)",
                                      ref=i, shared=o["cw"][i], distance=d[i])))
    if c.get("index"):
        parent = {t: p for t, p in c["taxo"]}
        tx = c["taxids"]
        for i in range(n):
            if o["idxkind"][i] != "ok":
                bad.append(("index", dict(what="IndexSequence " + ("does not return" if o["idxkind"][i] == "timeout" else "panics"), ref=i)))
                continue
            idx = {int(k): v for k, v in o["index"][i].items()}
            rd = o["rd"][i]
            exp = {}
            for k in sorted(idx):
                exp[k] = lca_all(parent, [tx[j] for j in range(n) if rd[j] <= k])
            # (a) every recorded distance maps to the LCA of the taxa of all references within that distance
            # (b) lookup "largest recorded distance <= e" gives the LCA of all references within e, for every e >= 0
            #     (distances beyond the reference length are never recorded: the code then answers the root... see Identify)
            ok = idx == exp and 0 in idx      # C15_index_has_distance_0: the reference itself is never pruned
            look = {}
            # distances >= |reference| are never recorded by IndexSequence (`old := lseq`): for EVERY observed distance e the
            # lookup answers the LCA of all references within min(e, |reference|-1) (C15_index_lookup_all_distances)
            for e in range(0, max(len(c["refs"][i]), max(rd)) + 2):
                ks = [k for k in idx if k <= e]
                want = lca_all(parent, [tx[j] for j in range(n) if rd[j] <= min(e, len(c["refs"][i]) - 1)])
                got = idx[max(ks)] if ks else None
                look[e] = (got, want)
                # (an index that also recorded distances >= |reference| would answer the LCA of all references within e: accepted too)
                if got != want and got != lca_all(parent, [tx[j] for j in range(n) if rd[j] <= e]):
                    ok = False
            if not ok:
                bad.append(("index", dict(what="IndexSequence: a recorded distance is not mapped to the LCA of the taxa of all references within it",
                                          ref=i, index=idx, expected_at_recorded=exp, ref_distances=rd, taxids=tx,
                                          lookup_got_want={e: v for e, v in look.items() if v[0] != v[1]})))
        if o["idkind"] != "ok":
            bad.append(("identify", dict(what="Identify " + ("does not return (lookup loop)" if o["idkind"] == "timeout" else "panics"), err=o.get("iderr"))))
        else:
            t = o["taxid"]
            if o["taxid2"] != t:
                bad.append(("identify", dict(what="Identify answers differently on a database indexed beforehand (index read back with string keys) and on a lazily indexed one",
                                             lazily_indexed=t, pre_indexed=o["taxid2"])))
            # exact value (composition of the index / lookup statements): LCA over the best matches b of the LCA of
            # all references within the observed distance of b; root when the best identity is below 0.5
            ident = max(o["qd"][j][0] / o["qd"][j][1] for j in best)
            if ident < 0.5:
                want = 1
            else:
                # for every observed distance (C15_index_lookup_all_distances): references within min(distance, |best match| - 1)
                want = lca_all(parent, [tx[j] for b in best for j in range(n) if o["rd"][b][j] <= min(dmin, len(c["refs"][b]) - 1)])
            want_all = want if ident < 0.5 else lca_all(parent, [tx[j] for b in best for j in range(n) if o["rd"][b][j] <= dmin])
            if t != want and t != want_all:
                bad.append(("identify", dict(what="assigned taxon is not the LCA of the taxa of all references within min(observed distance, |best match| - 1) of the best matches",
                                             assigned=t, expected=want, best=best, distance=dmin)))
            # the loader of the command (CLIAssignTaxonomy: tables, taxa, references of unknown taxid discarded) must hand the
            # search the same database: same taxon as Identify called on the database directly
            ck = o.get("clikind")
            if ck and ck != "ok":
                bad.append(("identify", dict(what="obitag.CLIAssignTaxonomy on the same database plus one reference of unknown taxid: " + ck)))
            elif ck == "ok" and o.get("taxid3") != t:
                bad.append(("identify", dict(what="obitag.CLIAssignTaxonomy (database loader of the command; one more reference whose taxid is unknown to the "
                                             "taxonomy, discarded with a warning) does not assign the taxon Identify assigns on the same references",
                                             assigned_by_command=o.get("taxid3"), best_match_of_command=o.get("best3"), assigned_by_identify=t, best=best, distance=dmin)))
            if t not in parent or not all(is_anc(parent, t, tx[j]) for j in best):
                bad.append(("identify", dict(what="assigned taxon is not an ancestor-or-self of the taxon of every best match",
                                             assigned=t, best=best, best_taxids=[tx[j] for j in best])))
    return bad


# --------------------------------------------------------------------------- rendering for the Coq model
IMPORTS = ("From Coq Require Import NArith List Bool Arith. Import ListNotations.\n"
           "From OBI.C15 Require Import Model.")


def nl(l):
    return "[" + ";".join(str(int(x)) for x in l) + "]"


def bl(s):
    return "[" + ";".join(str(b) for b in s.encode()) + "]%N"


def pl(l):
    return "[" + ";".join("(%d,%d)" % (a, b) for a, b in l) + "]"


def fobs_term(fc):
    if fc["kind"] != "ok" or fc["maxe"] < 0:
        return "FPanic"
    return "(FOk %s %d %d)" % (nl(fc["idxs"]), fc["maxe"], int(fc["bestmatch"][1:]))


def case_term(c, o):
    idx = c.get("index") and all(k == "ok" for k in o["idxkind"]) and o["idkind"] == "ok"
    if c.get("index") and not idx:
        oi, taxid = "[]", 0          # a panic inside indexing: the model has no such outcome -> mismatch
    elif idx:
        oi = "[" + ";".join(pl(sorted(((int(k), v) for k, v in m.items()), reverse=True)) for m in o["index"]) + "]"
        taxid = o["taxid"]
    else:
        oi, taxid = "[]", 0
    return "mkc %s [%s] %s %s %s %s %s [%s] [%s] %s %s %s %s %d" % (
        bl(c["q"]), ";".join(bl(r) for r in c["refs"]), nl(c["taxids"]), pl(c["taxo"]),
        nl(o["order"]), pl(o["qd"]),
        "true" if c.get("index") else "false",
        ";".join(nl(r) for r in (o.get("rorder") or [])), ";".join(nl(r) for r in (o.get("rd") or [])),
        nl(o["cw"]), fobs_term(o["fc"]), fobs_term(o["fc2"]), oi, max(taxid, 0))


# --------------------------------------------------------------------------- evaluation
KNOWN_CAP = "obitag2-1000-candidates"


def strip(c):
    return {k: c[k] for k in ("q", "refs", "taxids", "taxo", "index")}


def evaluate(ctx, cases, broken, label, report=True, corr=True):
    obs = ctx.vh_robust("c15", [strip(c) for c in cases], timeout=240 if ctx.quick else 1200, one_timeout=20)
    stats = dict(kernel_inconsistent=0, outside_guard=0, outside_guard_differs=0, oracle_failures=0)
    usable = []
    outside = []
    nviol = 0
    for i, (c, o) in enumerate(zip(cases, obs)):
        if o.get("kind") != "ok":
            if report:
                ctx.violation("%s_crash_%d" % (label, i), dict(property="C15", kind="harness-crash", case=strip(c), implementation=o))
            stats["oracle_failures"] += 1
            continue
        if not acgt_only(c):
            # labelled observation, outside the guard acgt_only: completeness can fail (never a violation); what is PROVED without the
            # guard is checked: C15_search_prefix_exact (every reported best is at the reported distance, which is never below the true
            # minimum) and C15_iupac_bound (shared 4-mers >= max(len) - 3 - 4 (d + amb), amb <= number of non-acgt symbols of the pair)
            stats["outside_guard"] += 1
            if any(k[0] in ("fc", "fc2") for k in oracle(c, o)):
                stats["outside_guard_differs"] += 1
                stats.setdefault("outside_guard_example", dict(case=strip(c), best=o["fc"], distances=[a - l for l, a in o["qd"]], shared_4mers=o["cw"]))
            dd = [a - l for l, a in o["qd"]]
            unsound = []
            for key in ("fc", "fc2"):
                fc = o[key]
                if fc["kind"] != "ok" or fc["maxe"] < min(dd) or any(dd[j] != fc["maxe"] for j in fc["idxs"]) or not fc.get("pairok", True) \
                        or len(fc["idxs"]) != len(set(fc["idxs"])):
                    unsound.append(dict(where=key, got=fc, distances=dd))
            namb = lambda x: sum(1 for ch in x if ch not in ACGT)
            for j, r in enumerate(c["refs"]):
                if o["cw"][j] < max(len(c["q"]), len(r)) - 3 - 4 * (dd[j] + namb(c["q"]) + namb(r)):
                    unsound.append(dict(where="iupac-bound", ref=j, shared=o["cw"][j], distance=dd[j], ambiguous_symbols=namb(c["q"]) + namb(r)))
            if unsound and o["kok"]:
                stats["oracle_failures"] += 1
                if report:
                    ctx.violation("%s_outside_guard_%d" % (label, i), dict(property="C15", kind="direct-oracle", case=strip(c), tag=c.get("tag"),
                                  what="outside acgt_only the scan must still be exact over a prefix of the candidate order (C15_search_prefix_exact) and obey C15_iupac_bound",
                                  failures=unsound))
            elif o["kok"]:
                outside.append(i)
            continue
        if not o["kok"]:
            # the kernels disagree with each other on a pair: property C09's business; set the case aside
            stats["kernel_inconsistent"] += 1
            stats.setdefault("kernel_inconsistent_example", o["kbad"])
            continue
        if c.get("index") and o.get("idkind") == "ok":
            dd = [a - l for l, a in o["qd"]]
            if any(min(dd) >= len(c["refs"][b]) for b in range(len(dd)) if dd[b] == min(dd)):
                # labelled observation: observed distance >= |best reference|: IndexSequence records no such distance
                stats["lookup_beyond_reference_length"] = stats.get("lookup_beyond_reference_length", 0) + 1
                bb = [b for b in range(len(dd)) if dd[b] == min(dd)]
                if max(o["qd"][j][0] / o["qd"][j][1] for j in bb) >= 0.5:
                    par = {t: p for t, p in c["taxo"]}
                    allw = lca_all(par, [c["taxids"][j] for b in bb for j in range(len(dd)) if o["rd"][b][j] <= min(dd)])
                    if allw != o.get("taxid"):
                        stats["lookup_beyond_more_specific"] = stats.get("lookup_beyond_more_specific", 0) + 1
                        stats.setdefault("lookup_beyond_example", dict(q=c["q"], refs=c["refs"], taxids=c["taxids"], taxo=c["taxo"], distance=min(dd), assigned=o.get("taxid"),
                                                                       lca_of_all_references_within_distance=allw))
        fails = oracle(c, o)
        if c.get("tag") == "corpus:" + KNOWN_CAP and o["fc2"]["kind"] == "ok":
            pb, pm = cap_prefix_answer(o)
            if sorted(o["fc2"]["idxs"]) != pb or o["fc2"]["maxe"] != pm or not fails:
                # the cap is not where the model (and the theorem) say it is
                fails = fails + [("fc2", dict(what="obitag2.FindClosests: the answer is not the exact answer over the candidates of rank 0..1000 (the closest reference has rank %d)" % (len(c["refs"]) - 1),
                                              got=dict(n_best=len(o["fc2"]["idxs"]), distance=o["fc2"]["maxe"]), expected=dict(n_best=len(pb), distance=pm))),
                                 ("cap", dict(what="position of the scan cap"))]
        if fails and c.get("tag") == "corpus:" + KNOWN_CAP and all(k == "fc2" for k, _ in fails) and ctx.kf_match(KNOWN_CAP):
            ctx.known(KNOWN_CAP, "obitag2.FindClosests gives up after 1001 candidates: with more references than that the closest one can be missed (witness: 1001 references sharing more 4-mers than the single reference at distance 1, which has rank 1001; with 1000 such references it has rank 1000 and is found)")
            continue
        if fails:
            stats["oracle_failures"] += 1
            nviol += 1
            if report and nviol <= 3:
                ctx.violation("%s_oracle_%d" % (label, i), dict(property="C15", kind="direct-oracle", case=strip(c), tag=c.get("tag"),
                                                              failures=[dict(where=k, **d) for k, d in fails],
                                                              implementation=dict(fc=o["fc"], fc2=o["fc2"], index=o.get("index"), taxid=o.get("taxid"))))
            continue
        usable.append(i)
    mism = []
    if corr and usable:
        big = [i for i in usable if len(cases[i]["refs"]) > 100]
        usable = [i for i in usable if i not in set(big)]
        # outside-guard cases go through the correspondence too (the model does not depend on the guard), search part only
        usable = usable + outside
        bad, err = ctx.correspond(label, IMPORTS, [case_term(cases[i] if i not in set(outside) else dict(cases[i], index=False), obs[i]) for i in usable], shard=40 if ctx.quick else 20)
        if bad is None:
            broken.append(dict(kind="correspondence", detail=err))
        else:
            mism = [usable[i] for i in bad]
    return obs, mism, stats


def nontrivial(c, o):
    """non-trivial = at least two references, and the 4-mer prefilter had something to decide:
    either a tie at the best distance or a reference that is not a best match"""
    if o.get("kind") != "ok" or len(c["refs"]) < 2:
        return False
    d = [a - l for l, a in o["qd"]]
    return True if d.count(min(d)) > 1 or max(d) > min(d) else False


def run(ctx, broken):
    rng = ctx.rng
    n_idx, n_big, n_amb = (260, 12, 60) if ctx.quick else (6000, 300, 1500)
    cases = [dict(c) for c in CORPUS] + corpus_cap(rng)
    cases += [gen_case(rng, index=True) for _ in range(n_idx)]
    cases += [gen_case(rng, index=(k % 4 == 0), big=True) for k in range(n_big)]
    cases += [gen_iupac_case(rng) for _ in range(n_amb)]
    cases += [gen_lowcomplexity_case(rng) for _ in range(4 if ctx.quick else 80)]
    cases += [gen_beyond_case(rng) for _ in range(40 if ctx.quick else 800)]
    tf = table_failures(ctx._c15_tables) if getattr(ctx, "_c15_tables", None) else ["tables not dumped (regen failed)"]
    ctx.cov["regenerated_tables"] = dict(base_code=getattr(ctx, "_c15_tables", {}).get("base_code"), cell_bits=getattr(ctx, "_c15_tables", {}).get("cell_bits"),
                                         failures=tf)
    if tf:
        ctx.violation("tables", dict(property="C15", kind="direct-oracle", what="base-code table of Encode4mer / Table4mer cell width", failures=tf,
                                     tables=getattr(ctx, "_c15_tables", None)))
    wrap_stats = run_wrap(ctx)
    obs, mism, stats = evaluate(ctx, cases, broken, "main")
    ctx.cov["evaluations"] = len(cases)
    ctx.cov["distinct_nontrivial"] = len({json.dumps(strip(c), sort_keys=True) for c, o in zip(cases, obs) if nontrivial(c, o)})
    ctx.cov["rule"] = ("case = (query, reference set, taxonomy, taxid of each reference); non-trivial = >= 2 references and either a tie at "
                       "the best distance or a reference that is not a best match; distinct = distinct case")
    dist = {}
    for c, o in zip(cases, obs):
        k = c.get("tag", "?").split(":")[0]
        dist[k] = dist.get(k, 0) + 1
    ties = sum(1 for c, o in zip(cases, obs) if o.get("kind") == "ok" and [a - l for l, a in o["qd"]].count(min(a - l for l, a in o["qd"])) > 1)
    ctx.cov["distribution"] = dict(kinds=dist, with_ties_at_best=ties, indexed=sum(1 for c in cases if c.get("index")),
                                   refs_per_case=dict(min=min(len(c["refs"]) for c in cases), max=max(len(c["refs"]) for c in cases)),
                                   pairs_compared_by_real_kernels=sum(len(c["refs"]) * (1 + (len(c["refs"]) if c.get("index") else 0)) for c in cases))
    ctx.cov["observations"] = dict(
        outside_guard_acgt_only=dict(cases=stats["outside_guard"], search_differs_from_brute_force=stats["outside_guard_differs"],
                                     example=stats.get("outside_guard_example"),
                                     note="IUPAC codes: the kernels match ambiguous symbols, the 4-mer code maps them to 'a'; reported, not a violation"),
        lookup_beyond_reference_length=dict(cases=stats.get("lookup_beyond_reference_length", 0),
                                            assigned_more_specific_than_lca_of_all_within_distance=stats.get("lookup_beyond_more_specific", 0),
                                            example=stats.get("lookup_beyond_example"),
                                            note="best distance e >= length of a best reference b: IndexSequence records no distance >= |b| (old := lseq), Identify answers the entry for |b|-1 "
                                                 "= LCA of the references within |b|-1 of b (C15_index_lookup_all_distances, checked as an oracle on every case). When another reference lies "
                                                 "within e but not within |b|-1 of b the assigned taxon is more specific than the LCA of all references within e; it is still an ancestor-or-self "
                                                 "of every best match: neither clause of the property is violated (C15_lookup_beyond_length_witness). Reported, not a violation."),
        counter_wrap=wrap_stats,
        kernel_inconsistent=dict(cases=stats["kernel_inconsistent"], example=stats.get("kernel_inconsistent_example"),
                                 note="bounded kernel / D1Or0 disagree with the unbounded kernel on some pair (property C09): case set aside"))
    ctx.samples = [dict(case=strip(c), best=o.get("fc"), taxid=o.get("taxid")) for c, o in list(zip(cases, obs))[:2] + list(zip(cases, obs))[60:63]]
    ctx.cov["model_vs_impl_mismatches"] = len(mism)
    if mism and not ctx.violations:
        more = [gen_case(rng, index=True) for _ in range(3000)]
        evaluate(ctx, more, [], "search", corr=False)
        if not ctx.violations:
            i = mism[0]
            broken.append(dict(kind="correspondence", name="corr:C15/search-index-taxid", first_diverging_case=strip(cases[i]),
                               implementation=dict(fc=obs[i]["fc"], fc2=obs[i]["fc2"], index=obs[i].get("index"), taxid=obs[i].get("taxid"),
                                                   order=obs[i]["order"], cw=obs[i]["cw"]), n_diverging=len(mism)))
    elif mism:
        ctx.cov["note"] = "model and implementation diverge on %d cases (violations reported by the direct oracle)" % len(mism)


KNOWN_WRAP = "search-4mer-count-wrap"


def run_wrap(ctx):
    """uint16 cells of Table4mer. Control just inside the guard (a 4-mer occurring 65535 times: the q-gram bound must hold on the real
    tables) and the witness beyond it (65536 occurrences: the cell wraps to 0). Distances are established by the real D1Or0 (linear); the
    unbounded kernel is quadratic and packs path lengths in 16 bits, FindClosests itself is only run in the thorough tier (one alignment of
    two 65 kb sequences, ~25 s)."""
    inside = dict(kind="wrap", q="a" * 65537, refs=["a" * 65538, "c" + "a" * 65535 + "c"])
    beyond = dict(kind="wrap", q="a" * 65538, refs=["a" * 65539, "c" + "a" * 65536 + "c"], full=not ctx.quick)
    obs = ctx.vh_robust("c15", [inside, beyond], timeout=600, one_timeout=300)
    st = dict(note="Table4mer cells are uint16: a 4-mer occurring 65536 times wraps to 0; inside the guard (65535 occurrences) the bound must hold, "
                   "beyond it the known finding C15/" + KNOWN_WRAP + " is exhibited on the real tables (C15_qgram_wrapped_refuted, C15_search_wrapped_refuted)")
    for name, c, o in (("inside_guard", inside, obs[0]), ("beyond_guard", beyond, obs[1])):
        if o.get("kind") != "wrap":
            ctx.violation("wrap_" + name + "_crash", dict(property="C15", kind="harness-crash", case=dict(kind="wrap", q_len=len(c["q"]), refs_len=[len(r) for r in c["refs"]]), implementation=o))
            continue
        fails = []
        for i, r in enumerate(c["refs"]):
            d = o["d1"][i]
            if d >= 0 and o["cw"][i] < max(len(c["q"]), len(r)) - 3 - 4 * d:
                fails.append(dict(ref=i, ref_len=len(r), distance_by_D1Or0=d, shared_4mers_by_Common4Mer=o["cw"][i], bound=max(len(c["q"]), len(r)) - 3 - 4 * d))
        fc = o.get("fc")
        lost = bool(fc) and fc.get("kind") == "ok" and 0 not in fc.get("idxs", [])
        st[name] = dict(q_len=len(c["q"]), refs_len=[len(r) for r in c["refs"]], shared_4mers=o["cw"], self_shared_4mers=o["self"], d1or0=o["d1"],
                        bound_failures=fails, find_closests=fc, closest_reference_lost=lost if fc else "not run (quick tier)")
        if name == "inside_guard" and fails:
            ctx.violation("wrap_inside_guard", dict(property="C15", kind="direct-oracle", what="q-gram bound fails on the real Count4Mer/Common4Mer although no 4-mer occurs 65536 times",
                                                   case=dict(kind="wrap", q="a*%d" % len(c["q"]), refs=["a*65538", "c a*65535 c"]), failures=fails))
        if name == "beyond_guard":
            if fails or lost:
                if ctx.kf_match(KNOWN_WRAP):
                    ctx.known(KNOWN_WRAP, "a 4-mer occurring 65536 times wraps its uint16 cell to 0: query a^65538 and reference a^65539 (one insertion apart) share 0 4-mers by "
                                          "Common4Mer, below the pruning threshold: FindClosests / IndexSequence never look at that reference")
                else:
                    ctx.violation("wrap_beyond_guard", dict(property="C15", kind="direct-oracle", what="4-mer counter wrap: closest reference pruned", failures=fails, find_closests=fc))
    return st


def corpus_cap(rng):
    """obitag2.FindClosests never looks at candidates of rank > 1000 (C15_search2_lossless_iff_no_closest_beyond_rank_1000): the single
    closest reference shares fewer 4-mers than all the others, so its rank is n-1: n = 1001 -> rank 1000, still found (plain oracle);
    n = 1002 -> rank 1001, lost (known finding). In the lost cases the answer must be EXACTLY the brute-force answer over
    the candidates of rank 0..1000 of the code's own order (checked in evaluate)."""
    r = __import__("random").Random(15)
    q = "acgtagctaggatcc"
    pool = set()
    while len(pool) < 1001:
        pool.add(rseq(r, r.randrange(2, 4)) + q + rseq(r, r.randrange(2, 4)))
    pool = sorted(pool)
    close = q[:7] + ("t" if q[7] != "t" else "g") + q[8:]      # one substitution: distance 1, shares 4 fewer 4-mers than all the others
    out = []
    for n, tag in ((1000, "corpus:cap-rank-1000-found"), (1001, "corpus:" + KNOWN_CAP)):
        refs = pool[:n] + [close]
        out.append(dict(q=q, refs=refs, taxids=[1] * len(refs), taxo=[[1, 1]], index=False, tag=tag))
    return out


def cap_prefix_answer(o):
    """brute force over the candidates of rank 0..1000 in the order the code computed"""
    d = [a - l for l, a in o["qd"]]
    pre = o["order"][:1001]
    m = min(d[i] for i in pre)
    return sorted(i for i in pre if d[i] == m), m


def replay(ctx, rp):
    c = rp.get("case") or rp.get("broken", [{}])[0].get("first_diverging_case")
    if rp.get("tables") is not None or (c and c.get("kind") == "wrap"):
        # regenerated tables / counter-width cases: dump the tables of the current build and re-run the two wrap cases
        regen(ctx)
        print("replay: tables of the current build:", json.dumps(ctx._c15_tables))
        print("  table failures:", table_failures(ctx._c15_tables))
        print("  counter cells:", json.dumps(run_wrap(ctx), default=str)[:3000])
        return
    if not c:
        print("replay: no case in the replay file (proof obligation / build failure):", json.dumps(rp)[:2000])
        return
    c = dict(c, tag=rp.get("tag", "replay"))
    obs, mism, stats = evaluate(ctx, [c], [], "replay", report=False)
    o = obs[0]
    print("replay: q=%s refs=%s" % (c["q"], c["refs"] if len(c["refs"]) < 20 else "(%d refs)" % len(c["refs"])))
    print("  implementation: FindClosests ->", o.get("fc"), "; obitag2 ->", o.get("fc2"), "; index ->", o.get("index"), "; taxid ->", o.get("taxid"))
    if o.get("kind") == "ok":
        print("  brute force distances:", [a - l for l, a in o["qd"]], "shared 4-mers:", o["cw"])
        for k, d in oracle(c, o):
            print("  ORACLE FAILS:", k, json.dumps(d, default=str))
    print("  model:", "mismatch" if mism else "agrees")
