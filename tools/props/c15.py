"""C15 — assignment search is lossless: k-mer prefilters never change the answer."""
import json
import os

PROPS = ["C15/Props.v"]
META = dict(
    text="Rocq theorems over an executable model of Encode4mer/Count4Mer/Common4Mer (base-code table and counter width REGENERATED from the build "
         "on every run and re-proved: C15/Gen/Tables.v), the FindClosests scan (maxe, wordmin, bests; obitag and obitag2) and the IndexSequence / "
         "Identify tables: the q-gram bound (d single-symbol edits leave at least max(|s|,|t|)-3-4d shared 4-mers) is proved for all sequences, and "
         "for the WRAPPED uint16 counters the code really uses under the explicit guard 'no 4-mer occurs 2^16 times or more'; hence the scan pruned "
         "with the threshold |query|-3-4*maxe returns exactly the references at minimal kernel distance, all ties included, and that distance, for "
         "every candidate order sorted by shared 4-mers; whatever the counts / symbols / cap, the answer is the exact answer over a non-empty prefix "
         "of the candidate order; obitag2 (cap `i > 1000`) is lossless IF AND ONLY IF no closest reference has rank > 1000; every recorded index "
         "distance gives the LCA of the taxa of all references within it, IndexSequence always records distance 0, and the lookup loops of Identify "
         "(modelled exactly, 'horrible hack' branch and spinning included) return for EVERY observed distance e the LCA of the references within "
         "min(e, |reference|-1); the taxon written by Identify is an ancestor-or-self of the taxon of every best match. Every run ties the model to "
         "the real obitag.FindClosests / obitag2.FindClosests / obirefidx.IndexSequence / obitag.Identify (lazily indexed AND pre-indexed database) "
         "/ Common4Mer on random and adversarial databases x queries x random taxonomies (vm_compute on the same inputs, IUPAC cases included) and "
         "checks the real functions against a brute force over ALL references with the real kernels; the returned idx are checked to pair with the "
         "returned bests. Round 3: the BUILT COMMANDS are run on files and compared with the judged in-process runs: obirefidx (index of every reference, "
         "references of unknown taxid discarded wherever they sit, stale obitag_ref_index annotations overwritten, several worker chunks), obitag on the raw "
         "database (index built lazily, shared by the workers, --save-db) and on the database written by obirefidx, several queries per run (already "
         "annotated by a previous run, upper case, stdin, --max-cpu), obireffamidx (family_taxid, reffamidx_in = IndexSequence over the family, "
         "obitag_ref_index = IndexSequence over the cluster heads) and obitag2 (exact-match rule; cluster pass then family pass recomputed from brute-force "
         "distances); obitag.CLIAssignTaxonomy in process with the unknown reference first / middle / last / absent. The two database loaders are modelled "
         "as the in-place compaction loops they are and proved to keep exactly the references of known taxid, in order, each with its own 4-mer table and "
         "taxon and no nil taxon (C15_loader_obitag_compacts, C15_loader_obirefidx_compacts; the unrepaired obitag loop leaves a nil taxon when the last "
         "reference is unknown: C15_loader_obitag_orig_refuted, panic exhibited and repaired). MatchDistanceIndex (obitag, obitag2) is executed on every real "
         "index, tied to its model by the correspondence and proved sound for the property (its answer is an ancestor of every reference within the observed "
         "distance, and of the answer of Identify's own lookup: C15_match_distance_index_sound / _coarser). The model loaders are evaluated on the layout of "
         "every database given to the commands and must keep exactly the references the obirefidx command keeps (loader_mismatches); the exact-match rule "
         "of obitag2 is modelled (exact_taxon: LCA of the taxa of all byte-identical references, C15_obitag2_exact_match_is_lca) and compared with the "
         "command on every exact query (exact_mismatches); the worker chunks of the indexers cover every reference once (C15_index_chunks_cover).",
    note="Trusted / assumed: the LCS kernels (Section variable: the reported alilen-lcs of two acgt sequences is witnessed by that many "
         "single-symbol edits — C15_alignment_is_edit_script shows any alignment gives one; the bounded kernel / D1Or0 answer d exactly "
         "when d <= bound — cross-checked by the harness on every pair, inconsistent cases are set aside and counted) = property C09; "
         "the LCA (Section variables anc/lca with reflexivity, transitivity, greatest-lower-bound law) = property C14. Guard acgt_only: "
         "with IUPAC codes the kernels match ambiguous symbols while the 4-mer code maps them to 'a'; characterised (C15_iupac_bound: each "
         "kernel-matched column of two different symbols costs at most four 4-mers; only completeness can fail, C15_iupac_refuted; "
         "C15_search_prefix_exact still holds and is checked on those cases); what the code does there is counted under coverage.observations, "
         "never a violation. Guard cells_exact (uint16 counters): beyond it the closest reference is pruned — known finding "
         "search-4mer-count-wrap (C15_qgram_wrapped_refuted / C15_search_wrapped_refuted; exhibited on the real tables every run, on the real "
         "FindClosests in the thorough tier only: one quadratic alignment of two 65 kb sequences). Guard: reference set not empty (FindClosests "
         "indexes o[0]). Labelled observation lookup_beyond_reference_length: IndexSequence records no distance >= |reference| (`old := lseq`), "
         "so for an observed distance e >= |best match| the assigned taxon is the LCA of the references within |best match|-1 only — more specific "
         "than the LCA of all references within e, still an ancestor-or-self of every best match: neither clause of the property is violated "
         "(C15_index_lookup_all_distances, C15_lookup_beyond_length_witness); not repaired (changing `old := lseq` changes the content of every "
         "index written by obirefidx). Not compared: order of the ties, obitag_bestid / obitag_bestmatch (depend on the unstable sort). Known "
         "finding: obitag2.FindClosests stops after 1001 candidates (C15_search2_cap_refuted; sharp: "
         "C15_search2_lossless_iff_no_closest_beyond_rank_1000); obitag2 is reachable from the built command cmd/obitools/obitag2 (not documented, "
         "not in the release notes); 'the search used by obitag' = obitag.FindClosests (no cap). obitag2's second pass (family databases, "
         "BestConsensus with the reffamidx_in slot) is not modelled in Coq; round 3 executes it through the commands obireffamidx / obitag2 and judges it "
         "with the Python oracle (two passes recomputed from brute-force distances; how often the two-pass answer differs from the exhaustive one is "
         "counted under coverage.family_databases, an observation: obitag2 is a heuristic stacked on the search). obitag_match_count of obitag2 keeps the "
         "number of ties of the cluster pass (not updated after the family pass): not a clause of the property. "
         "Not exercised (anchored code outside the property, coverage report): obikmer.Index4mer / FastShiftFourMer (positions of 4-mers: used by the "
         "paired-end aligner only, property C08); obialign.FastLCSEGFScore, _samenuc and the end-gap-free / buffer-growth branches of FastLCSEGFScoreByte "
         "(kernels = property C09; obitag calls FastLCSScore only); obitax Taxonomy.LCA(sequence, threshold) / TaxonomicDistribution / AddLCAWorker "
         "(weighted LCA of obiannotate: properties C14 / C16) and the nil / error branches of TaxNode.LCA (the nil branch was the panic of the repaired "
         "loader); the geometric mode of obitag (--geometric: landmark coordinates, Euclidean distances, not the LCS search of the property) — its only "
         "anchored piece, MatchDistanceIndex, is executed on the LCS indices and judged; Identify's 'horrible hack' branch and its two Panicln (dead "
         "code on indices built by IndexSequence: C15_index_has_distance_0, C15_identify_lookup_total; a corrupt obitag_ref_index attribute is outside the "
         "quantifier). obikmer.Sum4Mer / LCS4MerBounds / Error4MerBounds have NO caller in the repository; they are executed and compared with the real "
         "kernel on every pair: their intervals are frequently wrong (coverage.observations.unused_4mer_bounds) — dead code, observation only. "
         "MatchDistanceIndex splits an entry as taxid@rank@name (its documentation) while both indexers write taxid@name@rank: rank and name come back "
         "exchanged, both callers ignore them: observation. Identify walks downwards (largest recorded distance <= observed) while MatchDistanceIndex takes "
         "the smallest recorded distance >= observed: proved to be an ancestor of Identify's answer, strictly less specific on "
         "C15_match_distance_index_strictly_coarser_witness. With u (RNA) or IUPAC codes D1Or0 (bytes) and FastLCSScore (IUPAC-compatible, u = t) "
         "disagree: outside acgt_only, such cases are generated (alphabet of gen_iupac_case includes u) and counted under outside_guard / kernel_inconsistent. "
         "obitag2 / obireffamidx do not discard references of unknown taxid (nil taxon): databases given to them hold known taxids only. "
         "--save-db after a discarded reference writes the compacted array with its last element duplicated (the slice of the caller still has the old "
         "length): the indices it carries are checked, the duplicate is outside the property.")
TRUSTED = [
    "round 3, command-level stage: the FASTA/JSON-header writer and reader of the tests (tools/props/c15.py write_fasta / parse_fasta), the synthetic NCBI dump (nodes.dmp / names.dmp written by write_taxdump) and the in-process run used as reference (itself judged by the direct oracle and the correspondence)",
    "Go slices and maps in the loader model: `for i, seq := range references` reads element i of the shared backing array at iteration i; a map[int]*TaxNode is an association list with at most one binding per key (Model.mset / mget)",
    "LCS kernels FastLCSScore / D1Or0 (property C09) are a Section variable: hypothesis kernel_edits (distance alilen-lcs of two acgt sequences = that many single-symbol edits) and Model.kern (bounded kernel / D1Or0 answer d iff d <= bound; obitag2 uses byte equality for bound 0); the harness cross-checks bounded vs unbounded kernel and D1Or0 on every pair and sets inconsistent cases aside",
    "TaxNode.Path / LCA (property C14) are Section variables anc / lca with reflexivity, transitivity and anc x (lca a b) <-> anc x a /\\ anc x b; the correspondence uses an executable path/LCA over the parent table (Model.lca_exec) and the Python oracle its own LCA",
    "the candidate order (sort.Sort is not stable) is read back from the code (obiutils.IntOrder + Reverse on the observed counts) and validated by the model as a permutation sorted by decreasing shared 4-mers",
    "C15/Gen/Tables.v (base-code table of Encode4mer through the hook obikmer.VerifC15SingleBaseCode, cell width of Table4mer through reflect) is rewritten from the current build before the Coq build; C15_base_code_table and C15_cells_are_uint16 are re-proved from it on every run",
    "sequences long enough to wrap a counter (> 65538 bases) are outside what the kernels can align (16-bit path lengths, quadratic time): for them distances come from D1Or0 only",
]

ACGT = "acgt"
TABLES_V = os.path.join(os.path.dirname(os.path.dirname(os.path.dirname(os.path.abspath(__file__)))), "coq", "theories", "C15", "Gen", "Tables.v")


# --------------------------------------------------------------------------- regenerated tables (pattern C07)
def tables_source(t):
    return ("(** GENERATED by tools/props/c15.py regen() from the CURRENT build (vh c15, case {\"kind\":\"tables\"}). Do not edit.\n"
            "    base_code_tab : obikmer.__single_base_code__ (indexed by byte & 31);\n"
            "    cell_bits     : width in bits of one obikmer.Table4mer counter; table_cells: number of counters. *)\n"
            "From Coq Require Import NArith List.\nImport ListNotations.\n\n"
            "Definition base_code_tab : list N := [%s]%%N.\n\nDefinition cell_bits : N := %d%%N.\n\nDefinition table_cells : N := %d%%N.\n"
            % ("; ".join(str(int(x)) for x in t["base_code"]), int(t["cell_bits"]), int(t["cells"])))


def regen(ctx):
    """Called by check.py before the Coq build: rewrite C15/Gen/Tables.v from the current code (write-if-changed); the theorems
    C15_base_code_table / C15_cells_are_uint16 (and everything that depends on base_code / cell_modulus) are then re-proved."""
    vh, err = ctx.build_harness()
    if vh is None:
        raise RuntimeError("harness build failed: %s" % err)
    obs, err = ctx.vh("c15", [dict(kind="tables")], timeout=60)
    if obs is None or not obs or obs[0].get("kind") != "tables":
        raise RuntimeError("vh c15 tables: %s" % (err or obs))
    t = obs[0]
    src = tables_source(t)
    os.makedirs(os.path.dirname(TABLES_V), exist_ok=True)
    old = open(TABLES_V).read() if os.path.exists(TABLES_V) else None
    if old != src:
        with open(TABLES_V, "w") as f:
            f.write(src)
        ctx.cov["tables_regenerated"] = "changed"
    else:
        ctx.cov["tables_regenerated"] = "unchanged"
    ctx._c15_tables = t


def table_failures(t):
    """executable statement of C15_base_code_table / C15_cells_are_uint16 on the dumped tables"""
    bad = []
    tab = t["base_code"]
    if len(tab) != 32:
        bad.append("base-code table has %d entries, Encode4mer indexes it with byte & 31" % len(tab))
    want = {"a": 0, "c": 1, "g": 2, "t": 3, "u": 3}
    for ch, code in want.items():
        for b in (ord(ch), ord(ch.upper())):
            if (b & 31) >= len(tab) or tab[b & 31] != code:
                bad.append("base code of %r is not %d" % (chr(b), code))
    for i, c in enumerate(tab):
        if c > 3 or (c != 0 and i not in (3, 7, 20, 21)):
            bad.append("entry %d of the base-code table is %d" % (i, c))
    if t["cell_bits"] != 16 or t["cells"] != 256:
        bad.append("Table4mer is %d cells of %d bits (the guard of the search theorems is stated for 256 x uint16)" % (t["cells"], t["cell_bits"]))
    return bad


# --------------------------------------------------------------------------- generators
def rseq(rng, n, alpha=ACGT):
    return "".join(rng.choice(alpha) for _ in range(n))


def mutate(rng, s, k, alpha=ACGT):
    s = list(s)
    for _ in range(k):
        op = rng.choice("sid")
        if op == "s" and s:
            p = rng.randrange(len(s))
            s[p] = rng.choice([c for c in alpha if c != s[p]] or list(alpha))
        elif op == "i":
            p = rng.randrange(len(s) + 1)
            s.insert(p, rng.choice(alpha))
        elif op == "d" and len(s) > 5:
            del s[rng.randrange(len(s))]
    return "".join(s)


def rtaxo(rng, n):
    """random rooted tree: taxid 1 is the root (its own parent); taxids 1..n; parent < child"""
    t = [[1, 1]]
    for i in range(2, n + 1):
        # bias to deep trees
        p = i - 1 if rng.random() < 0.45 else rng.randrange(1, i)
        t.append([i, p])
    return t


def fix_len(rng, s):
    """(round 1 avoided sequences of exactly 3 bases: Encode4mer panicked, defect repaired under C08; they are generated now)"""
    return s


def gen_case(rng, index=True, big=False):
    kind = rng.choice(["family", "family", "family", "adversarial", "adversarial", "random", "lowcomplex", "lengths", "indexadv", "indexadv", "short"])
    L = rng.choice([4, 5, 6, 7, 8, 9, 11, 15, 20, 23, 24, 30, 40]) if rng.random() < 0.5 else rng.randrange(7, 45)
    nref = rng.randrange(1, 9) if not big else rng.randrange(8, 40)
    alpha = ACGT if kind != "lowcomplex" else rng.choice(["ac", "at", "acg", "a"])
    seed = rseq(rng, L, alpha)
    refs = []
    if kind == "adversarial":
        # the query; an insertion variant (longer, keeps many 4-mers); substitution variants (same length, lose 4 each)
        q = seed
        e = rng.choice([1, 1, 1, 2, 3])
        for _ in range(nref):
            k = rng.random()
            if k < 0.35:    # e insertions near the ends
                s = q
                for _ in range(e):
                    p = rng.choice([0, len(s), rng.randrange(len(s) + 1)])
                    s = s[:p] + rng.choice(ACGT) + s[p:]
                refs.append(s)
            elif k < 0.7:   # e substitutions far apart in the middle
                s = list(q)
                for j in range(e):
                    p = min(len(s) - 1, 3 + 5 * j + rng.randrange(0, 2))
                    s[p] = rng.choice([c for c in ACGT if c != s[p]])
                refs.append("".join(s))
            elif k < 0.85:  # e deletions
                s = q
                for _ in range(e):
                    if len(s) > 5:
                        p = rng.randrange(len(s))
                        s = s[:p] + s[p + 1:]
                refs.append(s)
            else:
                refs.append(mutate(rng, q, rng.randrange(0, 5)))
    elif kind == "indexadv":
        # for IndexSequence: duplicates / near-duplicates of a short sequence under different taxa, mixed with
        # long extensions of it (share all its 4-mers, but far) that come early in the candidate order
        base = seed[:rng.randrange(4, max(5, min(len(seed), 12)))]
        for _ in range(max(3, nref)):
            k = rng.random()
            if k < 0.3:
                refs.append(base)
            elif k < 0.55:
                refs.append(mutate(rng, base, 1))
            elif k < 0.85:
                refs.append(base + rseq(rng, rng.randrange(3, 9)) if rng.random() < 0.6 else rseq(rng, rng.randrange(3, 9)) + base)
            else:
                refs.append(mutate(rng, base, rng.randrange(2, 4)))
        q = mutate(rng, base, rng.randrange(0, 3))
    elif kind == "short":
        # sequences around the 4-mer size (1..7 bases, exactly 3 included): no or very few 4-mers, thresholds at 0
        q = rseq(rng, rng.randrange(2, 8))
        refs = [rseq(rng, rng.randrange(1, 8)) if rng.random() < 0.6 else mutate(rng, q, rng.randrange(0, 3)) or "a" for _ in range(nref)]
        if rng.random() < 0.5:
            refs += [mutate(rng, q, 0), "".join(rng.sample(q, len(q)))]     # the query itself and a permutation of it (same length)
    elif kind == "random":
        q = seed
        refs = [rseq(rng, max(4, L + rng.randrange(-3, 4))) for _ in range(nref)]
    elif kind == "lengths":
        q = seed
        for _ in range(nref):
            k = rng.randrange(-4, 5)
            if k >= 0:
                p = rng.randrange(len(q) + 1)
                refs.append(q[:p] + rseq(rng, k) + q[p:])
            else:
                p = rng.randrange(len(q))
                refs.append((q[:p] + q[p - k:]) or q)
    else:
        seeds = [seed] + [mutate(rng, seed, rng.randrange(1, 6), alpha) for _ in range(rng.randrange(0, 3))]
        for _ in range(nref):
            refs.append(mutate(rng, rng.choice(seeds), rng.choice([0, 0, 1, 1, 1, 2, 2, 3, 4]), alpha))
        q = mutate(rng, rng.choice(seeds + refs), rng.choice([0, 1, 1, 2, 2, 3]), alpha)
        if rng.random() < 0.15 and refs:
            refs.append(refs[0])        # exact duplicate
    if kind != "short":
        refs = [r if len(r) >= 4 else r + rseq(rng, 4 - len(r)) for r in refs]
        q = q if len(q) >= 4 else q + rseq(rng, 4 - len(q))
    rng.shuffle(refs)
    nt = rng.randrange(1, 10)
    taxo = rtaxo(rng, nt)
    taxids = [rng.randrange(1, nt + 1) for _ in refs]
    return dict(q=q, refs=refs, taxids=taxids, taxo=taxo, index=index, tag=kind)


def gen_iupac_case(rng):
    """outside the guard acgt_only: ambiguity codes in query and references"""
    c = gen_case(rng, index=False)
    amb = "nrykmswbdhvu"      # u (RNA): same 4-mer code as t, the LCS kernel matches u with t, D1Or0 compares bytes

    def amb_some(s):
        s = list(s)
        for _ in range(rng.randrange(1, 4)):
            s[rng.randrange(len(s))] = rng.choice(amb)
        return "".join(s)
    c["q"] = amb_some(c["q"]) if rng.random() < 0.7 else c["q"]
    c["refs"] = [amb_some(r) if rng.random() < 0.5 else r for r in c["refs"]]
    c["tag"] = "iupac"
    return c


def gen_long_case(rng):
    """barcode-sized sequences (80..220 bases), a handful of references: variants of the query at 0..12 differences, one unrelated"""
    L = rng.randrange(80, 221)
    q = rseq(rng, L)
    refs = [mutate(rng, q, rng.choice([0, 1, 2, 3, 5, 8, 12])) for _ in range(rng.randrange(2, 5))] + [rseq(rng, L + rng.randrange(-10, 11))]
    if rng.random() < 0.5:
        refs.append(mutate(rng, refs[0], rng.randrange(0, 3)))
    rng.shuffle(refs)
    nt = rng.randrange(2, 8)
    return dict(q=q, refs=refs, taxids=[rng.randrange(1, nt + 1) for _ in refs], taxo=rtaxo(rng, nt), index=True, tag="long")


def gen_lowcomplexity_case(rng):
    """Low-complexity sequences (homopolymer / microsatellite runs of 250..330 units): one 4-mer occurs hundreds of times, so the
    4-mer tables hold large counts (a counter narrower than the data wraps around and the prefilter then prunes a closest reference)."""
    motif = rng.choice(["a", "c", "g", "t", "ac", "ag", "ct", "acg"])
    n = rng.randrange(250, 330)
    fl, fr = rseq(rng, rng.randrange(4, 12)), rseq(rng, rng.randrange(4, 12))
    core = (motif * n)[:n] if len(motif) > 1 and rng.random() < 0.5 else motif * n
    q = fl + core + fr
    def var(k):
        if k == "ins":
            return fl + core + motif[0] + fr
        if k == "del":
            return fl + core[1:] + fr
        if k == "sub2":
            return mutate(rng, fl, 1) + core + mutate(rng, fr, 1)
        if k == "sub1":
            return fl + core + mutate(rng, fr, 1)
        return rseq(rng, 12) + core[: len(core) // 2] + rseq(rng, 12)
    kinds = rng.sample(["ins", "del", "sub2", "sub1", "far"], rng.randrange(3, 6))
    refs = [var(k) for k in kinds]
    taxo = [[1, 1], [2, 1], [3, 2], [4, 2], [5, 1]]
    return dict(q=q, refs=refs, taxids=[rng.randrange(1, 6) for _ in refs], taxo=taxo, index=True, tag="lowcomplexity")


def gen_beyond_case(rng):
    """best reference much shorter than the query (identity still >= 0.5): the observed distance reaches the reference length,
    which IndexSequence never records; other references are extensions / variants of it under other taxa"""
    L = rng.randrange(4, 9)
    b = rseq(rng, L)
    refs = [b]
    for _ in range(rng.randrange(1, 5)):
        k = rng.random()
        if k < 0.5:
            refs.append(b + rseq(rng, rng.randrange(L, 2 * L + 1)))
        elif k < 0.7:
            refs.append(rseq(rng, rng.randrange(L, 2 * L + 1)) + b)
        else:
            refs.append(mutate(rng, b, rng.randrange(0, 3)))
    x = rseq(rng, rng.randrange(L, L + 3))
    q = rng.choice([b + x, x + b, b[:L // 2] + x + b[L // 2:]])
    refs = [fix_len(rng, r if len(r) >= 4 else r + rseq(rng, 4 - len(r))) for r in refs]
    rng.shuffle(refs)
    nt = rng.randrange(2, 7)
    return dict(q=q, refs=refs, taxids=[rng.randrange(1, nt + 1) for _ in refs], taxo=rtaxo(rng, nt), index=True, tag="beyondlength")


# minimised defect witnesses (always run first)
CORPUS = [
    # FindClosests (fixed): ref 1 (one insertion, 9 bases, 5 shared 4-mers) is found first at distance 1; with the original
    # threshold wordmin = max(8, 9)-3-4 = 2 and ref 0 (one substitution, 1 shared 4-mer) was pruned although it is a tie.
    dict(q="tcccccga", refs=["tccctcga", "tcccccgag"], taxids=[2, 3], taxo=[[1, 1], [2, 1], [3, 1]], index=True, tag="corpus:fixed-findclosests"),
    # the design-phase example: 23-base query, 24-base insertion variant found first, 23-base substitution variant pruned
    dict(q="acgtaggctagcttagcatcgga", refs=["acgtaggctagcttagcatcggat", "acgtaggctaggttagcatcgga", "acgtaggctagcttagca"],
         taxids=[4, 5, 2], taxo=[[1, 1], [2, 1], [3, 2], [4, 3], [5, 3]], index=True, tag="corpus:fixed-findclosests"),
    # IndexSequence (fixed): indexing ref 1 (cgtcc, taxon 4): candidate cgtcctataaa (11 bases) made the scan stop before the
    # identical sequence of taxon 2 was seen: distance 0 was mapped to taxon 4 instead of LCA(4, 2) = 1.
    dict(q="cgtccta", refs=["tccta", "cgtcc", "cgtcc", "cgtacctccta", "cgtcctataaa", "cgtcct"], taxids=[1, 4, 2, 4, 2, 1],
         taxo=[[1, 1], [2, 1], [3, 1], [4, 3]], index=True, tag="corpus:fixed-indexsequence"),
    # boundary cases: single reference; query identical to a reference; duplicates of different taxa; 4-base sequences
    # 4-mer counters: query with 258 a, a reference with 259 a (distance 1, 'aaaa' x 256) and one with two substitutions (distance 2)
    dict(q="cgtcatg" + "a" * 258 + "gtcagct", refs=["cgtcatg" + "a" * 259 + "gtcagct", "cgtgatg" + "a" * 258 + "gtcacct"], taxids=[2, 3],
         taxo=[[1, 1], [2, 1], [3, 1]], index=True, tag="corpus:boundary-4mer-count-256"),
    # observed distance 4 = |gccg| (best match, taxon 4): index of gccg = {0: 4, 1: 3}; gccggaca (taxon 2, LCA with gccg = root) is at distance 4
    # of gccg but no distance >= |gccg| is recorded: assigned 3 (labelled observation lookup_beyond_reference_length; C15_lookup_beyond_length_witness)
    dict(q="tttggccg", refs=["gccggaca", "gccg", "gctcg", "gccggagtt"], taxids=[2, 4, 3, 2], taxo=[[1, 1], [2, 1], [3, 1], [4, 3], [5, 1], [6, 2]],
         index=True, tag="corpus:lookup-beyond-length"),
    # seed B of round 1 (dropped reset of bestidxs): the first-ranked candidate (query + tail) is not a closest reference
    dict(q="acgtagctaggatccagtcatgca", refs=["acgtagctaggatccagtcatgcattgacca", "acgtagctacgatccagtgatgca"], taxids=[3, 2],
         taxo=[[1, 1], [2, 1], [3, 1]], index=True, tag="corpus:idx-pairs-with-bests"),
    dict(q="acgt", refs=["acgt"], taxids=[1], taxo=[[1, 1]], index=True, tag="corpus:boundary"),
    dict(q="acgtacgtac", refs=["acgtacgtac", "acgtacgtac", "acgtacgtaa"], taxids=[3, 4, 2], taxo=[[1, 1], [2, 1], [3, 2], [4, 2]], index=True, tag="corpus:boundary"),
    dict(q="aaaaaaaa", refs=["aaaaaaa", "aaaaaaaaa", "aaaa", "cccccccc"], taxids=[2, 3, 1, 3], taxo=[[1, 1], [2, 1], [3, 2]], index=True, tag="corpus:boundary"),
    dict(q="ac", refs=["acgtt", "ca", "a"], taxids=[1, 2, 2], taxo=[[1, 1], [2, 1]], index=True, tag="corpus:boundary"),
    # obitag2 `case 0` (byte equality once the best distance is 0): the identical reference is scanned first (rank 0), then a
    # different reference of the same length that passes the prefilter (|q| <= 3: threshold 0; 8 bases: same 4-mer multiset)
    dict(q="acg", refs=["tcg", "acg"], taxids=[2, 3], taxo=[[1, 1], [2, 1], [3, 1]], index=True, tag="corpus:boundary-best-0-then-same-length"),
    dict(q="ac", refs=["ca", "aa", "ac"], taxids=[2, 3, 3], taxo=[[1, 1], [2, 1], [3, 1]], index=True, tag="corpus:boundary-best-0-then-same-length"),
    dict(q="acg", refs=["acg", "ac", "acgt", "cgt", "tcg"], taxids=[2, 3, 1, 3, 2], taxo=[[1, 1], [2, 1], [3, 2]], index=True, tag="corpus:boundary-3-bases"),
]


def gen_one_to_two_case(rng):
    """The one-difference shortcut (D1Or0, active once the best distance is 0 or 1) facing references at distance 2 that look
    almost like one difference: one base of the query replaced by TWO other bases (one base longer), two adjacent bases replaced by
    ONE other base (one base shorter), a substitution next to an indel. The best reference is at distance exactly 1 and comes
    first by shared 4-mers; the decoys must not be admitted as ties."""
    L = rng.randrange(24, 70)
    q = rseq(rng, L)
    other = lambda c, n=1: "".join(rng.choice([x for x in ACGT if x != c]) for _ in range(n))
    # (a substitution near an end destroys fewer 4-mers than the decoys do: the best reference is then scanned FIRST)
    p0 = rng.choice([0, 1, L - 2, L - 1]) if rng.random() < 0.6 else rng.randrange(2, L - 2)
    best = q[:p0] + other(q[p0]) + q[p0 + 1:]                      # one substitution: distance 1
    refs = [best]
    for _ in range(rng.randrange(2, 6)):
        p = rng.randrange(1, L - 3)
        k = rng.random()
        if k < 0.4:
            refs.append(q[:p] + other(q[p], 2) + q[p + 1:])         # x -> yz   (|ref| = |q| + 1, distance 2)
        elif k < 0.7:
            refs.append(q[:p] + other(q[p]) + q[p + 2:])            # xy -> z   (|ref| = |q| - 1, distance 2) when z differs from both
        elif k < 0.85:
            refs.append(q[:p] + other(q[p]) + q[p + 1:p + 6] + q[p + 7:])   # substitution + deletion a few bases apart
        else:
            refs.append(q[:p] + rng.choice(ACGT) + q[p:])           # a true single insertion: a genuine tie at distance 1
    # the candidates are scanned by decreasing number of shared 4-mers, equal counts in DEcreasing index order: the best
    # reference is put last (scanned first among equals), first, or anywhere
    k = rng.random()
    rest = sorted(refs[1:], key=lambda r: rng.random())
    refs = rest + refs[:1] if k < 0.5 else refs[:1] + rest if k < 0.75 else sorted(refs, key=lambda r: rng.random())
    nt = rng.randrange(2, 8)
    return dict(q=q, refs=refs, taxids=[rng.randrange(1, nt + 1) for _ in refs], taxo=rtaxo(rng, nt), index=True, tag="one-to-two")


def gen_indel_tie_case(rng):
    """ties at a best distance k >= 2 made of indels of ONE kind only (|len(ref) - len(query)| = k) next to substitution-only ties; also
    RNA (u for t) and very short queries (0 / 1 symbol is not a legal sequence for the kernels: from 2)"""
    L = rng.randrange(9, 40)
    q = rseq(rng, L)
    k = rng.choice([2, 2, 3, 4])
    refs = []

    def ins(s, n, where):
        for _ in range(n):
            p = 0 if where == "head" else len(s) if where == "tail" else rng.randrange(len(s) + 1)
            s = s[:p] + rng.choice(ACGT) + s[p:]
        return s

    def dele(s, n, where):
        for _ in range(n):
            if len(s) <= 4:
                break
            p = 0 if where == "head" else len(s) - 1 if where == "tail" else rng.randrange(len(s))
            s = s[:p] + s[p + 1:]
        return s

    def subs(s, n):
        s = list(s)
        for p in rng.sample(range(len(s)), min(n, len(s))):
            s[p] = rng.choice([c for c in ACGT if c != s[p]])
        return "".join(s)
    for _ in range(rng.randrange(2, 7)):
        kind = rng.choice(["ins", "ins", "del", "del", "sub", "mix", "far"])
        where = rng.choice(["head", "tail", "any"])
        refs.append(ins(q, k, where) if kind == "ins" else dele(q, k, where) if kind == "del" else subs(q, k) if kind == "sub"
                    else mutate(rng, q, k) if kind == "mix" else mutate(rng, q, k + rng.randrange(1, 4)))
    rng.shuffle(refs)
    nt = rng.randrange(2, 8)
    return dict(q=q, refs=refs, taxids=[rng.randrange(1, nt + 1) for _ in refs], taxo=rtaxo(rng, nt), index=True, tag="indelties")


# round 3: input classes the generator could not produce
CORPUS3 = [
    # ties at distance 2: two insertions at the tail, two deletions at the head, two substitutions (lead: a length fast path with >= loses them)
    dict(q="acgtagctaggatcc", refs=["acgtagctaggatccgt", "gtagctaggatcc", "acgaagctagcatcc", "acgtagctaggatcctta"], taxids=[2, 3, 4, 2],
         taxo=[[1, 1], [2, 1], [3, 1], [4, 3]], index=True, tag="corpus:indel-only-ties"),
    dict(q="ttgacctgaagtcagga", refs=["ttgacctgaagtcaggaaaa", "gacctgaagtcagga", "ttgacctgaagtcag", "tatgacctgaagtcagga"], taxids=[2, 3, 4, 2],
         taxo=[[1, 1], [2, 1], [3, 1], [4, 3]], index=True, tag="corpus:indel-only-ties"),
    # queries of 2 symbols, references of 1 symbol, everything below the 4-mer size
    dict(q="ac", refs=["a", "c", "ac", "ca"], taxids=[2, 3, 2, 3], taxo=[[1, 1], [2, 1], [3, 1]], index=True, tag="corpus:boundary"),
    # RNA query (u), two identical DNA references of different taxa + one at distance 1: labelled observation rna_u (outside acgt_only)
    dict(q="acguagcuaggaucc", refs=["acgtagctaggatcc", "acgtagctaggatcc", "acgtagctaggaacc"], taxids=[2, 3, 3], taxo=[[1, 1], [2, 1], [3, 1]],
         index=False, tag="corpus:rna-u"),
    # empty query; empty reference (its index is empty: no distance < |reference| = 0; it can never be a best match of identity >= 0.5)
    dict(q="", refs=["acgt", "a"], taxids=[1, 2], taxo=[[1, 1], [2, 1]], index=True, tag="corpus:boundary-empty"),
    dict(q="a", refs=["acgt", "a", ""], taxids=[1, 2, 2], taxo=[[1, 1], [2, 1]], index=True, tag="corpus:boundary-empty"),
]


def acgt_only(c):
    return all(set(s) <= set(ACGT) for s in [c["q"]] + c["refs"])


# --------------------------------------------------------------------------- taxonomy helpers (independent of the code)
def path_of(parent, t):
    p = [t]
    while parent[t] != t:
        t = parent[t]
        p.append(t)
    return p          # taxon ... root


def lca2(parent, a, b):
    pa = path_of(parent, a)
    sb = set(path_of(parent, b))
    for x in pa:
        if x in sb:
            return x
    raise ValueError("no common ancestor")


def lca_all(parent, ts):
    ts = list(ts)
    r = ts[0]
    for t in ts[1:]:
        r = lca2(parent, r, t)
    return r


def is_anc(parent, a, t):
    return a in path_of(parent, t)


# --------------------------------------------------------------------------- direct oracle
def oracle(c, o):
    """Executable statement of the property on one observation. Returns list of (name, detail)."""
    bad = []
    n = len(c["refs"])
    d = [a - l for (l, a) in o["qd"]]
    dmin = min(d)
    best = sorted(i for i in range(n) if d[i] == dmin)
    for name, key in (("FindClosests", "fc"), ("obitag2.FindClosests", "fc2")):
        fc = o[key]
        if fc["kind"] != "ok":
            bad.append((key, dict(what=name + (" does not return" if fc["kind"] == "timeout" else " panics"), got=fc)))
            continue
        if not fc.get("pairok", True):
            bad.append((key, dict(what=name + ": the returned indices do not pair with the returned best sequences (bests[i] must be references[idx[i]]: "
                                  "Identify indexes references[idx[i]] and reads the index of bests[i])",
                                  got=dict(idx=fc["idxs"], bests=fc.get("bestids")))))
        if sorted(fc["idxs"]) != best or fc["maxe"] != dmin or len(set(fc["idxs"])) != len(fc["idxs"]):
            bad.append((key, dict(what=name + " does not return the references at minimal distance (all ties) and that distance",
                                  got=dict(best=sorted(fc["idxs"]), distance=fc["maxe"]),
                                  expected=dict(best=best, distance=dmin), distances=d, shared_4mers=o["cw"])))
    # the q-gram bound itself, on the real Common4Mer and the real kernel (C15_qgram_bound)
    for i in range(n):
        if o["cw"][i] < max(len(c["q"]), len(c["refs"][i])) - 3 - 4 * d[i]:
            bad.append(("qgram", dict(what="a reference at distance d shares fewer than max(len)-3-4d 4-mers with the query (Common4Mer / kernel)",
                                      ref=i, shared=o["cw"][i], distance=d[i])))
    if "sum4" in o and o["sum4"] != max(0, len(c["q"]) - 3) and len(c["q"]) < 65539:
        bad.append(("qgram", dict(what="Sum4Mer(Count4Mer(query)) is not the number of 4-mers of the query", got=o["sum4"], expected=max(0, len(c["q"]) - 3))))
    if c.get("index"):
        parent = {t: p for t, p in c["taxo"]}
        tx = c["taxids"]
        for i in range(n):
            if o["idxkind"][i] != "ok":
                bad.append(("index", dict(what="IndexSequence " + ("does not return" if o["idxkind"][i] == "timeout" else "panics"), ref=i)))
                continue
            idx = {int(k): v for k, v in o["index"][i].items()}
            rd = o["rd"][i]
            if len(c["refs"][i]) == 0:
                # an empty reference: no distance below its length (0) exists, its index is empty
                if idx:
                    bad.append(("index", dict(what="IndexSequence records a distance for an empty reference", ref=i, index=idx)))
                continue
            exp = {}
            for k in sorted(idx):
                exp[k] = lca_all(parent, [tx[j] for j in range(n) if rd[j] <= k])
            # (a) every recorded distance maps to the LCA of the taxa of all references within that distance
            # (b) lookup "largest recorded distance <= e" gives the LCA of all references within e, for every e >= 0
            #     (distances beyond the reference length are never recorded: the code then answers the root... see Identify)
            ok = idx == exp and 0 in idx      # C15_index_has_distance_0: the reference itself is never pruned
            look = {}
            # distances >= |reference| are never recorded by IndexSequence (`old := lseq`): for EVERY observed distance e the
            # lookup answers the LCA of all references within min(e, |reference|-1) (C15_index_lookup_all_distances)
            for e in range(0, max(len(c["refs"][i]), max(rd)) + 2):
                ks = [k for k in idx if k <= e]
                want = lca_all(parent, [tx[j] for j in range(n) if rd[j] <= min(e, len(c["refs"][i]) - 1)])
                got = idx[max(ks)] if ks else None
                look[e] = (got, want)
                # (an index that also recorded distances >= |reference| would answer the LCA of all references within e: accepted too)
                if got != want and got != lca_all(parent, [tx[j] for j in range(n) if rd[j] <= e]):
                    ok = False
            if not ok:
                bad.append(("index", dict(what="IndexSequence: a recorded distance is not mapped to the LCA of the taxa of all references within it",
                                          ref=i, index=idx, expected_at_recorded=exp, ref_distances=rd, taxids=tx,
                                          lookup_got_want={e: v for e, v in look.items() if v[0] != v[1]})))
            # MatchDistanceIndex (obitag and obitag2; called by the geometric mode only) on the same index: smallest recorded distance
            # >= e, the root beyond the largest one. Judged against the property: its answer must be an ancestor-or-self of the LCA
            # of the taxa of all references within e (sound, possibly less specific than Identify's own lookup)
            for key in ("mdi", "mdi2"):
                got = (o.get(key) or [None] * n)[i]
                if got is None:
                    continue
                for e, t in enumerate(got):
                    ks = [k for k in idx if k >= e]
                    want_mdi = idx[min(ks)] if ks else 1
                    within = lca_all(parent, [tx[j] for j in range(n) if rd[j] <= e])
                    if t != want_mdi or t not in parent or not is_anc(parent, t, within):
                        bad.append(("mdi", dict(what=("obitag" if key == "mdi" else "obitag2") + ".MatchDistanceIndex: not the entry of the smallest recorded distance >= "
                                                "the observed one (root beyond the largest), or not an ancestor-or-self of the LCA of all references within it",
                                                ref=i, distance=e, got=t, expected=want_mdi, lca_of_references_within=within, index=idx)))
                        break
        if o["idkind"] != "ok":
            bad.append(("identify", dict(what="Identify " + ("does not return (lookup loop)" if o["idkind"] == "timeout" else "panics"), err=o.get("iderr"))))
        else:
            t = o["taxid"]
            if o["taxid2"] != t:
                bad.append(("identify", dict(what="Identify answers differently on a database indexed beforehand (index read back with string keys) and on a lazily indexed one",
                                             lazily_indexed=t, pre_indexed=o["taxid2"])))
            # exact value (composition of the index / lookup statements): LCA over the best matches b of the LCA of
            # all references within the observed distance of b; root when the best identity is below 0.5
            ident = max(o["qd"][j][0] / o["qd"][j][1] for j in best)
            if ident < 0.5:
                want = 1
            else:
                # for every observed distance (C15_index_lookup_all_distances): references within min(distance, |best match| - 1)
                want = lca_all(parent, [tx[j] for b in best for j in range(n) if o["rd"][b][j] <= min(dmin, len(c["refs"][b]) - 1)])
            want_all = want if ident < 0.5 else lca_all(parent, [tx[j] for b in best for j in range(n) if o["rd"][b][j] <= dmin])
            if t != want and t != want_all:
                bad.append(("identify", dict(what="assigned taxon is not the LCA of the taxa of all references within min(observed distance, |best match| - 1) of the best matches",
                                             assigned=t, expected=want, best=best, distance=dmin)))
            # the loader of the command (CLIAssignTaxonomy: tables, taxa, references of unknown taxid discarded) must hand the
            # search the same database: same taxon as Identify called on the database directly
            ck = o.get("clikind")
            if ck and ck != "ok":
                bad.append(("identify", dict(what="obitag.CLIAssignTaxonomy on the same database plus one reference of unknown taxid: " + ck)))
            elif ck == "ok" and o.get("taxid3") != t:
                bad.append(("identify", dict(what="obitag.CLIAssignTaxonomy (database loader of the command; one more reference whose taxid is unknown to the "
                                             "taxonomy, discarded with a warning) does not assign the taxon Identify assigns on the same references",
                                             assigned_by_command=o.get("taxid3"), best_match_of_command=o.get("best3"), assigned_by_identify=t, best=best, distance=dmin)))
            if t not in parent or not all(is_anc(parent, t, tx[j]) for j in best):
                bad.append(("identify", dict(what="assigned taxon is not an ancestor-or-self of the taxon of every best match",
                                             assigned=t, best=best, best_taxids=[tx[j] for j in best])))
    return bad


# --------------------------------------------------------------------------- rendering for the Coq model
IMPORTS = ("From Coq Require Import NArith List Bool Arith. Import ListNotations.\n"
           "From OBI.C15 Require Import Model.")


def nl(l):
    return "[" + ";".join(str(int(x)) for x in l) + "]"


def bl(s):
    return "[" + ";".join(str(b) for b in s.encode()) + "]%N"


def pl(l):
    return "[" + ";".join("(%d,%d)" % (a, b) for a, b in l) + "]"


def fobs_term(fc):
    if fc["kind"] != "ok" or fc["maxe"] < 0:
        return "FPanic"
    return "(FOk %s %d %d)" % (nl(fc["idxs"]), fc["maxe"], int(fc["bestmatch"][1:]))


def case_term(c, o):
    idx = c.get("index") and all(k == "ok" for k in o["idxkind"]) and o["idkind"] == "ok"
    if c.get("index") and not idx:
        oi, taxid = "[]", 0          # a panic inside indexing: the model has no such outcome -> mismatch
    elif idx:
        oi = "[" + ";".join(pl(sorted(((int(k), v) for k, v in m.items()), reverse=True)) for m in o["index"]) + "]"
        taxid = o["taxid"]
    else:
        oi, taxid = "[]", 0
    mdi = "[" + ";".join(nl(x) for x in (o.get("mdi") or [])) + "]" if idx else "[]"
    mdi2 = "[" + ";".join(nl(x) for x in (o.get("mdi2") or [])) + "]" if idx else "[]"
    return "mkc %s [%s] %s %s %s %s %s [%s] [%s] %s %s %s %s %d %s %s" % (
        bl(c["q"]), ";".join(bl(r) for r in c["refs"]), nl(c["taxids"]), pl(c["taxo"]),
        nl(o["order"]), pl(o["qd"]),
        "true" if c.get("index") else "false",
        ";".join(nl(r) for r in (o.get("rorder") or [])), ";".join(nl(r) for r in (o.get("rd") or [])),
        nl(o["cw"]), fobs_term(o["fc"]), fobs_term(o["fc2"]), oi, max(taxid, 0), mdi, mdi2)


# --------------------------------------------------------------------------- evaluation
KNOWN_CAP = "obitag2-1000-candidates"


def strip(c):
    return {k: c[k] for k in ("q", "refs", "taxids", "taxo", "index")}


def evaluate(ctx, cases, broken, label, report=True, corr=True, shard=None):
    obs = ctx.vh_robust("c15", [strip(c) for c in cases], timeout=240 if ctx.quick else 1200, one_timeout=20)
    stats = dict(kernel_inconsistent=0, outside_guard=0, outside_guard_differs=0, oracle_failures=0)
    usable = []
    outside = []
    nviol = 0
    for i, (c, o) in enumerate(zip(cases, obs)):
        if o.get("kind") != "ok":
            if report:
                ctx.violation("%s_crash_%d" % (label, i), dict(property="C15", kind="harness-crash", case=strip(c), implementation=o))
            stats["oracle_failures"] += 1
            continue
        if not acgt_only(c):
            # labelled observation, outside the guard acgt_only: completeness can fail (never a violation); what is PROVED without the
            # guard is checked: C15_search_prefix_exact (every reported best is at the reported distance, which is never below the true
            # minimum) and C15_iupac_bound (shared 4-mers >= max(len) - 3 - 4 (d + amb), amb <= number of non-acgt symbols of the pair)
            stats["outside_guard"] += 1
            has_u = "u" in c["q"] or any("u" in r for r in c["refs"])
            if has_u:
                stats["rna_u_cases"] = stats.get("rna_u_cases", 0) + 1
            if any(k[0] in ("fc", "fc2") for k in oracle(c, o)):
                stats["outside_guard_differs"] += 1
                if has_u and set("".join([c["q"]] + c["refs"])) <= set(ACGT + "u"):
                    stats["rna_u_search_differs"] = stats.get("rna_u_search_differs", 0) + 1
                    stats.setdefault("rna_u_example", dict(case=strip(c), best=o["fc"], distances=[a - l for l, a in o["qd"]], kernels=o.get("kbad")))
                stats.setdefault("outside_guard_example", dict(case=strip(c), best=o["fc"], distances=[a - l for l, a in o["qd"]], shared_4mers=o["cw"]))
            dd = [a - l for l, a in o["qd"]]
            unsound = []
            for key in ("fc", "fc2"):
                fc = o[key]
                if fc["kind"] != "ok" or fc["maxe"] < min(dd) or any(dd[j] != fc["maxe"] for j in fc["idxs"]) or not fc.get("pairok", True) \
                        or len(fc["idxs"]) != len(set(fc["idxs"])):
                    unsound.append(dict(where=key, got=fc, distances=dd))
            namb = lambda x: sum(1 for ch in x if ch not in ACGT)
            for j, r in enumerate(c["refs"]):
                if o["cw"][j] < max(len(c["q"]), len(r)) - 3 - 4 * (dd[j] + namb(c["q"]) + namb(r)):
                    unsound.append(dict(where="iupac-bound", ref=j, shared=o["cw"][j], distance=dd[j], ambiguous_symbols=namb(c["q"]) + namb(r)))
            if unsound and o["kok"]:
                stats["oracle_failures"] += 1
                if report:
                    ctx.violation("%s_outside_guard_%d" % (label, i), dict(property="C15", kind="direct-oracle", case=strip(c), tag=c.get("tag"),
                                  what="outside acgt_only the scan must still be exact over a prefix of the candidate order (C15_search_prefix_exact) and obey C15_iupac_bound",
                                  failures=unsound))
            elif o["kok"]:
                outside.append(i)
            continue
        if not o["kok"]:
            # the kernels disagree with each other on a pair of plain a/c/g/t sequences (the one-difference shortcut against the LCS
            # kernel; both files are anchors of this property too): counted, and the case is still judged - when the search then
            # returns other references than the exhaustive comparison, the property is broken for the user whatever kernel is to blame
            stats["kernel_inconsistent"] += 1
            stats.setdefault("kernel_inconsistent_example", o["kbad"])
            if not any(k[0] in ("fc", "fc2", "identify") for k in oracle(c, o)):
                continue
        if c.get("index") and o.get("idkind") == "ok":
            dd = [a - l for l, a in o["qd"]]
            if any(min(dd) >= len(c["refs"][b]) for b in range(len(dd)) if dd[b] == min(dd)):
                # labelled observation: observed distance >= |best reference|: IndexSequence records no such distance
                stats["lookup_beyond_reference_length"] = stats.get("lookup_beyond_reference_length", 0) + 1
                bb = [b for b in range(len(dd)) if dd[b] == min(dd)]
                if max(o["qd"][j][0] / o["qd"][j][1] for j in bb) >= 0.5:
                    par = {t: p for t, p in c["taxo"]}
                    allw = lca_all(par, [c["taxids"][j] for b in bb for j in range(len(dd)) if o["rd"][b][j] <= min(dd)])
                    if allw != o.get("taxid"):
                        stats["lookup_beyond_more_specific"] = stats.get("lookup_beyond_more_specific", 0) + 1
                        stats.setdefault("lookup_beyond_example", dict(q=c["q"], refs=c["refs"], taxids=c["taxids"], taxo=c["taxo"], distance=min(dd), assigned=o.get("taxid"),
                                                                       lca_of_all_references_within_distance=allw))
        fails = oracle(c, o)
        if o.get("mdistr"):
            stats["mdi_strings"] = stats.get("mdi_strings", 0) + 1
            t0 = (o.get("index") or [{}])[0].get("0")
            if t0 is not None and o["mdistr"] == ["t%d" % t0, "rank%d" % t0]:
                stats["mdi_strings_swapped"] = stats.get("mdi_strings_swapped", 0) + 1
        bounds_observation(c, o, stats)
        if c.get("tag") == "corpus:" + KNOWN_CAP and o["fc2"]["kind"] == "ok":
            pb, pm = cap_prefix_answer(o)
            if sorted(o["fc2"]["idxs"]) != pb or o["fc2"]["maxe"] != pm or not fails:
                # the cap is not where the model (and the theorem) say it is
                fails = fails + [("fc2", dict(what="obitag2.FindClosests: the answer is not the exact answer over the candidates of rank 0..1000 (the closest reference has rank %d)" % (len(c["refs"]) - 1),
                                              got=dict(n_best=len(o["fc2"]["idxs"]), distance=o["fc2"]["maxe"]), expected=dict(n_best=len(pb), distance=pm))),
                                 ("cap", dict(what="position of the scan cap"))]
        if fails and c.get("tag") == "corpus:" + KNOWN_CAP and all(k == "fc2" for k, _ in fails) and ctx.kf_match(KNOWN_CAP):
            ctx.known(KNOWN_CAP, "obitag2.FindClosests gives up after 1001 candidates: with more references than that the closest one can be missed (witness: 1001 references sharing more 4-mers than the single reference at distance 1, which has rank 1001; with 1000 such references it has rank 1000 and is found)")
            continue
        if fails:
            stats["oracle_failures"] += 1
            nviol += 1
            if report and nviol <= 3:
                ctx.violation("%s_oracle_%d" % (label, i), dict(property="C15", kind="direct-oracle", case=strip(c), tag=c.get("tag"),
                                                              failures=[dict(where=k, **d) for k, d in fails],
                                                              implementation=dict(fc=o["fc"], fc2=o["fc2"], index=o.get("index"), taxid=o.get("taxid"))))
            continue
        usable.append(i)
    mism = []
    if corr and usable:
        big = [i for i in usable if len(cases[i]["refs"]) > 100]
        usable = [i for i in usable if i not in set(big)]
        # outside-guard cases go through the correspondence too (the model does not depend on the guard), search part only
        usable = usable + outside
        bad, err = ctx.correspond(label, IMPORTS, [case_term(cases[i] if i not in set(outside) else dict(cases[i], index=False), obs[i]) for i in usable], shard=shard or (40 if ctx.quick else 20))
        if bad is None:
            broken.append(dict(kind="correspondence", detail=err))
        else:
            mism = [usable[i] for i in bad]
    return obs, mism, stats


def bounds_observation(c, o, stats):
    """obikmer.LCS4MerBounds / Error4MerBounds have NO caller in the repository (dead code; not part of the search). They are executed and
    judged against the real kernel all the same; what they get wrong is a labelled observation, never a violation."""
    b = stats.setdefault("bounds", dict(pairs=0, lcs_below_min=0, lcs_above_max=0, errors_below_min=0, errors_above_max=0,
                                        note="LCS4MerBounds / Error4MerBounds (no caller anywhere in the repository: dead code, outside the search the property is about) "
                                             "compared with the real kernel on every (query, reference) pair: how often the true LCS length / number of differences falls "
                                             "outside the interval they return. Observation only."))
    for j, bd in enumerate(o.get("bounds") or []):
        lcs, ali = o["qd"][j]
        d = ali - lcs
        b["pairs"] += 1
        for key, badv in (("lcs_below_min", lcs < bd[0]), ("lcs_above_max", lcs > bd[1]), ("errors_below_min", d < bd[2]), ("errors_above_max", d > bd[3])):
            if badv:
                b[key] += 1
                b.setdefault("example_" + key, dict(q=c["q"], ref=c["refs"][j], lcs=lcs, differences=d, lcs_bounds=bd[:2], error_bounds=bd[2:]))


def loader_stage(ctx, cases, obs):
    """obitag.CLIAssignTaxonomy in process on a sample of the judged cases, with one more reference (a copy of the query, so that it would be
    THE best match) whose taxid the taxonomy does not know, placed first / in the middle / last / absent: the taxon and the number of ties
    must be those of Identify on the references of known taxid. A panic in the worker goroutines of the loader kills the process: own batch."""
    pick = [i for i, (c, o) in enumerate(zip(cases, obs)) if c.get("index") and o.get("kind") == "ok" and o.get("idkind") == "ok" and o.get("kok")
            and acgt_only(c) and len(c["refs"]) <= 40]
    step = max(1, len(pick) // (40 if ctx.quick else 600))
    pick = pick[::step]
    lobs = ctx.vh_robust("c15", [dict(strip(cases[i]), loader=True) for i in pick], timeout=120 if ctx.quick else 1200, one_timeout=20)
    st = dict(cases=len(pick), placements=0, failures=0)
    nviol = 0
    for i, lo in zip(pick, lobs):
        c, o = cases[i], obs[i]
        d = [a - l for l, a in o["qd"]]
        exp = dict(taxid=o["taxid"], count=d.count(min(d)))
        bad = {}
        if lo.get("kind") != "loader":
            bad["process"] = lo
        else:
            for pos, r in sorted(lo["cliat"].items()):
                st["placements"] += 1
                if r["kind"] != "ok" or r["taxid"] != exp["taxid"] or r["count"] != exp["count"] or r.get("best") == "unknown_taxid":
                    bad[pos] = r
        if bad:
            st["failures"] += 1
            nviol += 1
            if nviol <= 3:
                ctx.violation("loader_%d" % i, dict(property="C15", kind="direct-oracle", case=dict(strip(c), loader=True),
                              what="obitag.CLIAssignTaxonomy (database loader of the command) on the references of the case plus one reference of unknown taxid "
                                   "(first / middle / last / none): it must assign the taxon, with the number of ties, that Identify assigns on the references of known taxid",
                              expected=exp, got=bad))
    return st


def nontrivial(c, o):
    """non-trivial = at least two references, and the 4-mer prefilter had something to decide:
    either a tie at the best distance or a reference that is not a best match"""
    if o.get("kind") != "ok" or len(c["refs"]) < 2:
        return False
    d = [a - l for l, a in o["qd"]]
    return True if d.count(min(d)) > 1 or max(d) > min(d) else False


def run(ctx, broken):
    rng = ctx.rng
    n_idx, n_big, n_amb = (260, 12, 60) if ctx.quick else (6000, 300, 1500)
    cases = [dict(c) for c in CORPUS] + corpus_cap(rng)
    cases += [gen_case(rng, index=True) for _ in range(n_idx)]
    cases += [gen_case(rng, index=(k % 4 == 0), big=True) for k in range(n_big)]
    cases += [gen_iupac_case(rng) for _ in range(n_amb)]
    cases += [gen_lowcomplexity_case(rng) for _ in range(4 if ctx.quick else 80)]
    cases += [gen_beyond_case(rng) for _ in range(40 if ctx.quick else 800)]
    cases += [dict(c) for c in CORPUS3] + [gen_indel_tie_case(rng) for _ in range(24 if ctx.quick else 500)] + [gen_one_to_two_case(rng) for _ in range(40 if ctx.quick else 600)]
    cases += [gen_long_case(rng) for _ in range(6 if ctx.quick else 150)]
    # command-level groups (one database, several queries): their in-process runs are ordinary cases of the main batch
    groups = [dict(g) for g in CMD_CORPUS] + [gen_cmd_group(rng, big=(k % 4 == 3)) for k in range(10 if ctx.quick else 120)]
    gstart = []
    for g in groups:
        gstart.append(len(cases))
        cases += group_cases(g)
    tf = table_failures(ctx._c15_tables) if getattr(ctx, "_c15_tables", None) else ["tables not dumped (regen failed)"]
    ctx.cov["regenerated_tables"] = dict(base_code=getattr(ctx, "_c15_tables", {}).get("base_code"), cell_bits=getattr(ctx, "_c15_tables", {}).get("cell_bits"),
                                         failures=tf)
    if tf:
        ctx.violation("tables", dict(property="C15", kind="direct-oracle", what="base-code table of Encode4mer / Table4mer cell width", failures=tf,
                                     tables=getattr(ctx, "_c15_tables", None)))
    import time
    tt = [time.time()]
    stage_s = {}

    def lap(name):
        tt.append(time.time())
        stage_s[name] = round(tt[-1] - tt[-2], 1)
    wrap_stats = run_wrap(ctx)
    lap("wrap")
    obs, mism, stats = evaluate(ctx, cases, broken, "main")
    lap("main")
    ctx.cov["evaluations"] = len(cases)
    cmd_stats = cmd_stage(ctx, groups, lambda k: obs[gstart[k]:gstart[k] + len(groups[k]["queries"])], broken=broken)
    lap("commands")
    loader_stats = loader_stage(ctx, cases, obs)
    lap("loader")
    fam_stats = family_stage(ctx, [gen_family_group(rng) for _ in range(4 if ctx.quick else 60)], broken)
    lap("family")
    ctx.cov["stage_seconds"] = stage_s
    ctx.cov["distinct_nontrivial"] = len({json.dumps(strip(c), sort_keys=True) for c, o in zip(cases, obs) if nontrivial(c, o)})
    ctx.cov["rule"] = ("case = (query, reference set, taxonomy, taxid of each reference); non-trivial = >= 2 references and either a tie at "
                       "the best distance or a reference that is not a best match; distinct = distinct case")
    dist = {}
    for c, o in zip(cases, obs):
        k = c.get("tag", "?").split(":")[0]
        dist[k] = dist.get(k, 0) + 1
    ties = sum(1 for c, o in zip(cases, obs) if o.get("kind") == "ok" and [a - l for l, a in o["qd"]].count(min(a - l for l, a in o["qd"])) > 1)
    ctx.cov["distribution"] = dict(kinds=dist, with_ties_at_best=ties, indexed=sum(1 for c in cases if c.get("index")),
                                   refs_per_case=dict(min=min(len(c["refs"]) for c in cases), max=max(len(c["refs"]) for c in cases)),
                                   pairs_compared_by_real_kernels=sum(len(c["refs"]) * (1 + (len(c["refs"]) if c.get("index") else 0)) for c in cases))
    ctx.cov["observations"] = dict(
        outside_guard_acgt_only=dict(cases=stats["outside_guard"], search_differs_from_brute_force=stats["outside_guard_differs"],
                                     example=stats.get("outside_guard_example"),
                                     note="IUPAC codes: the kernels match ambiguous symbols, the 4-mer code maps them to 'a'; reported, not a violation"),
        lookup_beyond_reference_length=dict(cases=stats.get("lookup_beyond_reference_length", 0),
                                            assigned_more_specific_than_lca_of_all_within_distance=stats.get("lookup_beyond_more_specific", 0),
                                            example=stats.get("lookup_beyond_example"),
                                            note="best distance e >= length of a best reference b: IndexSequence records no distance >= |b| (old := lseq), Identify answers the entry for |b|-1 "
                                                 "= LCA of the references within |b|-1 of b (C15_index_lookup_all_distances, checked as an oracle on every case). When another reference lies "
                                                 "within e but not within |b|-1 of b the assigned taxon is more specific than the LCA of all references within e; it is still an ancestor-or-self "
                                                 "of every best match: neither clause of the property is violated (C15_lookup_beyond_length_witness). Reported, not a violation."),
        rna_u=dict(cases=stats.get("rna_u_cases", 0), search_differs_from_brute_force_on_acgtu_only_cases=stats.get("rna_u_search_differs", 0),
                   example=stats.get("rna_u_example"),
                   note="u (RNA) has the 4-mer code of t and the LCS kernel matches u with t, but D1Or0 compares bytes: once the best distance is 0 or 1 the scan "
                        "switches to D1Or0 and a reference that differs from the query only by t/u is no longer a tie (RNA query, two identical DNA references: one is "
                        "returned). Outside the guard acgt_only (the kernels disagree with each other: property C09); reported, not a violation."),
        counter_wrap=wrap_stats,
        match_distance_index_strings=dict(swapped=stats.get("mdi_strings_swapped", 0), cases=stats.get("mdi_strings", 0),
                                          note="MatchDistanceIndex splits an entry as taxid@rank@scientificName (its documentation) while IndexSequence and the geometric "
                                               "indexer write taxid@name@rank: rank and name come back exchanged; both callers ignore them (only the taxid is used): outside the property"),
        unused_4mer_bounds=stats.get("bounds"),
        kernel_inconsistent=dict(cases=stats["kernel_inconsistent"], example=stats.get("kernel_inconsistent_example"),
                                 note="bounded kernel / D1Or0 disagree with the unbounded kernel on some pair (property C09): case set aside"))
    ctx.cov["command_level"] = cmd_stats
    ctx.cov["loader_in_process"] = loader_stats
    ctx.cov["family_databases"] = fam_stats
    ctx.samples = [dict(case=strip(c), best=o.get("fc"), taxid=o.get("taxid")) for c, o in list(zip(cases, obs))[:2] + list(zip(cases, obs))[60:63]]
    ctx.cov["model_vs_impl_mismatches"] = len(mism)
    if mism and not ctx.violations:
        more = [gen_case(rng, index=True) for _ in range(3000)]
        evaluate(ctx, more, [], "search", corr=False)
        if not ctx.violations:
            i = mism[0]
            broken.append(dict(kind="correspondence", name="corr:C15/search-index-taxid", first_diverging_case=strip(cases[i]),
                               implementation=dict(fc=obs[i]["fc"], fc2=obs[i]["fc2"], index=obs[i].get("index"), taxid=obs[i].get("taxid"),
                                                   order=obs[i]["order"], cw=obs[i]["cw"]), n_diverging=len(mism)))
    elif mism:
        ctx.cov["note"] = "model and implementation diverge on %d cases (violations reported by the direct oracle)" % len(mism)


# --------------------------------------------------------------------------- command-level stage (round 3)
# The built commands obirefidx / obitag (and obireffamidx / obitag2) are run on files and compared with the in-process run of the same
# database that the direct oracle judges: option parsing, taxonomy loading, the database loaders (obitag.CLIAssignTaxonomy,
# obirefidx.IndexReferenceDB: references of unknown taxid discarded by an in-place compaction of parallel arrays), the worker pools,
# the index attribute written to / read back from a file, the lazily built index shared by the workers of obitag.
CMDS = ["obitag", "obirefidx", "obireffamidx", "obitag2"]
UNKNOWN_TAXID = 987654


def write_taxdump(d, taxo, ranks=None):
    os.makedirs(d, exist_ok=True)
    ranks = ranks or {}
    with open(os.path.join(d, "nodes.dmp"), "w") as f:
        for t, p in taxo:
            f.write("%d\t|\t%d\t|\t%s\t|\t\t|\t0\t|\t1\t|\t1\t|\t1\t|\t0\t|\t1\t|\t1\t|\t0\t|\t\t|\n" % (t, p, ranks.get(t, "rank%d" % t)))
    with open(os.path.join(d, "names.dmp"), "w") as f:
        for t, p in taxo:
            f.write("%d\t|\tt%d\t|\t\t|\tscientific name\t|\n" % (t, t))
    open(os.path.join(d, "merged.dmp"), "w").write("")
    open(os.path.join(d, "delnodes.dmp"), "w").write("")


def write_fasta(path, recs):
    with open(path, "w") as f:
        for rid, ann, seq in recs:
            f.write(">%s%s\n%s\n" % (rid, (" " + json.dumps(ann, sort_keys=True)) if ann else "", seq))


def parse_fasta(text):
    out = []
    for blk in text.split(">")[1:]:
        head, _, body = blk.partition("\n")
        rid, _, rest = head.partition(" ")
        ann = {}
        rest = rest.strip()
        if rest.startswith("{"):
            try:
                ann, _ = json.JSONDecoder().raw_decode(rest)
            except Exception:
                ann = {"_unparsed": rest}
        out.append((rid, ann, "".join(body.split())))
    return out


def idx_taxids(m):
    """obitag_ref_index attribute as written in a file {"distance": "taxid@name@rank"} -> {distance: taxid}; None when malformed"""
    try:
        out = {}
        for k, v in m.items():
            parts = v.split("@")
            t = int(parts[0])
            if len(parts) != 3 or parts[1] != "t%d" % t:
                return None
            out[int(k)] = t
        return out
    except Exception:
        return None


def gen_cmd_group(rng, big=False):
    """one database + several queries for the command-line differential"""
    c = gen_case(rng, index=True, big=big)
    while not acgt_only(c) or len(c["refs"]) < 2:
        c = gen_case(rng, index=True, big=big)
    if big:
        c["refs"], c["taxids"] = c["refs"][:26], c["taxids"][:26]       # > 10 and > 20: three chunks of 10 in IndexReferenceDB
    qs = [c["q"]]
    for _ in range(rng.randrange(1, 3) if big else rng.randrange(2, 6)):
        k = rng.random()
        src = rng.choice(c["refs"] + [c["q"]])
        qs.append(src if k < 0.25 else mutate(rng, src, rng.randrange(1, 4)))
    qs = [x if len(x) >= 1 else "a" for x in qs]
    n = len(c["refs"])
    return dict(kind="cmdgroup", refs=c["refs"], taxids=c["taxids"], taxo=c["taxo"], queries=qs,
                # where the reference of unknown taxid (a copy of the first query) sits in the database file: None = absent
                unknown_at=rng.choice([None, 0, n // 2, n, n, rng.randrange(n + 1)]),
                two_unknown=rng.random() < 0.3,
                stale=rng.random() < 0.5,            # references given to obirefidx already carry an (unrelated) obitag_ref_index
                annotated_queries=rng.random() < 0.5,  # queries already carry taxid / obitag_* annotations of a previous run
                upper=rng.random() < 0.3,            # sequences in upper case in the files
                maxcpu=rng.choice([None, 1, 2, 4]), stdin=rng.random() < 0.3)


CMD_CORPUS = [
    # unmodified CLIAssignTaxonomy: the LAST reference has a taxid the taxonomy does not know -> a nil entry stayed in the taxon set and
    # IndexSequence panicked (LCA of a nil taxon); repaired
    dict(kind="cmdgroup", refs=["tccta", "cgtcc", "cgtcc", "cgtacctccta", "cgtcctataaa", "cgtcct"], taxids=[1, 4, 2, 4, 2, 1],
         taxo=[[1, 1], [2, 1], [3, 1], [4, 3]], queries=["cgtccta", "cgtcc", "tcctaa"], unknown_at=6, two_unknown=False, stale=True,
         annotated_queries=True, upper=False, maxcpu=None, stdin=False),
    dict(kind="cmdgroup", refs=["acgtacgtac", "acgtacgtac", "acgtacgtaa"], taxids=[3, 4, 2], taxo=[[1, 1], [2, 1], [3, 2], [4, 2]],
         queries=["acgtacgtac", "acgtacgtta", "ttttttttttttttttttttt"], unknown_at=0, two_unknown=True, stale=False, annotated_queries=False,
         upper=True, maxcpu=1, stdin=True),
]


def group_cases(g):
    return [dict(q=q, refs=g["refs"], taxids=g["taxids"], taxo=g["taxo"], index=True, tag="cmdgroup") for q in g["queries"]]


def run_cmd_group(ctx, bindir, g, gobs, workdir):
    """Run obirefidx and obitag (database indexed lazily / read back indexed) on the group and compare with the in-process
    observations gobs (one per query; judged by the direct oracle). Returns a list of failure dicts."""
    import shutil
    from vlib import sh
    fails = []
    shutil.rmtree(workdir, ignore_errors=True)
    os.makedirs(workdir)
    tax = os.path.join(workdir, "tax")
    write_taxdump(tax, g["taxo"])
    up = (lambda x: x.upper()) if g.get("upper") else (lambda x: x)
    n = len(g["refs"])
    recs = [("r%d" % i, {"taxid": g["taxids"][i]}, up(g["refs"][i])) for i in range(n)]
    if g.get("unknown_at") is not None:
        recs.insert(g["unknown_at"], ("unknown_taxid", {"taxid": UNKNOWN_TAXID}, up(g["queries"][0])))
        if g.get("two_unknown"):
            recs.insert(min(len(recs), g["unknown_at"] + 2), ("unknown_taxid_2", {"taxid": UNKNOWN_TAXID + 1}, up(g["queries"][-1])))
    write_fasta(os.path.join(workdir, "db.fasta"), recs)
    stale = [(rid, dict(ann, obitag_ref_index={"0": "1@t1@rank1", "1": "1@t1@rank1"}) if g.get("stale") and k % 2 == 0 else ann, s)
             for k, (rid, ann, s) in enumerate(recs)]
    write_fasta(os.path.join(workdir, "db_in.fasta"), stale)
    qrecs = []
    for k, q in enumerate(g["queries"]):
        ann = None
        if g.get("annotated_queries") and k % 2 == 0:
            ann = {"taxid": g["taxids"][0], "obitag_bestid": 0.25, "obitag_match_count": 99, "obitag_bestmatch": "zzz", "scientific_name": "old"}
        qrecs.append(("q%d" % k, ann, up(q)))
    write_fasta(os.path.join(workdir, "q.fasta"), qrecs)
    opt = "-t tax" + (" --max-cpu %d" % g["maxcpu"] if g.get("maxcpu") else "")

    def run(cmd, stdin_file=None):
        line = "cd %s && %s" % (workdir, cmd) + (" < %s" % stdin_file if stdin_file else "")
        rc, out, err, dt = sh(line + " 2> stderr.txt", timeout=120)
        return rc, out

    # 1. obirefidx: the index of every reference of known taxid, references of unknown taxid discarded
    rc, out = run("%s/obirefidx %s db_in.fasta" % (bindir, opt))
    idb = parse_fasta(out) if rc == 0 else []
    want_index = gobs[0].get("index") or []
    if rc != 0:
        fails.append(dict(where="obirefidx", what="the command fails (exit status %d)" % rc, stderr=open(os.path.join(workdir, "stderr.txt")).read()[-600:]))
    else:
        if sorted(r[0] for r in idb) != sorted("r%d" % i for i in range(n)):
            fails.append(dict(where="obirefidx", what="the indexed database does not hold exactly the references of known taxid", got=[r[0] for r in idb]))
        for rid, ann, s in idb:
            if not rid.startswith("r") or not rid[1:].isdigit() or int(rid[1:]) >= n:
                continue
            i = int(rid[1:])
            got = idx_taxids(ann.get("obitag_ref_index") or {})
            exp = {int(k): v for k, v in want_index[i].items()} if i < len(want_index) and want_index[i] is not None else None
            if s != g["refs"][i] or ann.get("taxid") != g["taxids"][i]:
                fails.append(dict(where="obirefidx", what="reference written with another sequence / taxid", ref=i, got=[s, ann.get("taxid")]))
            elif got is None or got != exp:
                fails.append(dict(where="obirefidx", what="index written by the command differs from obirefidx.IndexSequence on the references of known taxid "
                                  "(judged by the direct oracle: every recorded distance -> LCA of the taxa of all references within it)",
                                  ref=i, written=ann.get("obitag_ref_index"), expected=exp))
        open(os.path.join(workdir, "idb.fasta"), "w").write(out)
    # 2. obitag on the raw database (index built lazily, shared by the workers) and on the indexed one (index read back from the file)
    runs = [("obitag (database indexed lazily)", "db.fasta --save-db saved.fasta")]
    if rc == 0:
        runs.append(("obitag (database indexed by the obirefidx command)", "idb.fasta"))
    if g.get("unknown_at") is None:
        # the database saved by the first run carries the indices of the references that were best matches only: PARTIALLY indexed
        runs.append(("obitag (partially indexed database written by --save-db)", "saved.fasta"))
    for name, db in runs:
        if g.get("stdin"):
            rc2, out2 = run("%s/obitag %s -R %s" % (bindir, opt, db), stdin_file="q.fasta")
        else:
            rc2, out2 = run("%s/obitag %s -R %s q.fasta" % (bindir, opt, db))
        if rc2 != 0:
            fails.append(dict(where=name, what="the command fails (exit status %d)" % rc2, stderr=open(os.path.join(workdir, "stderr.txt")).read()[-600:]))
            continue
        res = {rid: (ann, s) for rid, ann, s in parse_fasta(out2)}
        if sorted(res) != sorted("q%d" % k for k in range(len(g["queries"]))):
            fails.append(dict(where=name, what="the output does not hold exactly the queries", got=sorted(res)))
            continue
        for k, q in enumerate(g["queries"]):
            o = gobs[k]
            if o.get("kind") != "ok" or o.get("idkind") != "ok" or not o.get("kok"):
                continue
            ann, s = res["q%d" % k]
            d = [a - l for l, a in o["qd"]]
            best = [j for j in range(n) if d[j] == min(d)]
            bestid = max(o["qd"][j][0] / o["qd"][j][1] for j in best)
            got = dict(taxid=ann.get("taxid"), match_count=ann.get("obitag_match_count"), bestid=ann.get("obitag_bestid"))
            exp = dict(taxid=o["taxid"], match_count=len(best), bestid=bestid)
            # the reported best match is one of the best references of maximal identity; name and rank are those of the assigned taxon
            bm_ok = ann.get("obitag_bestmatch") in {"r%d" % j for j in best if abs(o["qd"][j][0] / o["qd"][j][1] - bestid) < 1e-12}
            names_ok = ann.get("scientific_name") == "t%s" % ann.get("taxid") and ann.get("obitag_rank") == "rank%s" % ann.get("taxid")
            if s != q or got["taxid"] != exp["taxid"] or got["match_count"] != exp["match_count"] or not isinstance(got["bestid"], (int, float)) \
                    or abs(got["bestid"] - exp["bestid"]) > 1e-9 or not bm_ok or not names_ok:
                fails.append(dict(where=name, what="the command does not assign what obitag.Identify assigns in process on the references of known taxid "
                                  "(taxon, number of ties, best identity; the in-process answer is judged by the direct oracle)",
                                  query=k, sequence=q, got=got, expected=exp, best=best, distance=min(d), best_match_reported=ann.get("obitag_bestmatch"),
                                  best_match_is_a_best_reference=bm_ok, name_and_rank_of_assigned_taxon=names_ok))
        if "--save-db" in db:
            # the saved database: every index it carries is the index IndexSequence builds for that reference
            try:
                saved = parse_fasta(open(os.path.join(workdir, "saved.fasta")).read())
            except Exception as e:
                saved = None
                fails.append(dict(where=name, what="--save-db wrote nothing", err=str(e)))
            if rc == 0:
                # observable of the loaders for the Coq model (Model.lcase_ok): the references kept by obirefidx, as positions in the database file
                pos = {rid: k for k, (rid, _, _) in enumerate(recs)}
                if all(r[0] in pos for r in idb):
                    g["_loader_obs"] = dict(known=[a.get("taxid") not in (UNKNOWN_TAXID, UNKNOWN_TAXID + 1) for _, a, _ in recs],
                                            refidx=[pos[r[0]] for r in idb])
            for rid, ann, s in saved or []:
                if "obitag_ref_index" in ann and rid.startswith("r") and rid[1:].isdigit() and int(rid[1:]) < len(want_index):
                    i = int(rid[1:])
                    got = idx_taxids(ann["obitag_ref_index"])
                    exp = {int(k): v for k, v in want_index[i].items()}
                    if got != exp or s != g["refs"][i]:
                        fails.append(dict(where=name + " --save-db", what="index saved for a reference differs from obirefidx.IndexSequence", ref=i,
                                          written=ann["obitag_ref_index"], expected=exp))
    if not fails:
        shutil.rmtree(workdir, ignore_errors=True)       # the files of a failing group are kept next to its replay
    return fails


def cmd_stage(ctx, groups, gobs_of, label="cmd", broken=None):
    """groups: list of cmdgroup dicts; gobs_of(k) -> in-process observations of group k. Reports violations; returns stats."""
    from vlib import BUILD
    bindir, err = get_bindir(ctx)
    if bindir is None:
        ctx.violation(label + "_build", dict(property="C15", kind="build", what="commands do not build", err=err), no_input=True)
        return dict(groups=0, error="commands do not build")
    st = dict(groups=len(groups), queries=sum(len(g["queries"]) for g in groups), command_runs=0, failures=0,
              unknown_taxid_positions={}, options={})
    nviol = 0
    lterms = []
    for k, g in enumerate(groups):
        gobs = gobs_of(k)
        n = len(g["refs"])
        pos = g.get("unknown_at")
        pk = "absent" if pos is None else "first" if pos == 0 else "last" if pos >= n else "inside"
        st["unknown_taxid_positions"][pk] = st["unknown_taxid_positions"].get(pk, 0) + 1
        for kk in ("stale", "annotated_queries", "upper", "stdin", "two_unknown"):
            if g.get(kk):
                st["options"][kk] = st["options"].get(kk, 0) + 1
        st["options"]["max-cpu=%s" % g.get("maxcpu")] = st["options"].get("max-cpu=%s" % g.get("maxcpu"), 0) + 1
        if any(o.get("kind") != "ok" for o in gobs):
            continue
        fails = run_cmd_group(ctx, bindir, g, gobs, os.path.join(BUILD, "c15_%s_%d_%d" % (label, os.getpid(), k)))
        st["command_runs"] += 3
        lo = g.pop("_loader_obs", None)
        if lo is not None and not fails:
            lterms.append(("mkl [%s] %s" % (";".join("true" if b else "false" for b in lo["known"]), nl(lo["refidx"])), g))
        if fails:
            st["failures"] += 1
            nviol += 1
            if nviol <= 3:
                ctx.violation("%s_group_%d" % (label, k), dict(property="C15", kind="direct-oracle", case=g, failures=fails[:6]))
    if lterms:
        # the in-place compaction loops of the two loaders against their Coq model (C15_loader_obitag_compacts / C15_loader_obirefidx_compacts)
        bad, err = ctx.correspond(label + "_loader", IMPORTS, [t for t, _ in lterms], fn="loader_mismatches")
        st["loader_model_evaluations"] = len(lterms)
        if bad is None:
            (broken if broken is not None else []).append(dict(kind="correspondence", detail=err))
        elif bad and broken is not None:
            broken.append(dict(kind="correspondence", name="corr:C15/database-loaders", first_diverging_case=lterms[bad[0]][1], n_diverging=len(bad)))
    return st


# --------------------------------------------------------------------------- obireffamidx + obitag2 (family databases)
def gen_family_group(rng):
    """taxonomy with family / genus / species ranks (some species hang directly under the root: no family), references = variants of one
    seed per family (90 % clusters), queries = variants of references, exact copies, and one far sequence"""
    taxo, ranks = [[1, 1]], {1: "no rank"}
    nid = [2]

    def node(parent, rank):
        t = nid[0]
        nid[0] += 1
        taxo.append([t, parent])
        ranks[t] = rank
        return t
    species_of_family = {}
    order = node(1, "order") if rng.random() < 0.5 else 1
    for _ in range(rng.randrange(2, 4)):
        f = node(order, "family")
        sp = []
        for _ in range(rng.randrange(1, 3)):
            g = node(f, "genus")
            sp += [node(g, "species") for _ in range(rng.randrange(1, 3))]
        if rng.random() < 0.3:
            sp.append(node(f, "species"))        # species without genus
        species_of_family[f] = sp
    if rng.random() < 0.4:
        species_of_family[-1] = [node(1, "species")]   # no family
    refs, taxids = [], []
    L = rng.randrange(24, 44)
    common = rseq(rng, L)
    for f, sp in species_of_family.items():
        seed = mutate(rng, common, rng.randrange(4, 12)) if rng.random() < 0.6 else rseq(rng, L)
        for _ in range(rng.randrange(2, 8)):
            refs.append(mutate(rng, seed, rng.choice([0, 1, 2, 3, 5, 8])))
            taxids.append(rng.choice(sp))
    if rng.random() < 0.6:
        k = rng.randrange(len(refs))
        refs.append(refs[k])                          # byte-identical references, possibly of another taxon (even of another family)
        taxids.append(rng.choice([t for sp in species_of_family.values() for t in sp if t != taxids[k]] or [taxids[k]]))
    z = list(zip(refs, taxids))
    rng.shuffle(z)
    refs, taxids = [a for a, _ in z], [b for _, b in z]
    dups = [r for r in set(refs) if refs.count(r) > 1]
    qs = [rng.choice(dups or refs)] + [mutate(rng, rng.choice(refs), rng.randrange(1, 5)) for _ in range(rng.randrange(2, 5))] + [rseq(rng, L)]
    qs.append(rseq(rng, 3 * L))       # identity below 0.5 with every cluster head: obitag2 assigns the root
    return dict(kind="famgroup", refs=refs, taxids=taxids, taxo=taxo, ranks={str(k): v for k, v in ranks.items()}, queries=qs,
                maxcpu=rng.choice([None, 1, 3]))


def expected_assign(c, o, identity_check=True):
    """what Identify / BestConsensus must answer on database c for the query, from the brute-force distances of o: LCA over the best matches b of
    the taxa of the references within min(best distance, |b| - 1) of b (C15_index_lookup_all_distances); also the variant without the cut"""
    parent = {t: p for t, p in c["taxo"]}
    n = len(c["refs"])
    d = [a - l for l, a in o["qd"]]
    dmin = min(d)
    best = [j for j in range(n) if d[j] == dmin]
    ident = max(o["qd"][j][0] / o["qd"][j][1] for j in best)
    if identity_check and ident < 0.5:
        return dict(taxids={1}, best=best, distance=dmin, identity=ident, assigned=False)
    w1 = lca_all(parent, [c["taxids"][j] for b in best for j in range(n) if o["rd"][b][j] <= min(dmin, len(c["refs"][b]) - 1)])
    w2 = lca_all(parent, [c["taxids"][j] for b in best for j in range(n) if o["rd"][b][j] <= dmin])
    return dict(taxids={w1, w2}, best=best, distance=dmin, identity=ident, assigned=True)


def get_bindir(ctx):
    if getattr(ctx, "_c15_bindir", None) is None:
        ctx._c15_bindir, ctx._c15_binerr = ctx.build_cmds(CMDS)
    return ctx._c15_bindir, ctx._c15_binerr


def family_stage(ctx, groups, broken):
    """obireffamidx then obitag2 on files. Judged: (1) family_taxid of every reference; (2) reffamidx_in of every reference = IndexSequence over
    the references of its family, obitag_ref_index of every cluster head = IndexSequence over the cluster heads (in-process runs judged by the
    direct oracle); (3) the taxon obitag2 assigns = exact-match rule, else the two passes (cluster heads, then the proposed family) recomputed
    from brute-force distances of in-process runs. How often the two-pass answer differs from the exhaustive answer is an observation."""
    import shutil
    from vlib import BUILD, sh
    bindir, err = get_bindir(ctx)
    st = dict(groups=len(groups), references=0, queries=0, families=0, cluster_heads=0, failures=0, exact_matches=0, two_pass=0, unassigned=0,
              two_pass_differs_from_exhaustive=0,
              note="obitag2 (clusters then family) is a heuristic on top of the search: its answer is compared with the same two passes recomputed from "
                   "brute-force distances; 'two_pass_differs_from_exhaustive' counts queries for which that answer is not the one of the exhaustive search "
                   "over the whole database (observation: the property's search is obitag.FindClosests)")
    if bindir is None:
        return dict(st, error="commands do not build")
    G = []
    # ---- phase A: obireffamidx on every group; in-process cases of pass 0 (indices) and pass 1 (queries against the cluster heads)
    batch1 = []
    for gi, g in enumerate(groups):
        wd = os.path.join(BUILD, "c15_fam_%d_%d" % (os.getpid(), gi))
        shutil.rmtree(wd, ignore_errors=True)
        os.makedirs(wd)
        ranks = {int(k): v for k, v in g["ranks"].items()}
        parent = {t: p for t, p in g["taxo"]}
        write_taxdump(os.path.join(wd, "tax"), g["taxo"], ranks)
        n = len(g["refs"])
        write_fasta(os.path.join(wd, "db.fasta"), [("r%d" % i, {"taxid": g["taxids"][i]}, g["refs"][i]) for i in range(n)])
        write_fasta(os.path.join(wd, "q.fasta"), [("q%d" % k, None, q) for k, q in enumerate(g["queries"])])
        opt = "-t tax" + (" --max-cpu %d" % g["maxcpu"] if g.get("maxcpu") else "")
        st["references"] += n
        st["queries"] += len(g["queries"])

        def fam_of(t, parent=parent, ranks=ranks):
            for x in path_of(parent, t):
                if ranks.get(x) == "family":
                    return x
            return -1
        sub = lambda ids, q, g=g: dict(q=q, refs=[g["refs"][i] for i in ids], taxids=[g["taxids"][i] for i in ids], taxo=g["taxo"], index=True, tag="famgroup")
        X = dict(g=g, wd=wd, opt=opt, n=n, parent=parent, fam_of=fam_of, sub=sub, fails=[], ok=False)
        G.append(X)
        rc, out, err, dt = sh("cd %s && %s/obireffamidx %s db.fasta 2> stderr1.txt" % (wd, bindir, opt), timeout=120)
        recs = parse_fasta(out) if rc == 0 else []
        if rc != 0 or sorted(r[0] for r in recs) != sorted("r%d" % i for i in range(n)):
            X["fails"].append(dict(where="obireffamidx", what="the command fails or does not write every reference", rc=rc, got=[r[0] for r in recs][:50]))
            continue
        open(os.path.join(wd, "fdb.fasta"), "w").write(out)
        ann = {int(rid[1:]): a for rid, a, _ in recs}
        for i in range(n):
            if ann[i].get("family_taxid") != fam_of(g["taxids"][i]):
                X["fails"].append(dict(where="obireffamidx", what="family_taxid of a reference", ref=i, got=ann[i].get("family_taxid"), expected=fam_of(g["taxids"][i])))
        fams = {}
        for i in range(n):
            fams.setdefault(fam_of(g["taxids"][i]), []).append(i)
        heads = [i for i in range(n) if ann[i].get("reffamidx_clusterhead") is True]
        st["families"] += len(fams)
        st["cluster_heads"] += len(heads)
        for i in range(n):
            h = ann[i].get("reffamidx_clusterid")
            if not (isinstance(h, str) and h[1:].isdigit() and int(h[1:]) in heads and fam_of(g["taxids"][int(h[1:])]) == fam_of(g["taxids"][i])):
                X["fails"].append(dict(where="obireffamidx", what="a reference is attached to a cluster head that is not a head of its family", ref=i, got=h))
        if not heads:
            X["fails"].append(dict(where="obireffamidx", what="no cluster head"))
            continue
        X.update(ok=True, ann=ann, fams=fams, heads=heads)
        X["sets"] = [("reffamidx_in", ids) for _, ids in sorted(fams.items())] + [("obitag_ref_index", heads)]
        X["nonexact"] = [k for k, q in enumerate(g["queries"]) if q not in g["refs"]]
        X["cases0"] = [sub(ids, g["refs"][ids[0]]) for _, ids in X["sets"]]
        X["cases1"] = [sub(heads, g["queries"][k]) for k in X["nonexact"]]
        X["at1"] = len(batch1)
        batch1 += X["cases0"] + X["cases1"]
    obs1, mism, _ = evaluate(ctx, batch1, broken, "fam1", shard=8) if batch1 else ([], [], {})
    if mism:
        broken.append(dict(kind="correspondence", name="corr:C15/family-database", first_diverging_case=strip(batch1[mism[0]])))
    # ---- phase B: indices judged; the proposed family of every query; in-process cases of pass 2 and of the exhaustive search
    batch2, batch3 = [], []
    for X in G:
        if not X["ok"]:
            continue
        g, ann = X["g"], X["ann"]
        o0 = obs1[X["at1"]:X["at1"] + len(X["cases0"])]
        o1 = obs1[X["at1"] + len(X["cases0"]):X["at1"] + len(X["cases0"]) + len(X["cases1"])]
        for (slot, ids), o in zip(X["sets"], o0):
            if o.get("kind") != "ok" or not all(k == "ok" for k in o.get("idxkind", ["?"])):
                continue
            for pos, i in enumerate(ids):
                got = idx_taxids(ann[i].get(slot) or {})
                exp = {int(k): v for k, v in o["index"][pos].items()}
                if got != exp:
                    X["fails"].append(dict(where="obireffamidx", what="%s of a reference differs from obirefidx.IndexSequence over %s (judged by the direct oracle)"
                                           % (slot, "the references of its family" if slot == "reffamidx_in" else "the cluster heads"),
                                           ref=i, written=ann[i].get(slot), expected=exp, members=ids))
        X["plan"] = {}
        for pos, (k, o) in enumerate(zip(X["nonexact"], o1)):
            if o.get("kind") != "ok" or not o.get("kok"):
                continue
            e1 = expected_assign(X["cases1"][pos], o)
            X["plan"][k] = dict(pass1=e1)
            if e1["assigned"]:
                fset = {X["fam_of"](t) for t in e1["taxids"]}
                if len(fset) == 1 and -1 not in fset:
                    X["plan"][k]["family"] = fset.pop()
                    X["plan"][k]["case2"] = len(batch2)
                    batch2.append(X["sub"](X["fams"][X["plan"][k]["family"]], g["queries"][k]))
                elif len(fset) > 1:
                    X["plan"][k]["ambiguous"] = True
        X["at3"] = len(batch3)
        batch3 += [X["sub"](list(range(X["n"])), g["queries"][k]) for k in X["nonexact"]]
    obs2, mism2, _ = evaluate(ctx, batch2, broken, "fam2", shard=8) if batch2 else ([], [], {})
    if mism2:
        broken.append(dict(kind="correspondence", name="corr:C15/family-database", first_diverging_case=strip(batch2[mism2[0]])))
    obs3, _, _ = evaluate(ctx, batch3, broken, "fam3", corr=False) if batch3 else ([], [], {})
    # ---- phase C: obitag2 on every group
    nviol = 0
    xterms = []
    for gi, X in enumerate(G):
        g, fails = X["g"], X["fails"]
        if X["ok"]:
            n, parent = X["n"], X["parent"]
            rc2, out2, err2, dt2 = sh("cd %s && %s/obitag2 %s -R fdb.fasta q.fasta 2> stderr2.txt" % (X["wd"], bindir, X["opt"]), timeout=120)
            res = {rid: a for rid, a, _ in parse_fasta(out2)} if rc2 == 0 else {}
            if rc2 != 0 or sorted(res) != sorted("q%d" % k for k in range(len(g["queries"]))):
                fails.append(dict(where="obitag2", what="the command fails or does not write every query", rc=rc2,
                                  stderr=open(os.path.join(X["wd"], "stderr2.txt")).read()[-500:]))
            else:
                allobs = dict(zip(X["nonexact"], obs3[X["at3"]:X["at3"] + len(X["nonexact"])]))
                allcases = dict(zip(X["nonexact"], batch3[X["at3"]:X["at3"] + len(X["nonexact"])]))
                for k, q in enumerate(g["queries"]):
                    a = res["q%d" % k]
                    plan = X["plan"]
                    if q in g["refs"]:
                        same = [i for i in range(n) if g["refs"][i] == q]
                        exp = dict(taxid={lca_all(parent, [g["taxids"][i] for i in same])}, match_count=len(same), method="exact match")
                        st["exact_matches"] += 1
                        if isinstance(a.get("taxid"), int) and a.get("taxid") >= 0 and a.get("obitag_similarity_method") == "exact match":
                            xterms.append(("mkx %s [%s] %s %s %d" % (bl(q), ";".join(bl(r) for r in g["refs"]), nl(g["taxids"]), pl(g["taxo"]), a["taxid"]),
                                           dict(kind="famgroup-exact", group=g, query=k, assigned=a["taxid"])))
                    elif k in plan and not plan[k].get("ambiguous"):
                        pk = plan[k]
                        if "case2" in pk:
                            o2 = obs2[pk["case2"]]
                            if o2.get("kind") != "ok" or not o2.get("kok"):
                                continue
                            e2 = expected_assign(batch2[pk["case2"]], o2, identity_check=False)
                            # (obitag_match_count keeps the number of ties of the FIRST pass: `weight = bests.Len()` is not updated after the family pass)
                            exp = dict(taxid=e2["taxids"], match_count=len(pk["pass1"]["best"]), method="lcsfamlily")
                            st["two_pass"] += 1
                        else:
                            exp = dict(taxid=pk["pass1"]["taxids"], match_count=len(pk["pass1"]["best"]), method="lcsfamlily")
                            st["unassigned" if not pk["pass1"]["assigned"] else "two_pass"] += 1
                    else:
                        continue
                    ko = allobs.get(k)
                    if ko is not None and ko.get("kind") == "ok" and ko.get("kok") and a.get("taxid") not in expected_assign(allcases[k], ko)["taxids"]:
                        st["two_pass_differs_from_exhaustive"] += 1
                        st.setdefault("two_pass_differs_example", dict(group=g, query=k, obitag2=a.get("taxid"), exhaustive=sorted(expected_assign(allcases[k], ko)["taxids"])))
                    if a.get("taxid") not in exp["taxid"] or a.get("obitag_match_count") != exp["match_count"] or a.get("obitag_similarity_method") != exp["method"]:
                        fails.append(dict(where="obitag2", what="assigned taxon / number of ties differ from the exact-match rule or from the two passes (cluster heads, proposed "
                                          "family) recomputed from brute-force distances", query=k, sequence=q,
                                          got=dict(taxid=a.get("taxid"), match_count=a.get("obitag_match_count"), method=a.get("obitag_similarity_method")),
                                          expected=dict(exp, taxid=sorted(exp["taxid"])), plan={kk: vv for kk, vv in plan.get(k, {}).items() if kk != "pass1"}))
        if not fails:
            shutil.rmtree(X["wd"], ignore_errors=True)
        if fails:
            st["failures"] += 1
            nviol += 1
            if nviol <= 2:
                ctx.violation("family_group_%d" % gi, dict(property="C15", kind="direct-oracle", case=g, failures=fails[:6]))
    if xterms:
        # the exact-match rule of obitag2 against its Coq model (Model.exact_taxon; C15_obitag2_exact_match_is_lca)
        bad, err = ctx.correspond("famx", IMPORTS, [t for t, _ in xterms], fn="exact_mismatches")
        if bad is None:
            broken.append(dict(kind="correspondence", detail=err))
        elif bad and not st["failures"]:
            broken.append(dict(kind="correspondence", name="corr:C15/obitag2-exact-match", first_diverging_case=xterms[bad[0]][1], n_diverging=len(bad)))
        st["exact_match_model_evaluations"] = len(xterms)
    return st


KNOWN_WRAP = "search-4mer-count-wrap"


def run_wrap(ctx):
    """uint16 cells of Table4mer. Control just inside the guard (a 4-mer occurring 65535 times: the q-gram bound must hold on the real
    tables) and the witness beyond it (65536 occurrences: the cell wraps to 0). Distances are established by the real D1Or0 (linear); the
    unbounded kernel is quadratic and packs path lengths in 16 bits, FindClosests itself is only run in the thorough tier (one alignment of
    two 65 kb sequences, ~25 s)."""
    inside = dict(kind="wrap", q="a" * 65537, refs=["a" * 65538, "c" + "a" * 65535 + "c"])
    beyond = dict(kind="wrap", q="a" * 65538, refs=["a" * 65539, "c" + "a" * 65536 + "c"], full=not ctx.quick)
    obs = ctx.vh_robust("c15", [inside, beyond], timeout=600, one_timeout=300)
    st = dict(note="Table4mer cells are uint16: a 4-mer occurring 65536 times wraps to 0; inside the guard (65535 occurrences) the bound must hold, "
                   "beyond it the known finding C15/" + KNOWN_WRAP + " is exhibited on the real tables (C15_qgram_wrapped_refuted, C15_search_wrapped_refuted)")
    for name, c, o in (("inside_guard", inside, obs[0]), ("beyond_guard", beyond, obs[1])):
        if o.get("kind") != "wrap":
            ctx.violation("wrap_" + name + "_crash", dict(property="C15", kind="harness-crash", case=dict(kind="wrap", q_len=len(c["q"]), refs_len=[len(r) for r in c["refs"]]), implementation=o))
            continue
        fails = []
        for i, r in enumerate(c["refs"]):
            d = o["d1"][i]
            if d >= 0 and o["cw"][i] < max(len(c["q"]), len(r)) - 3 - 4 * d:
                fails.append(dict(ref=i, ref_len=len(r), distance_by_D1Or0=d, shared_4mers_by_Common4Mer=o["cw"][i], bound=max(len(c["q"]), len(r)) - 3 - 4 * d))
        fc = o.get("fc")
        lost = bool(fc) and fc.get("kind") == "ok" and 0 not in fc.get("idxs", [])
        st[name] = dict(q_len=len(c["q"]), refs_len=[len(r) for r in c["refs"]], shared_4mers=o["cw"], self_shared_4mers=o["self"], d1or0=o["d1"],
                        bound_failures=fails, find_closests=fc, closest_reference_lost=lost if fc else "not run (quick tier)")
        if name == "inside_guard" and fails:
            ctx.violation("wrap_inside_guard", dict(property="C15", kind="direct-oracle", what="q-gram bound fails on the real Count4Mer/Common4Mer although no 4-mer occurs 65536 times",
                                                   case=dict(kind="wrap", q="a*%d" % len(c["q"]), refs=["a*65538", "c a*65535 c"]), failures=fails))
        if name == "beyond_guard":
            if fails or lost:
                if ctx.kf_match(KNOWN_WRAP):
                    ctx.known(KNOWN_WRAP, "a 4-mer occurring 65536 times wraps its uint16 cell to 0: query a^65538 and reference a^65539 (one insertion apart) share 0 4-mers by "
                                          "Common4Mer, below the pruning threshold: FindClosests / IndexSequence never look at that reference")
                else:
                    ctx.violation("wrap_beyond_guard", dict(property="C15", kind="direct-oracle", what="4-mer counter wrap: closest reference pruned", failures=fails, find_closests=fc))
    return st


def corpus_cap(rng):
    """obitag2.FindClosests never looks at candidates of rank > 1000 (C15_search2_lossless_iff_no_closest_beyond_rank_1000): the single
    closest reference shares fewer 4-mers than all the others, so its rank is n-1: n = 1001 -> rank 1000, still found (plain oracle);
    n = 1002 -> rank 1001, lost (known finding). In the lost cases the answer must be EXACTLY the brute-force answer over
    the candidates of rank 0..1000 of the code's own order (checked in evaluate)."""
    r = __import__("random").Random(15)
    q = "acgtagctaggatcc"
    pool = set()
    while len(pool) < 1001:
        pool.add(rseq(r, r.randrange(2, 4)) + q + rseq(r, r.randrange(2, 4)))
    pool = sorted(pool)
    close = q[:7] + ("t" if q[7] != "t" else "g") + q[8:]      # one substitution: distance 1, shares 4 fewer 4-mers than all the others
    out = []
    for n, tag in ((1000, "corpus:cap-rank-1000-found"), (1001, "corpus:" + KNOWN_CAP)):
        refs = pool[:n] + [close]
        out.append(dict(q=q, refs=refs, taxids=[1] * len(refs), taxo=[[1, 1]], index=False, tag=tag))
    return out


def cap_prefix_answer(o):
    """brute force over the candidates of rank 0..1000 in the order the code computed"""
    d = [a - l for l, a in o["qd"]]
    pre = o["order"][:1001]
    m = min(d[i] for i in pre)
    return sorted(i for i in pre if d[i] == m), m


def replay(ctx, rp):
    c = rp.get("case") or rp.get("broken", [{}])[0].get("first_diverging_case")
    if rp.get("tables") is not None or (c and c.get("kind") == "wrap"):
        # regenerated tables / counter-width cases: dump the tables of the current build and re-run the two wrap cases
        regen(ctx)
        print("replay: tables of the current build:", json.dumps(ctx._c15_tables))
        print("  table failures:", table_failures(ctx._c15_tables))
        print("  counter cells:", json.dumps(run_wrap(ctx), default=str)[:3000])
        return
    if not c:
        print("replay: no case in the replay file (proof obligation / build failure):", json.dumps(rp)[:2000])
        return
    if c.get("kind") in ("cmdgroup", "famgroup") or c.get("loader"):
        regen(ctx)
        before = len(ctx.violations)
        if c.get("kind") == "cmdgroup":
            obs, _, _ = evaluate(ctx, group_cases(c), [], "replay", report=False, corr=False)
            st = cmd_stage(ctx, [c], lambda k: obs, label="replaycmd")
        elif c.get("kind") == "famgroup":
            st = family_stage(ctx, [c], [])
        else:
            base = dict(strip(c), tag="replay")
            obs, _, _ = evaluate(ctx, [base], [], "replay", report=False, corr=False)
            st = loader_stage(ctx, [base], obs)
        print("replay (%s): %s" % (c.get("kind") or "loader", json.dumps({k: v for k, v in st.items() if k not in ("note", "two_pass_differs_example")}, default=str)))
        for line, path in [(l, l.split("replay=")[1].split()[0]) for l in ctx.violations[before:]]:
            print("  FAILS:", json.dumps(json.load(open(path)).get("failures") or json.load(open(path)).get("got"), default=str)[:3000])
        if len(ctx.violations) == before:
            print("  commands / loader agree with the in-process run")
        return
    c = dict(c, tag=rp.get("tag", "replay"))
    obs, mism, stats = evaluate(ctx, [c], [], "replay", report=False)
    o = obs[0]
    print("replay: q=%s refs=%s" % (c["q"], c["refs"] if len(c["refs"]) < 20 else "(%d refs)" % len(c["refs"])))
    print("  implementation: FindClosests ->", o.get("fc"), "; obitag2 ->", o.get("fc2"), "; index ->", o.get("index"), "; taxid ->", o.get("taxid"))
    if o.get("kind") == "ok":
        print("  brute force distances:", [a - l for l, a in o["qd"]], "shared 4-mers:", o["cw"])
        for k, d in oracle(c, o):
            print("  ORACLE FAILS:", k, json.dumps(d, default=str))
    print("  model:", "mismatch" if mism else "agrees")
