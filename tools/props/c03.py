"""C03 — no record is lost, duplicated or reordered between reader and writer (pkg/obiiter combinators)."""
import itertools, json, os, hashlib, re
import vlib

PROPS = ["C03/Props.v"]
META = dict(
    text="Rocq theorems over an executable model of the pkg/obiiter stream combinators as functions on arrival histories "
         "(batch number, records): for every partition into batches (empty ones included) and every arrival permutation, "
         "SortBatches (via Common/Reseq), Rebatch, FilterEmpty, FilterOn/FilterAnd (also on paired streams), DivideOn, Distribute (also "
         "followed by an order-sensitive consumer per output: dispatcher path), Concat, Pool, IBatchOver, Load/CompleteFileIterator, PairTo, "
         "PairedWith, IFragments, IMergeSequenceBatch, the (conditional) worker pool under any schedule, Split consumers under any "
         "assignment of batches, and the reader->workers->filter->rebatch->resequencer pipeline deliver exactly the expected records in "
         "input order with output numbers 0..m-1. The close protocol (Add/Done/WaitAndClose/Split) is a transition system of processes "
         "over Go's primitives: for EVERY well-formed instance and every schedule, no panic, no deadlock, every maximal run closes every "
         "output exactly once after its last push and every Split consumer observes the end; every combinator's instance is proved "
         "well-formed. On every run the REAL combinators are fed explicit histories (all permutations of small batch-number sets, random "
         "partitions, 0..8 workers), drained under a deadline, judged by a direct Python oracle and compared with the model by vm_compute; "
         "the Add/Done/Wait/Push/Close/End events logged by the real iterators (verif hook, per goroutine) are replayed by vm_compute as a "
         "complete run of a well-formed instance of the proved transition system; long streams (3-4 million one-record batches) go through "
         "the worker pool, FilterOn/FilterAnd, DivideOn, Distribute, Rebatch and SortBatches; commands run on inputs larger than the 1 MiB "
         "reader buffer, several files (empty ones, --no-order), paired files. Round 3: workers that fail and chained workers (SeqToSliceWorker, "
         "ChainWorkers: the chain is proved to be two consecutive stages, failures drop the record and nothing else), Count / Consume, the Pipeable glue, "
         "Rebatch | FilterOn and PairTo | FilterOn / FilterAnd (two rebatching stages of the same size: proved to deliver exactly the selected records / "
         "pairs), the accessors of batches and iterators, every (files, reader goroutines) pair of the batch-of-files reader with its protocol trace, and "
         "the list of input files of a command (ExpandListOfFiles: proved on a model of the file system - no file read twice, a named file always read, "
         "every sequence file below a named directory read, nothing else - and run on real directory trees); the command-line glue (formats given or "
         "guessed, standard input, header formats, output formats, --compress, --out, paired output files, progress bar, missing file) is judged "
         "end to end on the commands.",
    note="Trusted: gact_step IS Go's channel/WaitGroup semantics (send on closed / double close / negative counter panic, Wait blocks "
         "while positive, end seen after close); the receive side of the unbuffered channels is abstracted (a push never blocks: a consumer "
         "is alive until the close) and a goroutine that consumes one iterator to feed another is split in a consumer and a producer, so "
         "deadlock freedom is per protocol instance, not for arbitrary compositions (observed under a deadline). A worker pool is 'any "
         "permutation of the mapped batches' (LTS over take/emit labels proved to emit such a permutation). Speed and LimitMemory are "
         "modelled as the identity (correspondence only; Speed needs stderr to be a character device: the harness gives it /dev/null). "
         "Load sorts the collected batches by number (stable insertion sort in the model, sort.SliceStable in the code); MakeIConditionalWorker passes "
         "the records that do not satisfy the condition through unchanged (both after the fixes merged from C13 / C16; load_v0 / cond_worker_v0 "
         "are the code before). IFragments on paired "
         "data unpairs the fragmented records (oracle only). The data race on the receiver variable re-assigned by `iterator = "
         "iterator.SortBatches()` inside the goroutine of Rebatch/FilterEmpty/DivideOn/Distribute while the caller reads "
         "iterator.IsPaired() is real for the race detector but cannot change an observable (both values carry the same paired mark; the "
         "paired variants of these combinators are in the generator): recorded, not fixed. The end-to-end grids are judged by the oracle only. "
         "ExpandListOfFiles: the file system is the list of its entries in filepath.Walk order (paths = lists of names; the generator sorts them, the run on a real "
         "tree ties the two); symbolic links are judged by the oracle only. A record on which a worker fails is dropped with a warning (documented behaviour "
         "of SeqToSliceWorker); with breakOnError only a failure of the FIRST worker of a chain stops the run (transcribed, theorem C03_chainworkers_failures). "
         "Not exercised: the nil-iterator guards of Add/Done/Lock/.../BatchSize and Push of a nil batch (log.Panic on a programming error, no stream involved); "
         "the `for len(Channel()) > 0` loop of WaitAndClose (unreachable: every channel is unbuffered, len is always 0); the Subsequence-error panic of "
         "IFragments (its arguments are always in range); the nil-reader default and the cannot-open panic of ReadSequencesBatchFromFiles (CLIReadBioSequences "
         "always passes a reader; a missing file is caught before by ExpandListOfFiles, judged); the content of ecoPCR input (format readers belong to other "
         "properties; the option is passed on an empty standard input) and the Stat / write-error branches of CLIWriteBioSequences (need a failing device); the error returns of ExpandListOfFiles on a dangling symbolic "
         "link and of CLIReadBioSequences when a reader refuses a file (the readers call log.Fatal themselves on a truncated file: exit code judged); the "
         "unreachable default branch of the output header switch. "
         "Outside the property: a number of reader goroutines of 0 in ReadSequencesBatchFromFiles (nothing is read) cannot come from the command line "
         "(CLIReadParallelWorkers() >= 1).")
TRUSTED = ["Go runtime primitives: gact_step (Model.v) is taken as the semantics of channel send/close, WaitGroup Add/Done/Wait and of a receiver "
           "seeing the end of a channel; a goroutine loop is modelled as a fold over its arrival history; rendezvous on the unbuffered channels "
           "is abstracted (pushes never block), so absence of deadlock across composed stages is observed under a deadline, not proved",
           "verif hook pkg/obiiter/verif2_c03.go: the logged events (goroutine id parsed from runtime.Stack, iterator = channel identity, "
           "log order = order of the mutex-protected appends, Push/Close logged before the operation, Wait after it returns) are what the "
           "real iterators did"]

IMPORTS = ("From Coq Require Import List NArith Bool. Import ListNotations.\n"
           "From OBI.C03 Require Import Model.\n")

OPS_SINGLE = ["sortbatches", "rebatch", "filterempty", "filteron", "filterand", "divideon", "distribute", "worker",
              "worker_sorted", "copytee", "pipeline", "source"]
# round 2: Split used directly, Speed, LimitMemory, Load, CompleteFileIterator, conditional workers, paired filters,
# PairedWith, Distribute followed by an order-sensitive consumer per output (dispatcher path of obidistribute)
OPS_R2 = ["split", "speed", "limitmemory", "load", "load_sorted", "completefile", "completefile_sorted", "condworker",
          "condworker_sorted", "sliceworker", "filteron_p", "filterand_p", "pairedwith", "distribute_rebatch", "fragments_p"]
HARNESS_OP = dict(filteron_p="filteron", filterand_p="filterand", fragments_p="fragments")
NOT_SENT = ("tag", "malformed", "exhaustive", "nonumbering", "klass")
# round 3: the anchored code no earlier case executed (Count / Consume, chained workers and workers returning errors, Pipeable
# glue, two Rebatch stages of the same size around a filter, accessors, the file-list loader of the commands)
OPS_R3 = ["count", "consume", "chain", "chain_brk", "cond_err", "cond_err_brk", "pipeparts", "mergepipe", "rebatch_filter", "pairto_filteron", "pairto_filterand",
          "accessors"]


def wire(c):
    """the JSON sent to the harness"""
    d = {k: v for k, v in c.items() if k not in NOT_SENT}
    if c["op"] in HARNESS_OP:
        d["op"] = HARNESS_OP[c["op"]]
        d["paired"] = True
    if c["op"] == "pairedwith":
        d["paired"] = True
    return d


# ----------------------------------------------------------------------------------------------- generators
def partition(rng, nrec, nb, first_id=1):
    """split ids first_id..first_id+nrec-1 into nb batches, empty batches allowed"""
    cuts = sorted(rng.randrange(0, nrec + 1) for _ in range(max(nb - 1, 0)))
    ids = list(range(first_id, first_id + nrec))
    res, prev = [], 0
    for c in cuts + [nrec]:
        res.append(ids[prev:c])
        prev = c
    return res if nb > 0 else []


def history(parts, perm):
    return [dict(o=o, ids=parts[o]) for o in perm]


def rand_history(rng, maxb=8, maxrec=24, first_id=1):
    nb = rng.choice([0, 1, 1, 2, 3, 4, 5, 6, 7, 8][:maxb + 2])
    nrec = rng.randrange(0, maxrec + 1) if nb else 0
    parts = partition(rng, nrec, nb, first_id)
    perm = list(range(nb))
    k = rng.random()
    if k < 0.6:
        rng.shuffle(perm)
    elif k < 0.75:
        perm.reverse()
    return history(parts, perm)


nquick = [True]


def params(rng, c):
    if c["op"] == "limitmemory":
        c.setdefault("frac", 2.0)
    if c["op"] != "stress":
        # protocol trace: every corpus / exhaustive case with few batches, a third of the others
        few = sum(len(h) for h in c["streams"]) <= 3
        c.setdefault("trace", (few and "exhaustive" in c) or rng.random() < (0.34 if nquick[0] else 0.05))
    c.setdefault("size", rng.choice([1, 1, 2, 2, 3, 4, 5, 7, 50]))
    c.setdefault("nw", rng.randrange(1, 9))
    c.setdefault("mod", rng.choice([1, 2, 2, 3, 3, 4, 5]))
    c.setdefault("mod2", rng.choice([1, 2, 3]))
    c.setdefault("yield", rng.choice([0, 0, 20, 60]))
    return c


CORPUS = [
    # witnesses of the defects (always first)
    # round 3: a file named on the command line AFTER a directory is silently dropped when its name has no sequence-file extension
    dict(op="expand", streams=[], tree=[dict(path="d01", kind="d"), dict(path="d01/f01.fasta", kind="f"), dict(path="f02.txt", kind="f")],
         args=["d01", "f02.txt"], tag="expand-named-file-after-directory"),
    dict(op="expand", streams=[], tree=[dict(path="d01", kind="d"), dict(path="f02.txt", kind="f")], args=["d01", "f02.txt"],
         tag="expand-named-file-after-directory"),
    # round 3: IsNil() of the nil iterator panics instead of answering true; BioSequenceBatch.Pop0 (value receiver) leaves a nil
    # record at the head of the batch instead of removing the record
    dict(op="accessors", streams=[], data=[4, 5, 6], size=5, tag="accessors"),
    dict(op="accessors", streams=[], data=[4], size=0, paired=True, tag="accessors"),
    dict(op="accessors", streams=[], data=[], size=3, tag="accessors"),
    dict(op="concat_sorted", streams=[[], [dict(o=0, ids=[7]), dict(o=1, ids=[8])]], tag="concat-empty-first"),
    dict(op="concat", streams=[[], [dict(o=0, ids=[7])]], tag="concat-empty-first"),
    dict(op="concat_sorted", streams=[[], [], [dict(o=1, ids=[8]), dict(o=0, ids=[7])], []], tag="concat-empty-first"),
    dict(op="concat_sorted", streams=[[dict(o=0, ids=[7])], [], [dict(o=0, ids=[8])]], tag="concat-empty-middle"),
    dict(op="batchover", data=[], size=2, streams=[], tag="batchover-empty"),
    dict(op="batchover", data=[1, 2, 3, 4, 5], size=2, streams=[]),
    dict(op="copytee", streams=[[dict(o=0, ids=[1]), dict(o=1, ids=[2])]], dl=3000, tag="copytee-close"),
    dict(op="copytee", streams=[[]], dl=3000, tag="copytee-close"),
    dict(op="readfiles", streams=[[dict(o=1, ids=[2]), dict(o=0, ids=[1])]], tag="readfiles-order"),
    dict(op="readfiles", streams=[[dict(o=0, ids=[1])], [dict(o=2, ids=[5]), dict(o=0, ids=[3]), dict(o=1, ids=[4])]], tag="readfiles-order"),
    dict(op="readfiles", streams=[[], [dict(o=0, ids=[3]), dict(o=1, ids=[4])], []]),
    # boundary
    dict(op="sortbatches", streams=[[]]),
    dict(op="rebatch", size=1, streams=[[dict(o=0, ids=[])]]),
    dict(op="rebatch", size=3, streams=[[dict(o=1, ids=[4, 5, 6]), dict(o=0, ids=[1, 2, 3])]]),
    dict(op="rebatch", size=3, streams=[[dict(o=1, ids=[4, 5, 6, 7]), dict(o=0, ids=[1, 2, 3])]]),
    dict(op="filterempty", streams=[[dict(o=2, ids=[]), dict(o=0, ids=[]), dict(o=1, ids=[])]]),
    dict(op="filterempty", streams=[[dict(o=2, ids=[3]), dict(o=0, ids=[]), dict(o=1, ids=[])]]),
    dict(op="divideon", size=2, mod=1, streams=[[dict(o=0, ids=[1, 2, 3])]]),
    dict(op="distribute", size=1, mod=3, streams=[[dict(o=1, ids=[4, 5, 6]), dict(o=0, ids=[1, 2, 3])]]),
    dict(op="distribute", size=2, mod=3, streams=[[]]),
    dict(op="pool", streams=[[], [dict(o=0, ids=[])], []]),
    dict(op="pool", streams=[[dict(o=0, ids=[1]), dict(o=1, ids=[2])], [dict(o=0, ids=[3])], [dict(o=1, ids=[5]), dict(o=0, ids=[4])]]),
    dict(op="pairto", size=2, streams=[[dict(o=0, ids=[1, 2, 3])], [dict(o=1, ids=[13]), dict(o=0, ids=[11, 12])]]),
    # witnesses of round 2: a worker count of 0 (obigrep --max-cpu 0: CLIParallelWorkers() has no lower bound)
    dict(op="filteron", nw=0, mod=2, size=2, streams=[[dict(o=1, ids=[3, 4]), dict(o=0, ids=[1, 2])]], tag="zero-workers"),
    dict(op="filterand", nw=0, mod=2, size=2, streams=[[]], tag="zero-workers"),
    dict(op="fragments", nw=0, size=2, minsize=10, length=10, overlap=2, streams=[[dict(o=0, ids=[3, 9])]], tag="zero-workers"),
    # round 2 boundary cases
    dict(op="split", nw=3, streams=[[dict(o=1, ids=[3, 4]), dict(o=0, ids=[1, 2]), dict(o=2, ids=[])]]),
    dict(op="split", nw=4, streams=[[]]),
    dict(op="speed", streams=[[dict(o=1, ids=[3, 4]), dict(o=0, ids=[1, 2])]]),
    dict(op="speed", streams=[[]]),
    dict(op="limitmemory", frac=0.0, streams=[[dict(o=1, ids=[3, 4]), dict(o=0, ids=[1, 2])]], dl=30000, tag="memory limit always exceeded: forwards after 10000 yields"),
    dict(op="completefile", streams=[[]]),
    dict(op="completefile_sorted", streams=[[dict(o=1, ids=[]), dict(o=0, ids=[])]]),
    dict(op="completefile_sorted", streams=[[dict(o=1, ids=[3, 4]), dict(o=0, ids=[1, 2])]]),
    dict(op="load_sorted", streams=[[dict(o=1, ids=[3, 4]), dict(o=2, ids=[]), dict(o=0, ids=[1, 2])]]),
    dict(op="condworker_sorted", nw=2, mod=3, mod2=2, streams=[[dict(o=1, ids=[3, 4]), dict(o=0, ids=[1, 2])]]),
    dict(op="filteron_p", nw=2, mod=2, size=2, streams=[[dict(o=1, ids=[3, 4]), dict(o=0, ids=[1, 2])]]),
    dict(op="filterand_p", nw=2, mod=2, size=2, streams=[[dict(o=1, ids=[3, 4, 6, 8]), dict(o=0, ids=[1, 2])]]),
    dict(op="pairedwith", streams=[[dict(o=1, ids=[3, 4]), dict(o=0, ids=[1, 2])]]),
    dict(op="distribute_rebatch", size=2, mod=2, mod2=3, streams=[[dict(o=1, ids=[3, 4, 5, 6, 7]), dict(o=0, ids=[1, 2])]]),
    dict(op="distribute_rebatch", size=1, mod=3, mod2=1, streams=[[]]),
    dict(op="fragments_p", nw=2, size=2, minsize=10, length=10, overlap=2, streams=[[dict(o=0, ids=[3, 9])]]),
    # round 3 boundary cases
    dict(op="expand", streams=[], tree=[dict(path="f02.txt", kind="f"), dict(path="d01", kind="d"), dict(path="d01/f01.fasta", kind="f")], args=["f02.txt", "d01"]),
    dict(op="expand", streams=[], tree=[dict(path="f02.txt", kind="f")], args=["f02.txt", "f02.txt"]),
    dict(op="expand", streams=[], tree=[dict(path="f02.txt", kind="f")], args=["f02.txt", "f09.fasta"]),
    dict(op="expand", streams=[], tree=[dict(path="f02.txt", kind="f")], args=[]),
    dict(op="expand", streams=[], tree=[dict(path="d01", kind="d"), dict(path="d01/d02", kind="d"), dict(path="d01/d02/d03", kind="d"), dict(path="d01/d02/d03/f01.fastq.gz", kind="f"),
                                        dict(path="d01/d02/f04.txt", kind="f"), dict(path="d01/f00.seq", kind="f")], args=["d01/d02", "d01", "d01/d02/f04.txt"]),
    dict(op="expand", streams=[], tree=[dict(path="d01", kind="d"), dict(path="d01/f01.fasta", kind="f"), dict(path="d01/f03.txt", kind="f"), dict(path="d05", kind="d"),
                                        dict(path="d05/f06.gb", kind="f"), dict(path="d01/l02", kind="l", target="d05"), dict(path="l07", kind="l", target="d01/f03.txt"),
                                        dict(path="l08", kind="l", target="d01")], args=["l07", "l08", "d05"]),
    dict(op="count", counts=True, streams=[[dict(o=1, ids=[3, 4]), dict(o=2, ids=[]), dict(o=0, ids=[1, 2])]]),
    dict(op="count", counts=True, streams=[[]]),
    dict(op="consume", streams=[[dict(o=1, ids=[3, 4]), dict(o=0, ids=[1, 2])]]),
    dict(op="consume", streams=[[]]),
    dict(op="chain", nw=2, mod=3, mod2=2, errmod=0, nilw=0, streams=[[dict(o=1, ids=[3, 4, 5, 6, 7]), dict(o=0, ids=[1, 2])]]),
    dict(op="chain", nw=2, mod=5, mod2=7, errmod=4, nilw=0, streams=[[dict(o=1, ids=[3, 4, 5, 6, 7, 8]), dict(o=0, ids=[1, 2])]]),
    dict(op="chain", nw=3, mod=5, mod2=7, errmod=4, nilw=1, streams=[[dict(o=1, ids=[3, 4, 5, 6, 7, 8]), dict(o=0, ids=[1, 2])]]),
    dict(op="chain", nw=1, mod=5, mod2=7, errmod=4, nilw=2, streams=[[dict(o=1, ids=[3, 4, 5, 6, 7, 8]), dict(o=0, ids=[1, 2])]]),
    dict(op="chain", nw=2, mod=5, mod2=7, errmod=4, nilw=3, streams=[[dict(o=1, ids=[3, 4, 5, 6, 7, 8]), dict(o=0, ids=[1, 2])]]),
    dict(op="chain_brk", nw=2, mod=5, mod2=7, errmod=4, nilw=0, streams=[[dict(o=1, ids=[4, 5, 6, 8]), dict(o=0, ids=[1, 2])]], tag="the second worker fails: logged, not fatal"),
    dict(op="chain_brk", nw=2, mod=5, mod2=7, errmod=4, nilw=0, streams=[[dict(o=1, ids=[4, 5, 6, 7, 8]), dict(o=0, ids=[1, 2])]], tag="the first worker fails: fatal"),
    dict(op="chain_brk", nw=2, mod=5, mod2=7, errmod=4, nilw=1, streams=[[dict(o=0, ids=[1, 2, 4])]], tag="the only worker fails: fatal"),
    dict(op="pipeparts", nw=2, mod=3, mod2=2, streams=[[dict(o=1, ids=[3, 4, 5, 6, 7]), dict(o=0, ids=[1, 2])]]),
    dict(op="cond_err", nw=2, mod=5, mod2=1, errmod=4, streams=[[dict(o=1, ids=[3, 4, 5, 6, 7, 8]), dict(o=0, ids=[1, 2])]], tag="the worker fails on 3 and 7: dropped"),
    dict(op="cond_err", nw=2, mod=5, mod2=2, errmod=4, streams=[[dict(o=1, ids=[3, 4, 5, 6, 7, 8]), dict(o=0, ids=[1, 2])]], tag="3 and 7 are not selected: kept"),
    dict(op="cond_err_brk", nw=2, mod=5, mod2=2, errmod=4, streams=[[dict(o=1, ids=[3, 4, 5, 6, 7, 8]), dict(o=0, ids=[1, 2])]], tag="no selected record fails"),
    dict(op="cond_err_brk", nw=2, mod=5, mod2=7, errmod=4, streams=[[dict(o=1, ids=[3, 4, 5, 6, 7, 8]), dict(o=0, ids=[1, 2])]], tag="7 is selected and fails: fatal"),
    # ill-formed pairs (outside the property; the model predicts the fatal error): the reverse file is shorter
    dict(op="pairto", size=2, streams=[[dict(o=0, ids=[1, 2, 3])], [dict(o=0, ids=[11, 12])]], trace=False),
    dict(op="pairto_filteron", size=2, mod=1, nw=2, streams=[[dict(o=0, ids=[1, 2, 3])], [dict(o=0, ids=[11, 12])]], trace=False),
    dict(op="mergepipe", size=2, streams=[[dict(o=1, ids=[3, 4, 5]), dict(o=0, ids=[1, 2]), dict(o=2, ids=[6])]], nonumbering=True),
    # a batch of exactly `size` records arrives while a remainder is buffered
    dict(op="rebatch", size=3, streams=[[dict(o=0, ids=[1]), dict(o=1, ids=[2, 3, 4]), dict(o=2, ids=[5, 6, 7]), dict(o=3, ids=[8, 9])]], klass="aligned"),
    dict(op="rebatch", size=3, streams=[[dict(o=2, ids=[6, 7, 8]), dict(o=1, ids=[3, 4, 5]), dict(o=0, ids=[1, 2]), dict(o=3, ids=[9])]], klass="aligned"),
    dict(op="rebatch", size=2, streams=[[dict(o=0, ids=[1]), dict(o=1, ids=[2, 3, 4, 5]), dict(o=2, ids=[]), dict(o=3, ids=[6, 7])]], klass="aligned"),
    dict(op="rebatch_filter", size=3, mod=1, nw=2, streams=[[dict(o=0, ids=[1]), dict(o=1, ids=[2, 3, 4]), dict(o=2, ids=[5, 6, 7]), dict(o=3, ids=[8, 9])]], klass="aligned"),
    dict(op="rebatch_filter", size=2, mod=3, nw=3, streams=[[dict(o=1, ids=[3, 4, 5, 6, 7]), dict(o=0, ids=[1, 2])]]),
    dict(op="pairto_filteron", size=2, mod=2, nw=2, streams=[[dict(o=1, ids=[3, 4, 5, 6, 7]), dict(o=0, ids=[1, 2])], [dict(o=0, ids=[11, 12, 13, 14, 15, 16, 17])]]),
    dict(op="pairto_filterand", size=2, mod=2, nw=2, streams=[[dict(o=1, ids=[3, 4, 5, 6, 7]), dict(o=0, ids=[1, 2])], [dict(o=0, ids=[11, 12, 13, 14, 15, 16, 18])]]),
    dict(op="pairto_filterand", size=3, mod=1, nw=2, streams=[[dict(o=0, ids=[1]), dict(o=1, ids=[2, 3, 4]), dict(o=2, ids=[5, 6])], [dict(o=0, ids=[11, 12, 13]), dict(o=1, ids=[14, 15, 16])]], klass="aligned"),
    dict(op="pairto_filteron", size=2, mod=2, nw=1, streams=[[], []]),
    dict(op="batchover", paired=True, data=[1, 2, 3, 4, 5], size=2, streams=[]),
    dict(op="batchover", paired=True, data=[], size=2, streams=[]),
    # ReadSequencesBatchFromFiles: Add(readers) / one Done per reader, whatever the number of files
    dict(op="readfiles_par", nw=4, streams=[]),
    dict(op="readfiles_par", nw=8, streams=[[dict(o=1, ids=[2]), dict(o=0, ids=[1])]]),
    dict(op="readfiles_par", nw=3, streams=[[dict(o=0, ids=[1])], [dict(o=0, ids=[41])]]),
    # malformed numbering (outside the hypothesis of the property: model correspondence only)
    dict(op="sortbatches", streams=[[dict(o=0, ids=[1]), dict(o=2, ids=[3]), dict(o=3, ids=[4])]], malformed=True),
    dict(op="sortbatches", streams=[[dict(o=1, ids=[1]), dict(o=1, ids=[2]), dict(o=0, ids=[3]), dict(o=2, ids=[4])]], malformed=True),
    dict(op="rebatch", size=2, streams=[[dict(o=0, ids=[1]), dict(o=2, ids=[3]), dict(o=3, ids=[4])]], malformed=True),
]


def gen_cases(ctx, scale=1):
    rng = ctx.rng
    nquick[0] = ctx.quick
    cases = [params(rng, dict(c, trace=True)) for c in CORPUS]
    # exhaustive: every arrival permutation of n batch numbers
    maxn = 5 if ctx.quick else 7
    exh = 0
    for n in range(0, maxn + 1):
        parts = partition(rng, 2 * n + 1 if n else 0, n)
        if n >= 2:
            parts[rng.randrange(n)] = []           # at least one empty batch
        perms = list(itertools.permutations(range(n)))
        for perm in perms:
            ops = ["sortbatches", "rebatch"] + [rng.choice(["filterempty", "divideon", "distribute", "filteron", "worker_sorted", "pipeline", "concat_sorted"])] + \
                  [rng.choice(["split", "completefile_sorted", "condworker_sorted", "filterand_p", "filteron_p", "distribute_rebatch", "load_sorted"])]
            if len(perms) <= 24:
                ops = ["sortbatches", "rebatch", "filterempty", "divideon", "distribute", "filteron", "worker_sorted", "pipeline", "concat_sorted",
                       "split", "completefile_sorted", "condworker_sorted", "filterand_p", "filteron_p", "distribute_rebatch"]
            for op in ops:
                c = params(rng, dict(op=op, streams=[history(parts, perm)], exhaustive=n))
                if op == "concat_sorted":
                    c["streams"] = [rand_history(rng, 3, 6, 100)] + c["streams"] if rng.random() < 0.5 else c["streams"] + [rand_history(rng, 3, 6, 100)]
                cases.append(c)
                exh += 1
    ctx.cov["exhaustive"] = "every arrival permutation of 0..%d batch numbers (%d cases)" % (maxn, exh)
    # random single-stream cases
    nrand = (60 if ctx.quick else 1500) * scale
    for op in OPS_SINGLE:
        for _ in range(nrand if op != "copytee" else nrand // 4):
            cases.append(params(rng, dict(op=op, streams=[rand_history(rng)])))
    for op in PAIRED_OPS:       # paired streams through the combinators that must keep the paired mark and the mates
        if op == "batchover":      # no input stream: generated with the round-3 cases
            continue
        for _ in range(max(nrand // 6, 2)):
            if op in ("concat", "concat_sorted", "pool"):
                streams = [rand_history(rng, 4, 8, 1 + 40 * k) for k in range(rng.randrange(1, 4))]
            else:
                streams = [rand_history(rng)]
            cases.append(params(rng, dict(op=op, paired=True, streams=streams)))
    for op in OPS_R2:
        for _ in range(nrand // 3 if op in ("speed", "limitmemory", "load", "completefile", "sliceworker", "pairedwith", "load_sorted", "condworker") else (2 * nrand) // 3):
            c = dict(op=op, streams=[rand_history(rng)])
            if op == "fragments_p":
                length = rng.choice([5, 8, 10, 20, 30])
                c.update(length=length, overlap=rng.randrange(0, length - 1), minsize=rng.choice([length, length + 3, 2 * length, 0]))
            cases.append(params(rng, c))
    # multi-stream: concat / pool with empty streams at every position
    for op in ("concat", "concat_sorted", "pool", "readfiles", "readfiles_par"):
        for _ in range(nrand):
            k = rng.randrange(1, 6)
            streams = []
            fid = 1
            for _ in range(k):
                h = [] if rng.random() < 0.3 else rand_history(rng, 5, 10, fid)
                fid += 40
                streams.append(h)
            cases.append(params(rng, dict(op=op, streams=streams)))
    # worker counts 1..8 on one history
    for nw in range(1, 9):
        for op in ("worker", "worker_sorted", "filteron", "pipeline", "split", "condworker", "filterand_p"):
            for _ in range(3 if ctx.quick else 40):
                cases.append(params(rng, dict(op=op, nw=nw, streams=[rand_history(rng)], **{"yield": rng.choice([0, 30, 100])})))
    # batchover
    for _ in range(nrand):
        n = rng.choice([0, 1, 2, 3, 5, 8, 13])
        cases.append(params(rng, dict(op="batchover", data=list(range(1, n + 1)), streams=[])))
    # pairto (well-formed pairs: same number of records in both files)
    for _ in range(nrand // 2):
        n = rng.randrange(0, 14)
        cases.append(params(rng, dict(op="pairto", streams=[history_n(rng, n, 1), history_n(rng, n, 101)])))
    # fragments (IFragments: sequence of record id has length 1 + 7*id mod 61)
    for _ in range(nrand):
        length = rng.choice([5, 8, 10, 20, 30])
        overlap = rng.randrange(0, length - 1)
        minsize = rng.choice([length, length + 3, 2 * length, 0])
        cases.append(params(rng, dict(op="fragments", streams=[rand_history(rng)], minsize=minsize, length=length, overlap=overlap)))
    # IMergeSequenceBatch: every (non-empty) batch merged into one record, in arrival order
    for _ in range(nrand // 2):
        h = [b for b in rand_history(rng) if b["ids"]]
        cases.append(params(rng, dict(op="merge", streams=[h], nonumbering=True)))
    # ill-formed pairs (outside the property: the model must still predict fatal / truncation)
    for _ in range(4 if ctx.quick else 40):
        n = rng.randrange(1, 10)
        m = rng.choice([k for k in range(0, 12) if k != n])
        # no protocol trace: with a longer reverse file the producer of the reverse side stays blocked for ever (transcribed, outside the property)
        cases.append(params(rng, dict(op="pairto", streams=[history_n(rng, n, 1), history_n(rng, m, 101)], trace=False)))
    cases += gen_r3(ctx, nrand)
    return cases


def aligned_history(rng, size, first_id=1, maxb=7):
    """a partition whose batch lengths are 0, 1, size-1, size, size+1 or 2*size: batches of exactly `size` records arrive while a
    remainder is buffered, batches end exactly on a boundary, ... (classes a uniformly random partition rarely produces for size >= 3)"""
    nb = rng.randrange(2, maxb + 1)
    lens = [rng.choice([0, 1, max(size - 1, 0), size, size, size, size + 1, 2 * size]) for _ in range(nb)]
    if size not in lens[1:]:
        lens[rng.randrange(1, nb)] = size
    if rng.random() < 0.7 and lens[0] % max(size, 1) == 0:
        lens[0] = rng.choice([1, max(size - 1, 1)])       # a remainder is buffered when the full batches arrive
    parts, nxt = [], first_id
    for n in lens:
        parts.append(list(range(nxt, nxt + n)))
        nxt += n
    perm = list(range(nb))
    if rng.random() < 0.5:
        rng.shuffle(perm)
    return history(parts, perm)


EXT_OK = ("fasta", "fasta.gz", "fastq", "fastq.gz", "seq", "seq.gz", "gb", "gb.gz", "dat", "dat.gz", "ecopcr", "ecopcr.gz")
EXTS = [".fasta", ".fastq", ".fasta.gz", ".seq", ".gb", ".dat.gz", ".ecopcr", ".txt", ".fa", ".fastq.bak", "", ".txt", ".fasta"]


def rand_tree(rng):
    """a directory tree: names f<NN><ext> (regular files) and d<NN> (directories), the numbers distinct among siblings"""
    tree = []
    def fill(prefix, depth):
        nums = rng.sample(range(0, 30), rng.randrange(0, 6))
        for k in nums:
            if depth < 3 and rng.random() < 0.3:
                p = "%sd%02d" % (prefix, k)
                tree.append(dict(path=p, kind="d"))
                fill(p + "/", depth + 1)
            else:
                tree.append(dict(path="%sf%02d%s" % (prefix, k, rng.choice(EXTS)), kind="f"))
    fill("", 0)
    return tree


def gen_r3(ctx, nrand):
    rng = ctx.rng
    cases = []
    n3 = max(nrand // 2, 4)
    for op in OPS_R3:
        for _ in range(n3 if op not in ("consume", "accessors") else n3 // 3):
            c = dict(op=op, streams=[rand_history(rng)])
            if op == "count":
                c["counts"] = True
            if op in ("chain", "chain_brk"):
                c.update(errmod=rng.choice([0, 0, 4, 5, 7, 11] if op == "chain" else [0, 5, 7, 11, 13, 29]), nilw=rng.choice([0, 0, 0, 1, 2, 3]),
                         mod=rng.choice([2, 3, 4, 5, 6]), mod2=rng.choice([2, 3, 5, 7]))
            if op in ("cond_err", "cond_err_brk"):
                c.update(errmod=rng.choice([0, 4, 5, 7] if op == "cond_err" else [0, 5, 7, 11, 13, 29]), mod=rng.choice([2, 3, 4, 5, 6]), mod2=rng.choice([1, 2, 3]))
            if op == "mergepipe":
                c["streams"] = [[b for b in c["streams"][0] if b["ids"]]]
                c["nonumbering"] = True
            if op in ("pairto_filteron", "pairto_filterand"):
                n = rng.randrange(0, 16)
                c["streams"] = [history_n(rng, n, 1), history_n(rng, n, 101)]
            if op == "accessors":
                n = rng.choice([0, 1, 2, 5])
                c.update(streams=[], data=[rng.randrange(1, 400) for _ in range(n)], paired=rng.random() < 0.5, size=rng.choice([0, 1, 7, 5000]))
            cases.append(params(rng, c))
    # input class: batch lengths aligned on the batch size (rebatching stages, alone and composed)
    for op in ("rebatch", "rebatch_filter", "filteron", "filterand_p", "divideon", "distribute", "pipeline", "pairto_filterand", "pairto", "distribute_rebatch"):
        for _ in range(n3):
            size = rng.choice([1, 2, 3, 3, 4, 5, 8])
            c = dict(op=op, size=size, klass="aligned", streams=[aligned_history(rng, size)], mod=rng.choice([1, 1, 2, 3]))
            if op in ("pairto_filterand", "pairto"):
                n = len(recs(c["streams"][0]))
                parts, left = [], n
                while left > 0:
                    k = min(left, rng.choice([1, size, size, size + 1, 2 * size]))
                    parts.append(list(range(101 + n - left, 101 + n - left + k)))
                    left -= k
                perm = list(range(len(parts)))
                rng.shuffle(perm)
                c["streams"].append(history(parts, perm))
            cases.append(params(rng, c))
    # input class: every (number of files, number of reader goroutines) pair of the batch-of-files reader
    for nf in range(0, 7):
        for nr in range(1, 9):
            if ctx.quick and rng.random() < 0.5 and nf not in (0, 1) and nr not in (1, 8):
                continue
            streams = [([] if rng.random() < 0.25 else rand_history(rng, 3, 6, 1 + 40 * k)) for k in range(nf)]
            cases.append(params(rng, dict(op="readfiles_par", nw=nr, streams=streams, klass="files-x-readers", trace=True)))
    # IBatchOver on paired data
    for _ in range(max(n3 // 3, 2)):
        n = rng.choice([0, 1, 2, 3, 5, 8, 13])
        cases.append(params(rng, dict(op="batchover", paired=True, data=list(range(1, n + 1)), streams=[])))
    # the file-list loader of the commands on real directory trees
    for _ in range(2 * n3):
        tree = rand_tree(rng)
        paths = [n["path"] for n in tree]
        args = [rng.choice(paths) for _ in range(rng.randrange(0, 5))] if paths else []
        if rng.random() < 0.15:
            args.insert(rng.randrange(len(args) + 1), "f99.fasta")       # no such file
        if rng.random() < 0.25 and paths:                                  # some symbolic links (judged by the oracle only)
            for k in range(rng.randrange(1, 3)):
                name = "l%02d" % (40 + k)
                tree.append(dict(path=name, kind="l", target=rng.choice(paths)))
                args.insert(rng.randrange(len(args) + 1), name)
        cases.append(params(rng, dict(op="expand", streams=[], tree=tree, args=args)))
    return cases


def history_n(rng, nrec, first_id):
    nb = rng.randrange(1, 5) if nrec else rng.randrange(0, 3)
    parts = partition(rng, nrec, nb, first_id)
    perm = list(range(nb))
    rng.shuffle(perm)
    return history(parts, perm)


# ----------------------------------------------------------------------------------------------- direct oracle
def wf(mod, i):
    if mod <= 0:
        return [i]
    return [] if i % mod == 0 else ([i, i + 500] if i % mod == 1 else [i])


def mate(i):
    return 1000 + (i * 7 + i // 3) % 50


def subseq(a, b):
    it = iter(b)
    return all(any(x == y for y in it) for x in a)


def long_seq(i):
    return "".join("acgt"[(i + j * j + j // 3) % 4] for j in range(1 + (7 * i) % 61))


def pred(mod, i):
    return mod > 0 and i % mod == 0


def recs(h):
    return [i for b in sorted(h, key=lambda b: b["o"]) for i in b["ids"]]


def wellnumbered(h):
    return sorted(b["o"] for b in h) == list(range(len(h)))


def flat(bs):
    return [i for b in bs for i in b["ids"]]


def chunked(bs, size, what):
    """numbers 0..m-1 in delivery order; every batch but the last has exactly `size` records, the last 1..size"""
    if [b["o"] for b in bs] != list(range(len(bs))):
        return "%s: batch numbers %s are not 0..%d in order" % (what, [b["o"] for b in bs], len(bs) - 1)
    for k, b in enumerate(bs):
        n = len(b["ids"])
        if (k < len(bs) - 1 and n != size) or not (1 <= n <= size):
            return "%s: batch %d has %d records (size %d)" % (what, k, n, size)
    return None


PAIRED_OPS = ("sortbatches", "rebatch", "filterempty", "divideon", "concat", "concat_sorted", "pool", "worker_sorted", "completefile_sorted",
              "speed", "limitmemory", "copytee", "batchover")


def oracle(c, o):
    """None if the observation satisfies the property on this case, else a text saying what fails."""
    why = oracle_core(c, o)
    if why is None and c.get("paired") and c["op"] in PAIRED_OPS and not c.get("malformed"):
        # a paired stream stays paired through the combinator: the output iterators are marked paired (the writers
        # decide on that mark whether the file of mates is written) and every record is still linked to its mate
        for x in o["outs"]:
            if c["op"] == "batchover" and not c["data"]:
                continue        # an empty slice carries no pairing
            if not x.get("paired"):
                return "%s on a paired stream returns an iterator that is not marked paired (output %d)" % (c["op"], x["key"])
            for b in x["batches"]:
                exp = [mate(i) if i < 500 else -1 for i in b["ids"]]
                if [p if i < 500 else -1 for i, p in zip(b["ids"], b.get("pids") or [])] != exp:
                    return "%s: batch %d: records %s are linked to mates %s, expected %s" % (c["op"], b["o"], b["ids"], b.get("pids"), exp)
    return why


def oracle_core(c, o):
    if c.get("malformed"):
        return None
    op = c["op"]
    if o["kind"] == "crash":
        return "harness process crashed or hung: " + o.get("err", "")[-200:]
    if o["kind"] == "panic":
        return "panic: " + o.get("panic", "")
    if op in ("pairto", "pairto_filteron", "pairto_filterand") and len(recs(c["streams"][0])) != len(recs(c["streams"][1])):
        return None
    if op == "expand":
        exp = expand_ref(c["tree"], c["args"])
        got = None if o.get("err") else o.get("files", [])
        if got != exp:
            return "ExpandListOfFiles%s: got %s expected %s (every file named on the command line, the sequence files of every directory named on it, each once, in order)" % (c["args"], got, exp)
        return None
    if op in ("chain", "chain_brk"):
        fails, exp = chain_ref(c)
        if op == "chain_brk" and fails:
            return None if o.get("fatal") else "a worker failed on a record and breakOnError is set: the run must stop (log.Fatal), it went on"
    if op == "cond_err_brk" and cond_ref(c)[0]:
        return None if o.get("fatal") else "the worker failed on a selected record and breakOnError is set: the run must stop (log.Fatal), it went on"
    if o.get("fatal"):
        return "log.Fatal called"
    if not o["term"]:
        return "termination: not every output stream was closed before the deadline (closed=%s)" % [x["closed"] for x in o["outs"]]
    outs = {x["key"]: x["batches"] for x in o["outs"]}
    if c.get("paired") and op in PAIRED_OPS:      # the mates are judged by oracle(); here the records
        outs = {k: [dict(o=b["o"], ids=b["ids"]) for b in bs] for k, bs in outs.items()}
    S = c["streams"]
    size = c.get("size", 1)
    for h in S:
        assert c.get("nonumbering") or wellnumbered(h), "generator produced a malformed history"
    out0 = outs.get(0, [])

    def same(got, exp, what):
        return None if got == exp else "%s: got %s expected %s" % (what, got, exp)

    def noextra(bs):
        return [dict(o=b["o"], ids=b["ids"]) for b in bs]

    def mates_ok(bs, what):
        for b in bs:
            if b.get("pids") != [mate(i) for i in b["ids"]]:
                return "%s: batch %d: records %s are linked to mates %s, expected %s" % (what, b["o"], b["ids"], b.get("pids"), [mate(i) for i in b["ids"]])
        return None

    if op in ("sortbatches", "source", "speed", "limitmemory"):
        exp = sorted(S[0], key=lambda b: b["o"]) if op == "sortbatches" else S[0]
        return same(out0, exp, "delivered batches")
    if op == "split":
        per = [x["batches"] for x in o["outs"]]
        if len(per) != max(c["nw"], 1):
            return "split: %d consumers observed, %d started" % (len(per), c["nw"])
        key = lambda b: (b["o"], tuple(b["ids"]))
        if sorted(key(b) for bs in per for b in bs) != sorted(key(b) for b in S[0]):
            return "split: the batches received by the %d consumers %s are not exactly the batches pushed %s" % (len(per), per, S[0])
        for bs in per:
            if not subseq(bs, S[0]):
                return "split: a consumer received %s, not in channel order %s" % (bs, S[0])
        return None
    if op in ("load", "load_sorted", "completefile", "completefile_sorted"):
        allr = recs(S[0])       # Load sorts the collected batches by number (stable): input order whatever the arrival order
        if op.startswith("load"):
            return same(out0, [dict(o=0, ids=allr)], "loaded slice")
        return same(out0, [dict(o=0, ids=allr)] if allr else [], "single batch of the complete file")
    if op in ("condworker", "condworker_sorted", "sliceworker"):
        sel = (lambda i: True) if op == "sliceworker" else (lambda i: pred(c["mod2"], i))
        # the worker on the selected records, the others unchanged, at their place
        exp = [dict(o=b["o"], ids=[j for i in b["ids"] for j in (wf(c["mod"], i) if sel(i) else [i])]) for b in sorted(S[0], key=lambda b: b["o"])]
        got = out0 if op != "condworker" else sorted(out0, key=lambda b: b["o"])
        return same(got, exp, "delivered batches")
    if op in ("filteron_p", "filterand_p"):
        keep = (lambda i: pred(c["mod"], i)) if op == "filteron_p" else (lambda i: pred(c["mod"], i) and pred(c["mod"], mate(i)))
        if not o["outs"][0].get("paired"):
            return "%s on a paired stream returns an iterator that is not marked paired" % op
        return same(flat(out0), [i for i in recs(S[0]) if keep(i)], "records") or mates_ok(out0, op) or chunked(out0, size, op)
    if op == "pairedwith":
        return same(noextra(out0), [dict(o=b["o"], ids=[mate(i) for i in b["ids"]]) for b in S[0]], "batches of mates") or \
               same([dict(o=b["o"], ids=b.get("pids") or []) for b in out0], S[0], "records the mates are linked back to")
    if op == "distribute_rebatch":
        r = recs(S[0])
        mod = max(c["mod"], 1)
        keys = []
        for i in r:
            if i % mod not in keys:
                keys.append(i % mod)
        e = same(o.get("news", []), keys, "announced keys") or same(sorted(outs), sorted(keys), "output streams")
        if e:
            return e
        for k in keys:
            e = same(flat(outs[k]), [i for i in r if i % mod == k], "stream of key %d" % k) or chunked(outs[k], max(c["mod2"], 1), "stream of key %d" % k)
            if e:
                return e
        return None
    if op == "rebatch":
        return same(flat(out0), recs(S[0]), "records") or chunked(out0, size, "rebatch")
    if op == "filterempty":
        exp = [b["ids"] for b in sorted(S[0], key=lambda b: b["o"]) if b["ids"]]
        return same(out0, [dict(o=k, ids=x) for k, x in enumerate(exp)], "delivered batches")
    if op in ("filteron", "filterand"):
        return same(flat(out0), [i for i in recs(S[0]) if pred(c["mod"], i)], "records") or chunked(out0, size, op)
    if op == "divideon":
        t, f = outs.get(1, []), outs.get(0, [])
        r = recs(S[0])
        return (same(flat(t), [i for i in r if pred(c["mod"], i)], "true stream") or chunked(t, size, "true stream") or
                same(flat(f), [i for i in r if not pred(c["mod"], i)], "false stream") or chunked(f, size, "false stream"))
    if op == "distribute":
        r = recs(S[0])
        mod = max(c["mod"], 1)
        keys = []
        for i in r:
            if i % mod not in keys:
                keys.append(i % mod)
        e = same(o.get("news", []), keys, "announced keys") or same(sorted(outs), sorted(keys), "output streams")
        if e:
            return e
        if not o.get("unk"):
            return "distribute: Outputs(key) of a key that was never announced must be an error"
        for k in keys:
            e = same(flat(outs[k]), [i for i in r if i % mod == k], "stream of key %d" % k) or chunked(outs[k], size, "stream of key %d" % k)
            if e:
                return e
        return None
    if op in ("concat", "concat_sorted"):
        n = sum(len(h) for h in S)
        exp = [i for h in S for i in recs(h)]
        if sorted(b["o"] for b in out0) != list(range(n)):
            return "concat: %d input batches, output batch numbers %s are not a permutation of 0..%d" % (n, [b["o"] for b in out0], n - 1)
        if op == "concat_sorted" and [b["o"] for b in out0] != list(range(n)):
            return "concat|sortbatches: batches delivered out of order %s" % [b["o"] for b in out0]
        return same(recs(out0), exp, "records in batch-number order")
    if op == "readfiles":
        n = sum(len(h) for h in S)
        if [b["o"] for b in out0] != list(range(n)):
            return "readfiles: %d input batches, output batch numbers %s are not 0..%d in order" % (n, [b["o"] for b in out0], n - 1)
        return same(flat(out0), [i for h in S for i in recs(h)], "records (file after file, each in its own order)")
    if op == "readfiles_par":
        n = sum(len(h) for h in S)
        if sorted(b["o"] for b in out0) != list(range(n)):
            return "readfiles: %d input batches, output batch numbers %s are not a permutation of 0..%d" % (n, [b["o"] for b in out0], n - 1)
        r = recs(out0)
        for h in S:        # files may interleave (--no-order) but each file keeps its own order
            mine = set(recs(h))
            e = same([i for i in r if i in mine], recs(h), "records of one file, in batch-number order")
            if e:
                return e
        return same(sorted(r), sorted(i for h in S for i in recs(h)), "multiset of records")
    if op == "pool":
        n = sum(len(h) for h in S)
        if sorted(b["o"] for b in out0) != list(range(n)):
            return "pool: %d input batches, output batch numbers %s are not a permutation of 0..%d" % (n, [b["o"] for b in out0], n - 1)
        return same(sorted(b["ids"] for b in out0), sorted(b["ids"] for h in S for b in h), "multiset of batch contents")
    if op in ("worker", "worker_sorted"):
        exp = [dict(o=b["o"], ids=[j for i in b["ids"] for j in wf(c["mod"], i)]) for b in sorted(S[0], key=lambda b: b["o"])]
        got = out0 if op == "worker_sorted" else sorted(out0, key=lambda b: b["o"])
        return same(got, exp, "delivered batches" + ("" if op == "worker_sorted" else " (sorted by number)"))
    if op == "batchover":
        d = c["data"]
        return same(out0, [dict(o=k, ids=d[i:i + size]) for k, i in enumerate(range(0, len(d), size))], "delivered batches")
    if op == "copytee":
        return same(outs.get(0), S[0], "first copy") or same(outs.get(1), S[0], "second copy")
    if op == "pipeline":
        exp = [j for i in recs(S[0]) for j in wf(c["mod"], i) if pred(c["mod2"], j)]
        return same(flat(out0), exp, "records") or chunked(out0, size, "pipeline")
    if op == "count":
        r = recs(S[0])
        return same(noextra(out0), [dict(o=0, ids=[len(r), sum(i % 3 + 1 for i in r), sum(1 + (7 * i) % 61 for i in r)])], "(variants, reads, nucleotides)")
    if op == "consume":
        return same(out0, [], "batches")
    if op in ("chain", "chain_brk"):
        fails, exp = chain_ref(c)
        return same(out0, exp, "delivered batches")
    if op in ("cond_err", "cond_err_brk"):
        return same(out0, cond_ref(c)[1], "delivered batches")
    if op == "pipeparts":
        exp = [dict(o=b["o"], ids=[k for i in b["ids"] for j in wf(c["mod"], i) for k in wf(c["mod2"], j)]) for b in sorted(S[0], key=lambda b: b["o"])]
        return same(out0, exp, "delivered batches")
    if op == "rebatch_filter":
        return same(flat(out0), [i for i in recs(S[0]) if pred(c["mod"], i)], "records") or chunked(out0, size, op)
    if op in ("pairto_filteron", "pairto_filterand"):
        a, b = recs(S[0]), recs(S[1])
        kept = [(x, y) for x, y in zip(a, b) if pred(c["mod"], x) and (op == "pairto_filteron" or pred(c["mod"], y))]
        if not o["outs"][0].get("paired"):
            return "%s returns an iterator that is not marked paired" % op
        return (same(flat(out0), [x for x, _ in kept], "forward records") or same([i for x in out0 for i in x.get("pids", [])], [y for _, y in kept], "paired mates") or
                chunked(out0, size, op))
    if op == "accessors":
        d = c["data"]
        ne = 1 if d else 0
        exp = [ne, ne if c.get("paired") else 0, 0, 0, 1, size + 1, 0, size + 1, 1, 0, d[0] + 1 if d else 0, 1]
        names = ["batch.NotEmpty()", "batch.IsPaired()", "IsNil() of a live iterator", "BatchSize()+1 of a new iterator", "SetBatchSize(size) accepted",
                 "BatchSize()+1 after it", "SetBatchSize(-1) accepted", "BatchSize()+1 after it", "IsNil() of the nil iterator (2 = panic)",
                 "IsPaired() after UnPair()", "id+1 of the record returned by Pop0", "a chained worker on a nil record gives no record and no error"]
        got = flat(out0)
        for k, (g, e) in enumerate(zip(got, exp)):
            if g != e:
                return "accessors: %s is %d, expected %d" % (names[k], g, e)
        return (same(len(got), len(exp), "number of answers") or same(outs.get(1), [], "batches of the iterator closed by Add/Done/WaitAndClose") or
                same(noextra(outs.get(2, [])), [dict(o=7, ids=d[1:])], "the batch after Pop0 (Pop0 returns AND removes the first record)"))
    if op in ("merge", "mergepipe"):
        return same(flat(out0), [b["ids"][0] for b in S[0]], "merged records (one per input batch, arrival order)") or chunked(out0, size, "merge")
    if op in ("fragments", "fragments_p"):
        e = chunked(out0, size, "fragments")
        if e:
            return e
        frs = [(i, n, q) for b in out0 for i, n, q in zip(b["ids"], b.get("names") or [], b.get("seqs") or [])]
        if len(frs) != len(flat(out0)):
            return "fragments: names/sequences missing"
        src = recs(S[0])
        groups = []           # consecutive fragments of the same source record
        for i, n, q in frs:
            if groups and groups[-1][0] == i and "_sub" in n:
                groups[-1][1].append(q)
            else:
                groups.append((i, [q], n))
        if [g[0] for g in groups] != src:
            return "fragments: source records %s expected %s" % ([g[0] for g in groups], src)
        step = c["length"] - c["overlap"]
        for i, fs, n in groups:
            full = long_seq(i)
            if len(full) <= c["minsize"]:
                if fs != [full]:
                    return "fragments: record %d (length %d <= minsize) must pass unchanged, got %s" % (i, len(full), fs)
                if op == "fragments_p" and [p for b in out0 for j, p in zip(b["ids"], b.get("pids") or []) if j == i] != [mate(i)]:
                    return "fragments: record %d passes unchanged but lost its mate" % i
                continue
            if "".join(f[:step] for f in fs[:-1]) + fs[-1] != full:
                return "fragments: the non-overlapping parts of the fragments of record %d do not rebuild its sequence" % i
            if any(len(f) != c["length"] for f in fs[:-1]) or not (1 <= len(fs[-1]) < c["length"] + step):
                return "fragments: record %d fragment lengths %s (length %d, step %d)" % (i, [len(f) for f in fs], c["length"], step)
        return None
    if op == "pairto":
        a, b = recs(S[0]), recs(S[1])
        return (same(flat(out0), a, "forward records") or same([i for x in out0 for i in x.get("pids", [])], b, "paired mates") or
                chunked(out0, size, "pairto"))
    return "unknown op"


def chain_ref(c):
    """(some record makes the chained worker fail, expected batches) for MakeIWorker(w1.ChainWorkers(w2), breakOnError)"""
    e, nilw = c.get("errmod", 0), c.get("nilw", 0)
    w1 = None if nilw & 1 else (lambda i: None if e > 0 and i % e == 3 else wf(c["mod"], i))
    w2 = None if nilw & 2 else (lambda i: None if e > 0 and i % e == 4 else wf(c["mod2"], i))
    if w1 and w2:
        def w(i):
            r = w1(i)
            return None if r is None else [k for j in r for k in (w2(j) or [])]      # a failure of the second worker is logged and dropped
    else:
        w = w1 or w2 or (lambda i: [i])
    fails = any(w(i) is None for i in recs(c["streams"][0]))
    return fails, [dict(o=b["o"], ids=[k for i in b["ids"] for k in (w(i) or [])]) for b in sorted(c["streams"][0], key=lambda b: b["o"])]


def cond_ref(c):
    """(the worker fails on some selected record, expected batches) for MakeIConditionalWorker(id mod mod2 == 0, worker failing on id mod errmod == 3)"""
    e = c.get("errmod", 0)
    bad = lambda i: e > 0 and i % e == 3
    sel = lambda i: pred(c["mod2"], i)
    fails = any(sel(i) and bad(i) for i in recs(c["streams"][0]))
    return fails, [dict(o=b["o"], ids=[j for i in b["ids"] for j in (([] if bad(i) else wf(c["mod"], i)) if sel(i) else [i])]) for b in sorted(c["streams"][0], key=lambda b: b["o"])]


def ext_ok(path):
    return any(path.endswith(x) for x in EXT_OK)


def expand_ref(tree, args):
    """the list of files of the command line: for every argument in order — a regular file: itself, whatever its name; a directory: the files
    below it that have a sequence-file extension, in lexical order, sub-directories included; symbolic links are followed; each path once,
    at its first occurrence; None: some argument does not exist"""
    nodes = {n["path"]: n for n in tree}
    def resolve(p):
        for _ in range(20):
            n = nodes.get(p)
            if n is None or n["kind"] != "l":
                return p
            p = n["target"]
        return p
    def children(d):
        return sorted((p for p in nodes if p.startswith(d + "/") and "/" not in p[len(d) + 1:]), key=lambda p: p.split("/"))
    out = []
    def add(p):
        if p not in out:
            out.append(p)
    def walk(d):
        for ch in children(d):
            q = resolve(ch)
            if nodes[q]["kind"] == "d":
                walk(q)
            elif ext_ok(q):
                add(q)
    for a in args:
        if a not in nodes:
            return None
        q = resolve(a)
        if nodes[q]["kind"] == "d":
            walk(q)
        else:
            add(q)
    return out


KNOWN_KEYS = {"concat-empty-first": "Concat: when the first stream(s) are empty the output batches are numbered from 1, so SortBatches and every ordered consumer downstream deliver nothing",
              "batchover-empty": "IBatchOver panics on an empty slice (data.IsPaired() indexes element 0)",
              "readfiles-order": "ReadSequencesBatchFromFiles renumbers the batches of each file in ARRIVAL order: with several input files the records of a file are reordered whenever its parser workers deliver batches out of order",
              "copytee-close": "CopyTee never calls Done on its first output: neither output is ever closed, consumers hang",
              "expand-named-file-after-directory": "ExpandListOfFiles: once a directory has been met on the command line, the files NAMED after it are silently "
                                                   "dropped unless their name has a sequence-file extension (check_ext stays set)",
              "accessors": "IsNil() panics on the nil iterator / BioSequenceBatch.Pop0 leaves a nil record in the batch"}


def known_key(c, o):
    if c["op"] in ("concat", "concat_sorted") and c["streams"] and not c["streams"][0] and any(c["streams"]):
        return "concat-empty-first"
    if c["op"] in ("readfiles", "readfiles_par") and any([b["o"] for b in h] != sorted(b["o"] for b in h) for h in c["streams"]):
        return "readfiles-order"
    if c["op"] == "batchover" and not c["data"] and o["kind"] == "panic":
        return "batchover-empty"
    if c["op"] == "copytee" and o["kind"] == "ok" and not o["term"]:
        return "copytee-close"
    if c["op"] == "expand":
        return "expand-named-file-after-directory"
    if c["op"] == "accessors":
        return "accessors"
    return None


# ----------------------------------------------------------------------------------------------- rendering to Gallina
def nl(l):
    return "[" + ";".join(str(x) for x in l) + "]%N"


def hist(h):
    return "[" + ";".join("(%d,%s)" % (b["o"], nl(b["ids"])) for b in h) + "]"


OPC = dict(split="OSplit", speed="OForward", limitmemory="OForward", load="OLoad", load_sorted="OLoadSorted", completefile="OCompleteFile",
           completefile_sorted="OCompleteFileSorted", condworker="OCondWorker", condworker_sorted="OCondWorkerSorted", sliceworker="OWorkerSorted",
           filteron_p="OFilterOnP", filterand_p="OFilterAndP", pairedwith="OPairedWith", distribute_rebatch="ODistRebatch", source="OSource", sortbatches="OSort", rebatch="ORebatch", filterempty="OFilterEmpty", filteron="OFilterOn",
           filterand="OFilterOn", divideon="ODivideOn", distribute="ODistribute", concat="OConcat", concat_sorted="OConcatSorted",
           pool="OPool", worker="OWorker", worker_sorted="OWorkerSorted", batchover="OBatchOver", copytee="OCopyTee",
           pipeline="OPipeline", readfiles="OReadFiles", readfiles_par="OReadFilesPar", pairto="OPairTo", fragments="OFragments", fragments_p="OFragments", merge="OMerge", mergepipe="OMerge")


def case_term(c, o):
    outs = "[" + ";".join("(%d,%s)" % (x["key"], hist(x["batches"])) for x in o["outs"]) + "]"
    if c["op"] in ("pairto", "filteron_p", "filterand_p", "pairedwith"):      # key 0: the records, key 1: the mates they are linked to
        bs = o["outs"][0]["batches"] if o["outs"] else []
        outs = "[(0,%s);(1,%s)]" % (hist(bs), hist([dict(o=b["o"], ids=b.get("pids") or []) for b in bs]))
    streams = "[" + ";".join(hist(h) for h in c["streams"]) + "]"
    kind = "KPanic" if o["kind"] == "panic" else ("KFatal" if o.get("fatal") else ("KOk" if o["term"] else "KHang"))
    opc = OPC[c["op"]]
    fouts = "[]"
    if c["op"] in ("fragments", "fragments_p"):
        opc = "(OFragments %d %d %d)" % (c["minsize"], c["length"], c["overlap"])
        bs = o["outs"][0]["batches"] if o["outs"] else []
        fouts = "[" + ";".join("(%d,[%s])" % (b["o"], ";".join(nl(["acgt".index(ch) for ch in q]) for q in b.get("seqs") or [])) for b in bs) + "]"
    return "mkc %s %s %s %d %d%%N %d%%N %s %s [%s] %s" % (opc, streams, nl(c.get("data") or []), c.get("size", 1), max(c.get("mod", 1), 1),
                                                   max(c.get("mod2", 1), 1), kind, outs, ";".join(str(k) for k in o.get("news") or []), fouts)



IMPORTS3 = IMPORTS + "From OBI.C03 Require Import Model3.\n"
OPC3 = dict(count="OCount", consume="OConsume", pipeparts="OPipeParts", rebatch_filter="ORebatchFilter", pairto_filteron="(OPairToFilter false)",
            pairto_filterand="(OPairToFilter true)")


def case_term3(c, o):
    op = c["op"]
    outs = "[" + ";".join("(%d,%s)" % (x["key"], hist([dict(o=b["o"], ids=[max(i, 0) for i in b["ids"]]) for b in x["batches"]])) for x in o["outs"]) + "]"
    if op in ("pairto_filteron", "pairto_filterand"):      # key 0: the records, key 1: the mates they are linked to
        bs = o["outs"][0]["batches"] if o["outs"] else []
        outs = "[(0,%s);(1,%s)]" % (hist(bs), hist([dict(o=b["o"], ids=b.get("pids") or []) for b in bs]))
    if op in ("chain", "chain_brk"):
        opc = "(OChain %d%%N %d %s)" % (c.get("errmod", 0), c.get("nilw", 0), "true" if op == "chain_brk" else "false")
    elif op in ("cond_err", "cond_err_brk"):
        opc = "(OCondErr %d%%N %s)" % (c.get("errmod", 0), "true" if op == "cond_err_brk" else "false")
    elif op == "accessors":
        opc = "(OAccessors %s)" % ("true" if c.get("paired") else "false")
        if any(i < 0 for x in o["outs"] for b in x["batches"] for i in b["ids"]):     # a nil record: no model value
            outs = "[]"
    else:
        opc = OPC3[op]
    kind = "KPanic" if o["kind"] == "panic" else ("KFatal" if o.get("fatal") else ("KOk" if o["term"] else "KHang"))
    return "mkc3 %s %s %s %d %d%%N %d%%N %s %s" % (opc, "[" + ";".join(hist(h) for h in c["streams"]) + "]", nl(c.get("data") or []), c.get("size", 1),
                                                 max(c.get("mod", 1), 1), max(c.get("mod2", 1), 1), kind, outs)


def path_term(p):
    """a path as the list of the numbers of its names (f07.fasta -> 7, d03 -> 3: distinct among siblings by construction)"""
    return nl([int(re.sub(r"[^0-9].*$", "", x[1:])) for x in p.split("/")])


def expand_term(c, o):
    tree = sorted(c["tree"], key=lambda n: n["path"].split("/"))       # the order in which filepath.Walk visits the entries
    t = "[" + ";".join("(%s,%s,%s)" % (path_term(n["path"]), "true" if n["kind"] == "d" else "false", "true" if ext_ok(n["path"]) else "false") for n in tree) + "]"
    obs = "None" if o.get("err") else "(Some [%s])" % ";".join(path_term(f) for f in o.get("files", []))
    return "(%s,[%s],%s)" % (t, ";".join(path_term(a) for a in c["args"]), obs)


# ----------------------------------------------------------------------------------------------- end to end (commands)
def fasta(recs):
    return "".join(">%s\n%s\n" % (i, s) for i, s in recs)


def out_ids(text):
    return [l[1:].split()[0] for l in text.splitlines() if l.startswith(">")]


def e2e_cases(ctx):
    """(args, input files {name: records}, stdin name or None, expected stdout ids, expected ids of extra output files)"""
    rng = ctx.rng
    def mk(n, first):
        return [("r%d" % (first + k), "".join(rng.choice("acgt") for _ in range(rng.randrange(5, 40)))) for k in range(n)]
    sets = dict(big=mk(240 if ctx.quick else 1500, 1), one=mk(1, 5001), empty=[], second=mk(37, 7001),
                short1=[("r6001", "acgtacgt")])      # one record, not selected by -l 20: the witness of the side-output exit race
    cpus = [1, 2, 3, 8] if ctx.quick else [1, 2, 3, 4, 5, 6, 7, 8, 16]
    sizes = [1, 2, 7, 100] if ctx.quick else [1, 2, 3, 7, 16, 50, 100, 5000]
    L = 20
    cases = []
    for cpu in cpus:
        for bs in sizes:
            opt = ["--max-cpu", str(cpu), "--batch-size", str(bs)]
            for name in ("big", "one", "empty", "short1"):
                r = sets[name]
                ids = [i for i, _ in r]
                sel = [i for i, s in r if len(s) >= L]
                rej = [i for i, s in r if len(s) < L]
                cases.append(dict(cmd="obiconvert", args=opt + [name], stdin=None, exp=ids, extra={}))
                cases.append(dict(cmd="obigrep", args=opt + ["-l", str(L), name], stdin=None, exp=sel, extra={}))
                cases.append(dict(cmd="obigrep", args=opt + ["-l", str(L), "--save-discarded", "@discarded", name], stdin=None, exp=sel, extra={"@discarded": rej}))
                cases.append(dict(cmd="obiannotate", args=opt + ["--length", name], stdin=None, exp=ids, extra={}))
            cases.append(dict(cmd="obiconvert", args=opt, stdin="big", exp=[i for i, _ in sets["big"]], extra={}))
            if cpu == cpus[0]:      # a worker count of 0 is accepted by the option parser
                r = sets["big"]
                cases.append(dict(cmd="obigrep", args=["--max-cpu", "0", "--batch-size", str(bs), "-l", str(L), "big"], stdin=None,
                                  exp=[i for i, s in r if len(s) >= L], extra={}))
            for files in (["big", "second"], ["empty", "second"], ["one", "empty", "second"]):
                cases.append(dict(cmd="obiconvert", args=opt + files, stdin=None, exp=[i for f in files for i, _ in sets[f]], extra={}))
    return sets, cases


def e2e_run(ctx, bindir, sets, c, wd):
    os.makedirs(wd, exist_ok=True)
    for name, r in sets.items():
        p = os.path.join(wd, name + ".fasta")
        if not os.path.exists(p) or open(p).read() != fasta(r):
            open(p, "w").write(fasta(r))
    extra_paths = {}
    args = []
    for a in c["args"]:
        if a in sets:
            args.append(os.path.join(wd, a + ".fasta"))
        elif a.startswith("@"):
            extra_paths[a] = os.path.join(wd, a[1:] + ".out")
            if os.path.exists(extra_paths[a]):
                os.remove(extra_paths[a])
            args.append(extra_paths[a])
        else:
            args.append(a)
    inp = fasta(sets[c["stdin"]]).encode() if c["stdin"] else b""
    rc, out, err, dt = vlib.sh([os.path.join(bindir, c["cmd"])] + args, timeout=60, inp=inp)
    if rc == 124:        # stalled host: once more before calling it a hang
        rc, out, err, dt = vlib.sh([os.path.join(bindir, c["cmd"])] + args, timeout=120, inp=inp)
    obs = dict(rc=rc, ids=out_ids(out), extra={k: (out_ids(open(p).read()) if os.path.exists(p) else None) for k, p in extra_paths.items()})
    why = None
    if rc == 124:
        why = "termination: the command did not finish within 60 s"
    elif rc != 0:
        why = "exit code %d: %s" % (rc, err[-300:])
    elif obs["ids"] != c["exp"]:
        why = "stdout ids differ from the selected records in input order (%d delivered, %d expected)" % (len(obs["ids"]), len(c["exp"]))
    else:
        for k, exp in c["extra"].items():
            if (obs["extra"][k] or []) != exp:
                why = "ids of %s differ from the expected records in input order" % k
    return obs, why


def e2e(ctx, broken):
    bindir, err = ctx.build_cmds(["obiconvert", "obigrep", "obiannotate"])
    if bindir is None:
        broken.append(dict(kind="command-build", detail=err))
        return
    sets, cases = e2e_cases(ctx)
    wd = os.path.join(vlib.BUILD, "c03_e2e_" + hashlib.sha1(vlib.REPO.encode()).hexdigest()[:8])
    from concurrent.futures import ThreadPoolExecutor
    with ThreadPoolExecutor(max_workers=1) as ex:      # sequential: the commands are themselves parallel; extra output files are shared
        res = list(ex.map(lambda c: e2e_run(ctx, bindir, sets, c, wd), cases))
    nbad = 0
    for k, (c, (obs, why)) in enumerate(zip(cases, res)):
        if why:
            nbad += 1
            if nbad <= 2:
                ctx.violation("e2e_%d" % k, dict(property="C03", kind="e2e", case=c, sets={n: sets[n] for n in set(c["args"]) & set(sets) | ({c["stdin"]} if c["stdin"] else set())},
                                                implementation=dict(rc=obs["rc"], n_ids=len(obs["ids"]), first_ids=obs["ids"][:20], extra={a: (v or [])[:20] for a, v in obs["extra"].items()}),
                                                expected=why))
    ctx.cov["e2e_command_runs"] = len(cases)
    ctx.cov["e2e_grid"] = "obiconvert/obigrep(-l, --save-discarded)/obiannotate x --max-cpu x --batch-size x {240+ records, 1 record, empty, stdin, several files incl. empty first}"

# ----------------------------------------------------------------------------------------------- end to end, round 2
def ids_of(text):
    """record identifiers of a fasta / fastq text, in file order"""
    lines = text.splitlines()
    if lines and lines[0].startswith("@"):
        return [l[1:].split()[0] for l in lines[0::4]]
    return [l[1:].split()[0] for l in lines if l.startswith(">")]


def e2e2_files(ctx, wd):
    """inputs LARGER than the 1 MiB read buffer of the readers (a smaller file is a single chunk whatever --batch-size, so the
    parser workers never deliver out of order), an empty file, a pair of fastq files of mates"""
    rng = ctx.rng
    def sq(n):
        return "".join(rng.choices("acgt", k=n))
    F = {}
    F["hugeA"] = [("h%d" % (k + 1), sq(rng.randrange(150, 380)), "s%d" % rng.randrange(5)) for k in range(9000)]
    F["hugeB"] = [("g%d" % (k + 1), sq(rng.randrange(150, 380)), "s%d" % rng.randrange(5)) for k in range(4500)]
    F["none"] = []
    F["fwd"] = [("p%d" % (k + 1), sq(rng.randrange(20, 60)), "") for k in range(13000)]
    F["rev"] = [("p%d" % (k + 1), sq(rng.randrange(20, 60)), "") for k in range(13000)]
    os.makedirs(wd, exist_ok=True)
    paths = {}
    for name, recs in F.items():
        fq = name in ("fwd", "rev")
        paths[name] = os.path.join(wd, name + (".fastq" if fq else ".fasta"))
        with open(paths[name], "w") as f:
            for i, q, smp in recs:
                f.write("@%s\n%s\n+\n%s\n" % (i, q, "I" * len(q)) if fq else ">%s {\"sample\":\"%s\"}\n%s\n" % (i, smp, q))
    return F, paths


def e2e2_cases(ctx, F):
    grid = [(2, 100), (8, 1700), (8, 100)] if ctx.quick else [(c, b) for c in (1, 2, 3, 8, 16) for b in (10, 100, 1700, 5000)]
    ids = {n: [r[0] for r in F[n]] for n in F}
    L = 250
    both30 = [a[0] for a, b in zip(F["fwd"], F["rev"]) if len(a[1]) >= 30 and len(b[1]) >= 30]
    cases = []
    for k, (cpu, bs) in enumerate(grid):
        opt = ["--max-cpu", str(cpu), "--batch-size", str(bs)]
        def add(cmd, args, stdout=None, files=None, per_file=None):
            cases.append(dict(cmd=cmd, args=opt + args, stdout=stdout, files=files or {}, per_file=per_file))
        add("obiconvert", ["hugeA"], stdout=ids["hugeA"])
        add("obigrep", ["-l", str(L), "hugeA"], stdout=[r[0] for r in F["hugeA"] if len(r[1]) >= L])
        add("obiconvert", ["hugeA", "none", "hugeB"], stdout=ids["hugeA"] + ids["hugeB"])
        add("obiconvert", ["--no-order", "hugeB", "none", "hugeA"], per_file=[ids["hugeB"], ids["hugeA"]])
        add("obiconvert", ["fwd"], stdout=ids["fwd"])
        add("obiconvert", ["--paired-with", "rev", "fwd", "--out", "@P.fastq"], files={"P_R1.fastq": ids["fwd"], "P_R2.fastq": ids["rev"]})
        add("obigrep", ["-l", "30", "--paired-mode", "and", "--paired-with", "rev", "fwd", "--out", "@G.fastq"], files={"G_R1.fastq": both30, "G_R2.fastq": both30})
        add("obidistribute", ["-c", "sample", "-p", "@D_%s.fasta", "hugeA"],
            files={"D_s%d.fasta" % v: [r[0] for r in F["hugeA"] if r[2] == "s%d" % v] for v in range(5)})
        add("obipairing", ["-F", "fwd", "-R", "rev"], stdout=ids["fwd"])
        if k == 0 or not ctx.quick:
            add("obiannotate", ["--length", "hugeB", "hugeA"], stdout=ids["hugeB"] + ids["hugeA"])
    return cases


def e2e2_run(bindir, paths, c, wd):
    import shutil
    shutil.rmtree(wd, ignore_errors=True)
    os.makedirs(wd)
    args = [paths[a] if a in paths else (os.path.join(wd, a[1:]) if a.startswith("@") else a) for a in c["args"]]
    rc, out, err, dt = vlib.sh([os.path.join(bindir, c["cmd"])] + args, timeout=120)
    if rc == 124:        # stalled host: once more before calling it a hang
        shutil.rmtree(wd, ignore_errors=True)
        os.makedirs(wd)
        rc, out, err, dt = vlib.sh([os.path.join(bindir, c["cmd"])] + args, timeout=240)
    got = ids_of(out)
    obs = dict(rc=rc, n_stdout=len(got), first_stdout=got[:10], files={})
    if rc == 124:
        return obs, "termination: the command did not finish within 120 s"
    if rc != 0:
        return obs, "exit code %d: %s" % (rc, err[-300:])
    def cmp(got, exp, what):
        if got == exp:
            return None
        if sorted(got) == sorted(exp):
            k = next(i for i, (a, b) in enumerate(zip(got, exp)) if a != b)
            return "%s: the %d records are delivered in another order (first difference at position %d: %s instead of %s)" % (what, len(exp), k, got[k], exp[k])
        return "%s: %d records delivered, %d expected (%d missing, %d unexpected or duplicated)" % (
            what, len(got), len(exp), len(set(exp) - set(got)), len(got) - len(set(got) & set(exp)))
    why = None
    if c["stdout"] is not None:
        why = cmp(got, c["stdout"], "stdout")
    if c["per_file"] is not None:      # --no-order: files may interleave, each keeps its own order, nothing lost
        for exp in c["per_file"]:
            mine = set(exp)
            why = why or cmp([i for i in got if i in mine], exp, "records of one input file")
        why = why or (None if len(got) == sum(len(e) for e in c["per_file"]) else "stdout: %d records for %d in the inputs" % (len(got), sum(len(e) for e in c["per_file"])))
    for fn, exp in c["files"].items():
        p = os.path.join(wd, fn)
        g = ids_of(open(p).read()) if os.path.exists(p) else None
        obs["files"][fn] = None if g is None else len(g)
        why = why or ("output file %s is missing" % fn if g is None else cmp(g, exp, fn))
    extra = sorted(set(os.listdir(wd)) - set(c["files"]))
    if extra and not why:
        why = "unexpected output files %s" % extra
    return obs, why


def e2e2(ctx, broken):
    bindir, err = ctx.build_cmds(["obiconvert", "obigrep", "obiannotate", "obidistribute", "obipairing"])
    if bindir is None:
        broken.append(dict(kind="command-build", detail=err))
        return
    base = os.path.join(vlib.BUILD, "c03_e2e2_" + hashlib.sha1(vlib.REPO.encode()).hexdigest()[:8])
    F, paths = e2e2_files(ctx, os.path.join(base, "in"))
    cases = e2e2_cases(ctx, F)
    from concurrent.futures import ThreadPoolExecutor
    with ThreadPoolExecutor(max_workers=3) as ex:
        res = list(ex.map(lambda kc: e2e2_run(bindir, paths, kc[1], os.path.join(base, "out%d" % kc[0])), enumerate(cases)))
    nbad = 0
    for k, (c, (obs, why)) in enumerate(zip(cases, res)):
        if why:
            nbad += 1
            if nbad <= 2:
                ctx.violation("e2e2_%d" % k, dict(property="C03", kind="e2e2", case=dict(cmd=c["cmd"], args=c["args"]), seed=ctx.seed, tier=ctx.tier,
                                                 implementation=obs, expected=why,
                                                 note="inputs are regenerated from the seed: replay re-runs the whole round-2 end-to-end grid"))
    ctx.cov["e2e2_command_runs"] = len(cases)
    ctx.cov["e2e2_grid"] = ("obiconvert / obigrep / obiannotate / obidistribute -c / obipairing / paired obiconvert and obigrep (--paired-with, _R1/_R2 files) on "
                            "inputs of 1.2-2.5 MiB (several 1 MiB reader chunks), several files incl. an empty one, --no-order, x --max-cpu x --batch-size")


# ----------------------------------------------------------------------------------------------- end to end, round 3: the command-line glue
def gb_record(i, q):
    lines = ["LOCUS       %-16s %d bp    DNA     linear   UNA 01-JAN-2000" % (i, len(q)), "DEFINITION  definition of %s." % i, "SOURCE      Homo sapiens",
             "FEATURES             Location/Qualifiers", "     source          1..%d" % len(q), '                     /db_xref="taxon:9606"', "ORIGIN"]
    for k in range(0, len(q), 60):
        ch = q[k:k + 60]
        lines.append("%9d %s" % (k + 1, " ".join(ch[j:j + 10] for j in range(0, len(ch), 10))))
    return "\n".join(lines + ["//"]) + "\n"


def embl_record(i, q):
    lines = ["ID   %s; SV 1; linear; genomic DNA; STD; UNC; %d BP." % (i, len(q)), "XX", "DE   definition of %s" % i, "XX", "OS   Homo sapiens",
             "FH   Key             Location/Qualifiers", "FH", "FT   source          1..%d" % len(q), 'FT                   /db_xref="taxon:9606"', "XX",
             "SQ   Sequence %d BP;" % len(q)]
    for k in range(0, len(q), 60):
        ch = q[k:k + 60]
        lines.append("     %-66s%9d" % (" ".join(ch[j:j + 10] for j in range(0, len(ch), 10)), min(k + 60, len(q))))
    return "\n".join(lines + ["//"]) + "\n"


def e2e3_files(ctx, wd):
    """small inputs in every format the reader glue knows + a directory tree + a file without a sequence-file extension"""
    import shutil
    rng = ctx.rng
    shutil.rmtree(wd, ignore_errors=True)
    os.makedirs(os.path.join(wd, "D", "sub"))
    os.makedirs(os.path.join(wd, "emptydir", "sub"))
    def mk(prefix, n):
        return [("%s%d" % (prefix, k + 1), "".join(rng.choices("acgt", k=rng.randrange(12, 150)))) for k in range(n)]
    R = dict(A=mk("a", 60), Q=mk("q", 45), G=mk("g", 23), E=mk("e", 21), X=mk("x", 9), Y=mk("y", 7), N=mk("n", 3), T=mk("t", 5), P1=mk("p", 33))
    R["P2"] = [(i, "".join(rng.choices("acgt", k=rng.randrange(12, 90)))) for i, _ in R["P1"]]
    fa = lambda r: "".join('>%s {"k":%d}\n%s\n' % (i, n, q) for n, (i, q) in enumerate(r))
    fq = lambda r: "".join("@%s\n%s\n+\n%s\n" % (i, q, "I" * len(q)) for i, q in r)
    texts = {"A.fasta": fa(R["A"]), "A_obi.fasta": "".join(">%s k=%d; some definition\n%s\n" % (i, n, q) for n, (i, q) in enumerate(R["A"])),
             "Q.fastq": fq(R["Q"]), "G.gb": "".join(gb_record(i, q) for i, q in R["G"]), "E.embl": "".join(embl_record(i, q) for i, q in R["E"]),
             "D/x.fasta": fa(R["X"]), "D/sub/y.fasta": fa(R["Y"]), "D/notes.txt": fa(R["N"]), "T.txt": fa(R["T"]), "empty.fasta": "",
             "P1.fastq": fq(R["P1"]), "P2.fastq": fq(R["P2"]), "emptydir/readme.txt": fa(R["N"]), "bad.gz": "\x1f\x8b\x08garbage"}
    for fn, t in texts.items():
        open(os.path.join(wd, fn), "w", encoding="latin1").write(t)
    return R, texts


def e2e3_cases(ctx, R):
    ids = {k: [i for i, _ in v] for k, v in R.items()}
    C = []
    def add(cmd, args, exp, stdin=None, out=None, fmt="fasta", rc0=True, tty=False, attrs=None, gz=False):
        C.append(dict(cmd=cmd, args=args, exp=exp, stdin=stdin, out=out, fmt=fmt, rc0=rc0, tty=tty, attrs=attrs, gz=gz))
    # the list of files: directories, a named file without extension before / after a directory, a file named twice, a missing file
    add("obiconvert", ["D"], ids["Y"] + ids["X"])
    add("obiconvert", ["D", "T.txt"], ids["Y"] + ids["X"] + ids["T"])
    add("obiconvert", ["T.txt", "D"], ids["T"] + ids["Y"] + ids["X"])
    add("obiconvert", ["D/sub", "T.txt", "D", "A.fasta"], ids["Y"] + ids["T"] + ids["X"] + ids["A"])
    add("obiconvert", ["T.txt", "T.txt"], ids["T"])
    add("obiconvert", ["--no-order", "T.txt", "D"], None, fmt="set:" + ",".join(ids["T"] + ids["Y"] + ids["X"]))
    add("obiconvert", ["A.fasta", "missing.fasta"], [], rc0=False)
    add("obiconvert", ["missing.fasta"], [], rc0=False)
    add("obiconvert", ["emptydir"], [])           # a directory without any sequence file: an empty input, not a crash
    add("obiconvert", ["emptydir", "T.txt"], ids["T"])
    add("obiconvert", ["bad.gz"], [], rc0=False)      # a truncated gzip file / standard input: reported, non-zero exit code
    add("obiconvert", ["--genbank"], [], stdin="bad.gz", rc0=False)
    add("obigrep", ["-l", "50", "D", "T.txt"], [i for k in ("Y", "X", "T") for i, q in R[k] if len(q) >= 50])
    # input formats, files and standard input; header formats
    for opt, fn, key in (("--genbank", "G.gb", "G"), ("--embl", "E.embl", "E"), ("--fastq", "Q.fastq", "Q"), ("--fasta", "A.fasta", "A")):
        add("obiconvert", [opt, fn], ids[key], fmt="fastq" if key == "Q" else "fasta")
        add("obiconvert", [fn], ids[key], fmt="fastq" if key == "Q" else "fasta")
        add("obiconvert", [opt], ids[key], stdin=fn, fmt="fastq" if key == "Q" else "fasta")
        add("obiconvert", [opt], [], stdin="empty.fasta")
    add("obiconvert", [], ids["A"], stdin="A.fasta")
    add("obiconvert", [], ids["Q"], stdin="Q.fastq", fmt="fastq")
    add("obiconvert", [], [], stdin="empty.fasta")
    add("obiconvert", ["--ecopcr"], [], stdin="empty.fasta")
    add("obiconvert", ["G.gb", "E.embl", "A.fasta"], ids["G"] + ids["E"] + ids["A"])
    add("obiconvert", ["--fasta", "--input-OBI-header", "A_obi.fasta"], ids["A"], attrs="k")
    add("obiconvert", ["--input-json-header", "A.fasta"], ids["A"], attrs="k")
    add("obiconvert", ["A_obi.fasta"], ids["A"], attrs="k")
    # output formats, header formats, compression, output file, progress bar (stderr is a character device)
    add("obiconvert", ["-O", "A.fasta"], ids["A"])
    add("obiconvert", ["--output-json-header", "A_obi.fasta"], ids["A"], attrs="k")
    add("obiconvert", ["--fasta-output", "Q.fastq"], ids["Q"])
    add("obiconvert", ["--fastq-output", "Q.fastq"], ids["Q"], fmt="fastq")
    add("obiconvert", ["--json-output", "A.fasta"], ids["A"], fmt="json")
    add("obiconvert", ["-Z", "A.fasta"], ids["A"], gz=True)
    add("obiconvert", ["-Z", "--fastq-output", "Q.fastq"], ids["Q"], fmt="fastq", gz=True)
    for extra, fmt, fn in ((["--fasta-output"], "fasta", "o.fasta"), (["--fastq-output"], "fastq", "o.fastq"), (["--json-output"], "json", "o.json"), ([], "fastq", "o.any")):
        add("obiconvert", extra + ["Q.fastq", "-o", "@" + fn], ids["Q"], out=[fn], fmt=fmt)
    add("obiconvert", ["-Z", "A.fasta", "--out", "@o.fasta.gz"], ids["A"], out=["o.fasta.gz"], gz=True)
    add("obiconvert", ["A.fasta", "Q.fastq"], ids["A"] + ids["Q"], tty=True)
    add("obiconvert", ["--no-progressbar", "A.fasta"], ids["A"], tty=True)
    add("obigrep", ["-l", "60", "A.fasta"], [i for i, q in R["A"] if len(q) >= 60], tty=True)
    # paired files, each output format
    for extra, fmt, fn in ((["--fasta-output"], "fasta", "p.fasta"), (["--fastq-output"], "fastq", "p.fastq"), (["--json-output"], "json", "p.json")):
        r1, r2 = fn.replace("p.", "p_R1."), fn.replace("p.", "p_R2.")
        add("obiconvert", extra + ["--paired-with", "P2.fastq", "P1.fastq", "-o", "@" + fn], ids["P1"], out=[r1, r2], fmt=fmt)
    add("obiconvert", ["--paired-with", "missing.fastq", "P1.fastq", "-o", "@p.fastq"], [], rc0=False)
    # obiannotate chains one worker per option (ChainWorkers)
    add("obiannotate", ["--length", "--rename-tag", "j=k", "A.fasta"], ids["A"], attrs="chain")
    add("obiannotate", ["--length", "-l", "60", "--rename-tag", "j=k", "A.fasta"], ids["A"], attrs="cond60")
    return C


def parse_out(text, fmt):
    """[(id, {attributes}, sequence)] of a fasta / fastq / json output"""
    if fmt == "json":
        return [(r["id"], r.get("annotations") or {}, r.get("sequence", "")) for r in json.loads(text or "[]")]
    lines = text.splitlines()
    res = []
    if fmt == "fastq":
        for k in range(0, len(lines) - 3, 4):
            res.append((lines[k], lines[k + 1]))
    else:
        for l in lines:
            if l.startswith(">"):
                res.append((l, ""))
            elif res:
                res[-1] = (res[-1][0], res[-1][1] + l)
    out = []
    for h, q in res:
        i = h[1:].split()[0] if len(h) > 1 else ""
        a = {}
        m = re.search(r"\{.*\}", h)
        if m:
            try:
                a = json.loads(m.group(0))
            except ValueError:
                a = {}
        else:
            for kv in re.findall(r"(\w+)=([^;]*);", h):
                a[kv[0]] = int(kv[1]) if kv[1].strip().lstrip("-").isdigit() else kv[1]
        out.append((i, a, q))
    return out


def e2e3_run(bindir, wd, R, c, k):
    import subprocess, gzip, shutil
    od = os.path.join(wd, "out%d" % k)
    shutil.rmtree(od, ignore_errors=True)
    os.makedirs(od)
    args = [os.path.join(od, a[1:]) if a.startswith("@") else (os.path.join(wd, a) if os.path.exists(os.path.join(wd, a)) or a.startswith("missing") else a) for a in c["args"]]
    seqs = {i: q for v in R.values() for i, q in v if not i.startswith("p")}
    def once(timeout):
        with open(os.path.join(wd, c["stdin"]) if c["stdin"] else os.devnull, "rb") as fin, open(os.devnull, "wb") as null:
            try:
                p = subprocess.run([os.path.join(bindir, c["cmd"])] + args, stdin=fin, stdout=subprocess.PIPE, stderr=null if c["tty"] else subprocess.PIPE, timeout=timeout)
                return p.returncode, p.stdout, (p.stderr or b"").decode("latin1")
            except subprocess.TimeoutExpired:
                return 124, b"", ""
    rc, out, err = once(60)
    if rc == 124:
        rc, out, err = once(180)
    obs = dict(rc=rc)
    if rc == 124:
        return obs, "termination: the command did not finish within 60 s"
    if not c["rc0"]:
        got = parse_out(out.decode("latin1"), "fasta")
        obs["n_stdout"] = len(got)
        if rc == 0:
            return obs, "an input file that cannot be opened must end the command with a non-zero exit code"
        return obs, (None if not got else "output produced although an input file cannot be opened")
    if rc != 0:
        return obs, "exit code %d: %s" % (rc, err[-300:])
    texts = []
    try:
        if c["out"]:
            if out.strip():
                return obs, "output written on stdout although --out names a file"
            for fn in c["out"]:
                p = os.path.join(od, fn)
                if not os.path.exists(p):
                    return obs, "output file %s is missing (found %s)" % (fn, sorted(os.listdir(od)))
                texts.append(open(p, "rb").read())
            if sorted(os.listdir(od)) != sorted(c["out"]):
                return obs, "unexpected output files %s" % sorted(os.listdir(od))
        else:
            texts.append(out)
        if c["gz"]:
            texts = [gzip.decompress(t) for t in texts]
        parsed = [parse_out(t.decode("latin1"), c["fmt"] if not c["fmt"].startswith("set:") else "fasta") for t in texts]
    except Exception as ex:
        return obs, "output is not well formed %s%s: %r" % (c["fmt"], " (gzip)" if c["gz"] else "", ex)
    got = [i for i, _, _ in parsed[0]]
    obs.update(n=len(got), first=got[:8])
    if c["fmt"].startswith("set:"):
        exp = c["fmt"][4:].split(",")
        if sorted(got) != sorted(exp):
            return obs, "--no-order: the records delivered are not exactly the records of the inputs"
        for key in ("T", "X", "Y"):
            mine = [i for i, _ in R[key]]
            if [i for i in got if i in set(mine)] != mine:
                return obs, "--no-order: the records of one input file are not in their order"
        return obs, None
    if got != c["exp"]:
        return obs, "ids differ from the expected records in input order (%d delivered, %d expected; first difference at %s)" % (
            len(got), len(c["exp"]), next((k for k, (a, b) in enumerate(zip(got, c["exp"])) if a != b), min(len(got), len(c["exp"]))))
    for i, a, q in parsed[0]:
        if i in seqs and q.lower() != seqs[i]:
            return obs, "record %s: sequence differs from the input" % i
    if len(parsed) == 2:      # paired output: the k-th record of _R2 is the mate of the k-th record of _R1
        if [i for i, _, _ in parsed[1]] != c["exp"]:
            return obs, "the file of mates does not hold the mates of the forward file, in order"
        m1, m2 = dict(R["P1"]), dict(R["P2"])
        for (i, _, q1), (_, _, q2) in zip(parsed[0], parsed[1]):
            if q1.lower() != m1[i] or q2.lower() != m2[i]:
                return obs, "pair %s: the sequences are not those of the two input files" % i
    if c["attrs"] == "k":
        bad = [i for n, (i, a, _) in enumerate(parsed[0]) if a.get("k") != n]
        if bad:
            return obs, "attribute k of the title line lost or altered on %d records (first %s)" % (len(bad), bad[0])
    if c["attrs"] in ("chain", "cond60"):
        for n, (i, a, q) in enumerate(parsed[0]):
            sel = c["attrs"] == "chain" or len(q) >= 60
            if sel and a != {"j": n, "seq_length": len(q)}:
                return obs, "record %s: the chained annotation workers (rename k to j, then add seq_length) did not all run once (attributes %s)" % (i, a)
            if not sel and a != {"k": n}:
                return obs, "record %s is not selected: it must pass unchanged (attributes %s)" % (i, a)
    return obs, None


def e2e3(ctx, broken):
    bindir, err = ctx.build_cmds(["obiconvert", "obigrep", "obiannotate"])
    if bindir is None:
        broken.append(dict(kind="command-build", detail=err))
        return
    wd = os.path.join(vlib.BUILD, "c03_e2e3_" + hashlib.sha1(vlib.REPO.encode()).hexdigest()[:8])
    R, texts = e2e3_files(ctx, wd)
    cases = e2e3_cases(ctx, R)
    from concurrent.futures import ThreadPoolExecutor
    with ThreadPoolExecutor(max_workers=3) as ex:
        res = list(ex.map(lambda kc: e2e3_run(bindir, wd, R, kc[1], kc[0]), enumerate(cases)))
    nbad = 0
    for k, (c, (obs, why)) in enumerate(zip(cases, res)):
        if why:
            nbad += 1
            if nbad <= 3:
                ctx.violation("e2e3_%d" % k, dict(property="C03", kind="e2e3", case=dict(cmd=c["cmd"], args=c["args"], stdin=c["stdin"]), index=k, seed=ctx.seed, tier=ctx.tier,
                                                 inputs={fn: texts[fn] for fn in set(c["args"]) | {c["stdin"]} if fn in texts and len(texts[fn]) < 4000},
                                                 implementation=obs, expected=why,
                                                 note="inputs are regenerated from the seed: replay re-runs this command of the round-3 end-to-end list"))
    ctx.cov["e2e3_command_runs"] = len(cases)
    ctx.cov["e2e3_grid"] = ("command-line glue of obiconvert / obigrep / obiannotate: directories, a named file without a sequence-file extension before / after a "
                            "directory, a file named twice, a missing file (exit code), --no-order; input formats fasta / fastq / genbank / embl given or guessed, from a "
                            "file and from standard input, empty standard input; OBI / json title lines in and out; fasta / fastq / json output, --compress, --out, "
                            "paired _R1/_R2 files in every format; progress bar on (stderr a character device); obiannotate chaining one worker per option")

# ----------------------------------------------------------------------------------------------- race detector (thorough)
def race_run(ctx, cases):
    """Thorough tier: the same cases through a -race build of the harness. Reports are summarised in the evidence
    (pairs of source lines); they never raise by themselves: the unchanged tree races on the debug counter
    obiiter.globalLockerCounter and on the receiver variable re-assigned by `iterator = iterator.SortBatches()` inside
    the goroutine of Rebatch/FilterEmpty while the caller reads iterator.IsPaired() — neither touches an observable."""
    b, err = ctx.build_harness(race=True)
    if b is None:
        ctx.cov["race"] = "race build failed: " + (err or "")[-300:]
        return
    inp = "".join(json.dumps(dict(wire(c), trace=False)) + "\n" for c in cases).encode()
    rc, out, err, dt = vlib.sh("%s c03" % b, inp=inp, timeout=1800, env=dict(os.environ, GORACE="exitcode=0 halt_on_error=0"))
    sig = {}
    for r in err.split("WARNING: DATA RACE")[1:]:
        locs = [l.split("/pkg/")[-1] for l in re.findall(r"^\s+(\S+\.go:\d+)", r, re.M) if "/pkg/" in l][:2]
        k = " <-> ".join(locs)
        sig[k] = sig.get(k, 0) + 1
    ctx.cov["race"] = dict(cases=len(cases), reports=sum(sig.values()), by_location=sig,
                           note="informative: no report concerns batch numbers, buffers or the close protocol")


# ----------------------------------------------------------------------------------------------- run
def evaluate(ctx, cases, broken, label, report=True):
    obs = ctx.vh_robust("c03", [wire(c) for c in cases], timeout=1800, one_timeout=40)
    # a case that missed its deadline on a machine that stalled the harness process (overloaded host, throttled cgroup) is run
    # again, alone in a fresh process with a longer deadline; a genuine hang (CopyTee before its fix, a missing Done) is
    # deterministic and fails again
    # (and a case that saw a log.Fatal it must not see: a straggling worker of the PREVIOUS, fatal, case may have failed late)
    stalled = [i for i, (c, o) in enumerate(zip(cases, obs))
               if o.get("kind") == "ok" and not o.get("term") and not known_key(c, o) and oracle(c, o) and
               (not o.get("fatal") or (i > 0 and obs[i - 1].get("fatal")))]
    if 0 < len(stalled) <= 20:
        for i in stalled:
            o2 = ctx.vh_robust("c03", [dict(wire(cases[i]), dl=30000)], timeout=120, one_timeout=120)[0]
            if o2.get("kind") == "ok" and o2.get("term"):
                obs[i] = o2
                ctx.cov["cases_rerun_after_a_missed_deadline"] = ctx.cov.get("cases_rerun_after_a_missed_deadline", 0) + 1
    nviol, perop = 0, {}
    for i, (c, o) in enumerate(zip(cases, obs)):
        why = oracle(c, o)
        if why is None:
            continue
        key = known_key(c, o)
        if key and ctx.kf_match(key):
            ctx.known(key, KNOWN_KEYS[key])
            continue
        nviol += 1
        perop[c["op"]] = perop.get(c["op"], 0) + 1
        if report and perop[c["op"]] <= 1 and len(perop) <= 8:      # one (the first = smallest corpus) witness per combinator
            ctx.violation("%s_oracle_%d" % (label, i), dict(property="C03", kind="direct-oracle", case=c, implementation=o, expected=why))
    idx = [i for i, (c, o) in enumerate(zip(cases, obs)) if o["kind"] != "crash" and c["op"] in OPC]
    bad, err = ctx.correspond(label, IMPORTS, [case_term(cases[i], obs[i]) for i in idx], shard=150)
    if bad is None:
        broken.append(dict(kind="correspondence", detail=err))
        return obs, [], nviol
    # round 3: the cases of Model3.v (mismatches3) and the file-list loader (expand_mismatches; symbolic links: oracle only)
    idx3 = [i for i, (c, o) in enumerate(zip(cases, obs)) if o["kind"] != "crash" and (c["op"] in OPC3 or c["op"] in ("chain", "chain_brk", "cond_err", "cond_err_brk", "accessors"))]
    idxe = [i for i, (c, o) in enumerate(zip(cases, obs)) if o["kind"] == "ok" and c["op"] == "expand" and all(n["kind"] != "l" for n in c["tree"])]
    bad3, err3 = ctx.correspond(label + "_r3", IMPORTS3, [case_term3(cases[i], obs[i]) for i in idx3], fn="mismatches3", shard=150)
    bade, erre = ctx.correspond(label + "_expand", IMPORTS3, [expand_term(cases[i], obs[i]) for i in idxe], fn="expand_mismatches", shard=150)
    if bad3 is None or bade is None:
        broken.append(dict(kind="correspondence", detail=err3 or erre))
        return obs, [], nviol
    extra_bad = [idx3[i] for i in bad3] + [idxe[i] for i in bade]
    # protocol traces: the events logged by the real iterators must be a complete run of a well-formed instance of the
    # process model (C03_protocol_* theorems), replayed by vm_compute
    tidx = [i for i in sorted(idx + idx3) if obs[i].get("trace") and obs[i]["kind"] == "ok" and obs[i]["term"] and not obs[i].get("fatal")]
    tbad, terr = ctx.correspond(label + "_trace", IMPORTS, ["(%s,%s)" % (shape_of(cases[i]), trace_term(obs[i]["trace"])) for i in tidx], fn="trace_mismatches", shard=150)
    if tbad is None:
        broken.append(dict(kind="correspondence", detail=terr))
    else:
        ctx.cov["protocol_traces_replayed"] = ctx.cov.get("protocol_traces_replayed", 0) + len(tidx)
        ctx.cov["protocol_trace_events"] = ctx.cov.get("protocol_trace_events", 0) + sum(len(obs[i]["trace"]) for i in tidx)
        # a trace cut while a goroutine that no output waits for was still finishing (loaded machine): record again,
        # waiting longer for quiescence; only a trace that is rejected every time counts
        still = tbad
        for attempt in range(2):
            if not still:
                break
            o2 = ctx.vh_robust("c03", [dict(wire(cases[tidx[k]]), quiet=80 * (attempt + 1)) for k in still], timeout=900, one_timeout=60)
            good = [j for j, o in enumerate(o2) if o.get("kind") == "ok" and o.get("term") and o.get("trace") and not o.get("fatal")]
            b2, e2 = ctx.correspond(label + "_trace_retry", IMPORTS,
                                    ["(%s,%s)" % (shape_of(cases[tidx[still[j]]]), trace_term(o2[j]["trace"])) for j in good], fn="trace_mismatches", shard=150)
            if b2 is None:
                break
            bad2 = {good[i] for i in b2} | (set(range(len(still))) - set(good))
            ctx.cov["protocol_traces_rerecorded"] = ctx.cov.get("protocol_traces_rerecorded", 0) + len(still) - len(bad2)
            still = [still[j] for j in sorted(bad2)]
        tbad = still
        if tbad:
            i = tidx[tbad[0]]
            broken.append(dict(kind="correspondence", name="corr:C03/protocol-trace/%s" % cases[i]["op"], first_diverging_case=cases[i],
                               implementation=obs[i], n_diverging=len(tbad),
                               detail="the Add/Done/Wait/Push/Close/End events logged by the real iterators are not a complete run of a well-formed protocol instance"))
    return obs, sorted([idx[i] for i in bad] + extra_bad), nviol


def shape_of(c):
    """the row of the table combinator -> protocol instance (Model.v, inst_*) that the trace of this case must contain"""
    op, nw = c["op"], max(c.get("nw", 1), 1)
    if op in ("worker", "worker_sorted", "condworker", "condworker_sorted", "sliceworker", "filteron", "filterand", "filteron_p", "filterand_p",
              "pipeline", "fragments", "fragments_p", "chain", "chain_brk", "cond_err", "cond_err_brk", "pipeparts", "rebatch_filter", "pairto_filteron", "pairto_filterand"):
        return "ShStd %d" % nw
    if op == "readfiles_par":        # Add(readers), one Done per reader goroutine, whatever the number of files
        return "ShStd %d" % nw
    if op == "pool":
        return "ShStd %d" % max(len(c["streams"]), 1)
    if op == "split":
        return "ShSplit %d" % nw
    if op == "divideon":
        return "ShDivide"
    if op == "copytee":
        return "ShTee"
    if op in ("distribute", "distribute_rebatch"):
        return "ShDist"
    return "ShStd 1"


def trace_term(tr):
    for e in tr:
        assert e[1] < 4096 and e[2] < 16 and 0 <= e[3] < 4096
    return "[" + ";".join(str(((e[0] * 4096 + e[1]) * 16 + e[2]) * 4096 + e[3]) for e in tr) + "]%N"


def run(ctx, broken):
    cases = gen_cases(ctx)
    obs, mism, nviol = evaluate(ctx, cases, broken, "main")
    ctx.cov["evaluations"] = len(cases)
    nontriv = {json.dumps(c, sort_keys=True) for c in cases
               if sum(len(h) for h in c["streams"]) >= 2 and (any(not b["ids"] for h in c["streams"] for b in h) or
                                                              any([b["o"] for b in h] != sorted(b["o"] for b in h) for h in c["streams"]))}
    ctx.cov["distinct_nontrivial"] = len(nontriv)
    ctx.cov["rule"] = ("a case = combinator + one arrival history per input stream + (size, workers, moduli); non-trivial = at least 2 batches and "
                       "(an empty batch or an arrival order different from the numbering); distinct = distinct JSON")
    dist = {}
    for c, o in zip(cases, obs):
        k = "%s/%s" % (c["op"], o["kind"] if o["kind"] != "ok" else ("ok" if o["term"] else "hang"))
        dist[k] = dist.get(k, 0) + 1
    ctx.cov["distribution"] = dist
    kl = {}
    for c in cases:
        if c.get("klass"):
            kl[c["klass"]] = kl.get(c["klass"], 0) + 1
    kl["files-x-readers pairs"] = len({(len(c["streams"]), c["nw"]) for c in cases if c["op"] == "readfiles_par"})
    kl["expand: trees / with a directory argument / with a missing argument / with symbolic links"] = "%d / %d / %d / %d" % (
        sum(c["op"] == "expand" for c in cases), sum(c["op"] == "expand" and any(n["kind"] == "d" and n["path"] in c["args"] for n in c["tree"]) for c in cases),
        sum(c["op"] == "expand" and any(a not in {n["path"] for n in c["tree"]} for a in c["args"]) for c in cases),
        sum(c["op"] == "expand" and any(n["kind"] == "l" for n in c["tree"]) for c in cases))
    kl["workers that fail: chains with a failing record / fatal (breakOnError)"] = "%d / %d" % (
        sum((c["op"] in ("chain", "chain_brk") and chain_ref(c)[0]) or (c["op"] in ("cond_err", "cond_err_brk") and cond_ref(c)[0]) for c in cases),
        sum(c["op"] in ("chain_brk", "cond_err_brk") and bool(o.get("fatal")) for c, o in zip(cases, obs)))
    ctx.cov["input_classes"] = kl
    ctx.cov["workers"] = sorted({c["nw"] for c in cases})
    ctx.samples = [dict(case=c, implementation={k: v for k, v in o.items() if k != "trace"}) for c, o in list(zip(cases, obs))[30:33] + list(zip(cases, obs))[-2:]]
    ctx.cov["model_vs_impl_mismatches"] = len(mism)
    if mism and not ctx.violations:
        more = gen_cases(ctx, scale=8)
        evaluate(ctx, more, [], "search")
        if not ctx.violations:
            i = mism[0]
            broken.append(dict(kind="correspondence", name="corr:C03/%s" % cases[i]["op"], first_diverging_case=cases[i],
                               implementation=obs[i], n_diverging=len(mism)))
    elif mism:
        ctx.cov["note"] = "model and implementation diverge on %d cases (violations reported by the direct oracle)" % len(mism)
    stress(ctx, broken)
    e2e(ctx, broken)
    e2e2(ctx, broken)
    e2e3(ctx, broken)
    if not ctx.quick:
        race_run(ctx, cases[:6000])


def stress(ctx, broken):
    """Long streams of tiny batches through the parallel worker pool: every batch number 0..n-1 exactly once
    (a worker pool that loses / duplicates a batch only under a very narrow interleaving shows on long streams only)."""
    rounds = 40 if ctx.quick else 300
    cases = [dict(op="stress", streams=[], data=[0], size=20000, nw=nw, mod=rounds // 2, mod2=0, name="workers_%d" % nw, what="MakeIWorker with %d workers" % nw) for nw in (4, 8)]
    # round 2: the same long streams through the other combinators (cheap identity predicates / classifiers)
    r2 = max(rounds // 2, 1)
    for kind, name, nw in ((1, "filteron", 4), (6, "filterand", 3), (2, "divideon", 1), (3, "distribute", 1), (4, "rebatch", 1), (5, "sortbatches", 1), (7, "workers_rebatch", 4)):
        cases.append(dict(op="stress", streams=[], data=[kind], size=20000, nw=nw, mod=r2, mod2=0, name=name, what=name))
    for c in cases:
        c["yield"] = 0
    from concurrent.futures import ThreadPoolExecutor
    with ThreadPoolExecutor(max_workers=3) as ex:
        obs = list(ex.map(lambda c: ctx.vh_robust("c03", [{k: v for k, v in c.items() if k not in ("name", "what")}], timeout=900, one_timeout=900)[0], cases))
    tot, per = 0, {}
    for c, o in zip(cases, obs):
        n = o.get("rounds", 0) * c["size"]
        tot += n if c["data"][0] == 0 else 0
        per[c["name"]] = n
        if o.get("kind") != "stress" or o.get("bad_rounds", 0) > 0:
            ctx.violation("stress_" + c["name"], dict(property="C03", kind="direct-oracle", case=c, implementation=o,
                          expected="every one of the %d one-record batches delivered exactly once with the right number by %s, in each of the %d rounds" % (c["size"], c["what"], c["mod"]),
                          note="schedule dependent: replay runs the same stress again"))
    ctx.cov["stress_batches_through_worker_pool"] = tot
    ctx.cov["stress_batches_per_combinator"] = per


def replay(ctx, rp):
    c = rp["case"]
    if c.get("op") == "stress":
        print("replay:", json.dumps(c), "->", json.dumps(ctx.vh_robust("c03", [{k: v for k, v in c.items() if k not in ("name", "what")}], timeout=900, one_timeout=900)[0]))
        return
    if rp.get("kind") == "e2e2":
        ctx.seed, ctx.tier = rp.get("seed", ctx.seed), rp.get("tier", ctx.tier)
        import random
        ctx.rng = random.Random(ctx.seed * 1000003 + 3)
        gen_cases(ctx)          # consume the generator exactly as run() does before e2e2
        e2e_cases(ctx)
        n0 = len(ctx.violations)
        e2e2(ctx, [])
        print("replay: round-2 end-to-end grid ->", "holds" if len(ctx.violations) == n0 else ctx.violations[n0:])
        return
    if rp.get("kind") == "e2e3":
        ctx.seed, ctx.tier = rp.get("seed", ctx.seed), rp.get("tier", ctx.tier)
        import random
        ctx.rng = random.Random(ctx.seed * 1000003 + 3)
        gen_cases(ctx)          # consume the generator exactly as run() does before e2e3
        e2e_cases(ctx)
        e2e2_files(ctx, os.path.join(vlib.BUILD, "c03_e2e2_replay_in"))
        bindir, err = ctx.build_cmds(["obiconvert", "obigrep", "obiannotate"])
        wd = os.path.join(vlib.BUILD, "c03_e2e3_replay")
        R, texts = e2e3_files(ctx, wd)
        cs = e2e3_cases(ctx, R)
        obs, why = e2e3_run(bindir, wd, R, cs[rp["index"]], rp["index"])
        print("replay:", c["cmd"], " ".join(c["args"]), "->", json.dumps(obs), "| oracle:", why or "holds")
        return
    if rp.get("kind") == "e2e":
        bindir, err = ctx.build_cmds([c["cmd"]])
        obs, why = e2e_run(ctx, bindir, rp["sets"], c, os.path.join(vlib.BUILD, "c03_e2e_replay"))
        print("replay:", c["cmd"], " ".join(c["args"]), "-> rc", obs["rc"], len(obs["ids"]), "ids | oracle:", why or "holds")
        return
    obs, mism, _ = evaluate(ctx, [c], [], "replay", report=False)
    print("replay:", json.dumps(c), "->", json.dumps(obs[0]), "| oracle:", oracle(c, obs[0]) or "holds", "|", "model-mismatch" if mism else "model-agrees")
