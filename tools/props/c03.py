"""C03 — no record is lost, duplicated or reordered between reader and writer (pkg/obiiter combinators)."""
import itertools, json, os, hashlib, re
import vlib

PROPS = ["C03/Props.v"]
META = dict(
    text="Rocq theorems over an executable model of the pkg/obiiter stream combinators as functions on arrival histories "
         "(batch number, records): for every partition into batches (empty ones included) and every arrival permutation, "
         "SortBatches (via Common/Reseq), Rebatch, FilterEmpty, FilterOn, DivideOn, Distribute, Concat, Pool, IBatchOver, the "
         "worker pool under any schedule and the reader->workers->filter->rebatch->resequencer pipeline deliver exactly the "
         "expected records in input order with output numbers 0..m-1. On every run the REAL combinators are fed explicit "
         "histories (all permutations of small batch-number sets, random partitions, 1..8 workers), drained under a deadline, "
         "judged by a direct Python oracle and compared with the model evaluated by vm_compute.",
    note="Trusted: Go channels / WaitGroup / scheduler are not modelled (termination is observed with a deadline, not proved); "
         "a worker pool is modelled as 'any permutation of the mapped batches' (LTS over take/emit labels proved to emit such a "
         "permutation). Split used directly, Speed and the memory limiter are not covered; the end-to-end command grid (obiconvert/obigrep/obiannotate) is judged by the oracle only.")
TRUSTED = ["Go runtime primitives (channels, sync.WaitGroup, goroutine scheduling) are the model's primitives: a goroutine loop is "
           "modelled as a fold over its arrival history; absence of deadlock is observed under a deadline, not proved"]

IMPORTS = ("From Coq Require Import List NArith Bool. Import ListNotations.\n"
           "From OBI.C03 Require Import Model.\n")

OPS_SINGLE = ["sortbatches", "rebatch", "filterempty", "filteron", "filterand", "divideon", "distribute", "worker",
              "worker_sorted", "copytee", "pipeline", "source"]


# ----------------------------------------------------------------------------------------------- generators
def partition(rng, nrec, nb, first_id=1):
    """split ids first_id..first_id+nrec-1 into nb batches, empty batches allowed"""
    cuts = sorted(rng.randrange(0, nrec + 1) for _ in range(max(nb - 1, 0)))
    ids = list(range(first_id, first_id + nrec))
    res, prev = [], 0
    for c in cuts + [nrec]:
        res.append(ids[prev:c])
        prev = c
    return res if nb > 0 else []


def history(parts, perm):
    return [dict(o=o, ids=parts[o]) for o in perm]


def rand_history(rng, maxb=8, maxrec=24, first_id=1):
    nb = rng.choice([0, 1, 1, 2, 3, 4, 5, 6, 7, 8][:maxb + 2])
    nrec = rng.randrange(0, maxrec + 1) if nb else 0
    parts = partition(rng, nrec, nb, first_id)
    perm = list(range(nb))
    k = rng.random()
    if k < 0.6:
        rng.shuffle(perm)
    elif k < 0.75:
        perm.reverse()
    return history(parts, perm)


def params(rng, c):
    c.setdefault("size", rng.choice([1, 1, 2, 2, 3, 4, 5, 7, 50]))
    c.setdefault("nw", rng.randrange(1, 9))
    c.setdefault("mod", rng.choice([1, 2, 2, 3, 3, 4, 5]))
    c.setdefault("mod2", rng.choice([1, 2, 3]))
    c.setdefault("yield", rng.choice([0, 0, 20, 60]))
    return c


CORPUS = [
    # witnesses of the defects (always first)
    dict(op="concat_sorted", streams=[[], [dict(o=0, ids=[7]), dict(o=1, ids=[8])]], tag="concat-empty-first"),
    dict(op="concat", streams=[[], [dict(o=0, ids=[7])]], tag="concat-empty-first"),
    dict(op="concat_sorted", streams=[[], [], [dict(o=1, ids=[8]), dict(o=0, ids=[7])], []], tag="concat-empty-first"),
    dict(op="concat_sorted", streams=[[dict(o=0, ids=[7])], [], [dict(o=0, ids=[8])]], tag="concat-empty-middle"),
    dict(op="batchover", data=[], size=2, streams=[], tag="batchover-empty"),
    dict(op="batchover", data=[1, 2, 3, 4, 5], size=2, streams=[]),
    dict(op="copytee", streams=[[dict(o=0, ids=[1]), dict(o=1, ids=[2])]], dl=3000, tag="copytee-close"),
    dict(op="copytee", streams=[[]], dl=3000, tag="copytee-close"),
    dict(op="readfiles", streams=[[dict(o=1, ids=[2]), dict(o=0, ids=[1])]], tag="readfiles-order"),
    dict(op="readfiles", streams=[[dict(o=0, ids=[1])], [dict(o=2, ids=[5]), dict(o=0, ids=[3]), dict(o=1, ids=[4])]], tag="readfiles-order"),
    dict(op="readfiles", streams=[[], [dict(o=0, ids=[3]), dict(o=1, ids=[4])], []]),
    # boundary
    dict(op="sortbatches", streams=[[]]),
    dict(op="rebatch", size=1, streams=[[dict(o=0, ids=[])]]),
    dict(op="rebatch", size=3, streams=[[dict(o=1, ids=[4, 5, 6]), dict(o=0, ids=[1, 2, 3])]]),
    dict(op="rebatch", size=3, streams=[[dict(o=1, ids=[4, 5, 6, 7]), dict(o=0, ids=[1, 2, 3])]]),
    dict(op="filterempty", streams=[[dict(o=2, ids=[]), dict(o=0, ids=[]), dict(o=1, ids=[])]]),
    dict(op="filterempty", streams=[[dict(o=2, ids=[3]), dict(o=0, ids=[]), dict(o=1, ids=[])]]),
    dict(op="divideon", size=2, mod=1, streams=[[dict(o=0, ids=[1, 2, 3])]]),
    dict(op="distribute", size=1, mod=3, streams=[[dict(o=1, ids=[4, 5, 6]), dict(o=0, ids=[1, 2, 3])]]),
    dict(op="distribute", size=2, mod=3, streams=[[]]),
    dict(op="pool", streams=[[], [dict(o=0, ids=[])], []]),
    dict(op="pool", streams=[[dict(o=0, ids=[1]), dict(o=1, ids=[2])], [dict(o=0, ids=[3])], [dict(o=1, ids=[5]), dict(o=0, ids=[4])]]),
    dict(op="pairto", size=2, streams=[[dict(o=0, ids=[1, 2, 3])], [dict(o=1, ids=[13]), dict(o=0, ids=[11, 12])]]),
    # malformed numbering (outside the hypothesis of the property: model correspondence only)
    dict(op="sortbatches", streams=[[dict(o=0, ids=[1]), dict(o=2, ids=[3]), dict(o=3, ids=[4])]], malformed=True),
    dict(op="sortbatches", streams=[[dict(o=1, ids=[1]), dict(o=1, ids=[2]), dict(o=0, ids=[3]), dict(o=2, ids=[4])]], malformed=True),
    dict(op="rebatch", size=2, streams=[[dict(o=0, ids=[1]), dict(o=2, ids=[3]), dict(o=3, ids=[4])]], malformed=True),
]


def gen_cases(ctx, scale=1):
    rng = ctx.rng
    cases = [params(rng, dict(c)) for c in CORPUS]
    # exhaustive: every arrival permutation of n batch numbers
    maxn = 5 if ctx.quick else 7
    exh = 0
    for n in range(0, maxn + 1):
        parts = partition(rng, 2 * n + 1 if n else 0, n)
        if n >= 2:
            parts[rng.randrange(n)] = []           # at least one empty batch
        perms = list(itertools.permutations(range(n)))
        for perm in perms:
            ops = ["sortbatches", "rebatch"] + [rng.choice(["filterempty", "divideon", "distribute", "filteron", "worker_sorted", "pipeline", "concat_sorted"])]
            if len(perms) <= 24:
                ops = ["sortbatches", "rebatch", "filterempty", "divideon", "distribute", "filteron", "worker_sorted", "pipeline", "concat_sorted"]
            for op in ops:
                c = params(rng, dict(op=op, streams=[history(parts, perm)], exhaustive=n))
                if op == "concat_sorted":
                    c["streams"] = [rand_history(rng, 3, 6, 100)] + c["streams"] if rng.random() < 0.5 else c["streams"] + [rand_history(rng, 3, 6, 100)]
                cases.append(c)
                exh += 1
    ctx.cov["exhaustive"] = "every arrival permutation of 0..%d batch numbers (%d cases)" % (maxn, exh)
    # random single-stream cases
    nrand = (60 if ctx.quick else 1500) * scale
    for op in OPS_SINGLE:
        for _ in range(nrand if op != "copytee" else nrand // 4):
            cases.append(params(rng, dict(op=op, streams=[rand_history(rng)])))
    # multi-stream: concat / pool with empty streams at every position
    for op in ("concat", "concat_sorted", "pool", "readfiles", "readfiles_par"):
        for _ in range(nrand):
            k = rng.randrange(1, 6)
            streams = []
            fid = 1
            for _ in range(k):
                h = [] if rng.random() < 0.3 else rand_history(rng, 5, 10, fid)
                fid += 40
                streams.append(h)
            cases.append(params(rng, dict(op=op, streams=streams)))
    # worker counts 1..8 on one history
    for nw in range(1, 9):
        for op in ("worker", "worker_sorted", "filteron", "pipeline"):
            for _ in range(3 if ctx.quick else 40):
                cases.append(params(rng, dict(op=op, nw=nw, streams=[rand_history(rng)], **{"yield": rng.choice([0, 30, 100])})))
    # batchover
    for _ in range(nrand):
        n = rng.choice([0, 1, 2, 3, 5, 8, 13])
        cases.append(params(rng, dict(op="batchover", data=list(range(1, n + 1)), streams=[])))
    # pairto (well-formed pairs: same number of records in both files)
    for _ in range(nrand // 2):
        n = rng.randrange(0, 14)
        cases.append(params(rng, dict(op="pairto", streams=[history_n(rng, n, 1), history_n(rng, n, 101)])))
    # fragments (IFragments: sequence of record id has length 1 + 7*id mod 61)
    for _ in range(nrand):
        length = rng.choice([5, 8, 10, 20, 30])
        overlap = rng.randrange(0, length - 1)
        minsize = rng.choice([length, length + 3, 2 * length, 0])
        cases.append(params(rng, dict(op="fragments", streams=[rand_history(rng)], minsize=minsize, length=length, overlap=overlap)))
    # IMergeSequenceBatch: every (non-empty) batch merged into one record, in arrival order
    for _ in range(nrand // 2):
        h = [b for b in rand_history(rng) if b["ids"]]
        cases.append(params(rng, dict(op="merge", streams=[h], nonumbering=True)))
    # ill-formed pairs (outside the property: the model must still predict fatal / truncation)
    for _ in range(4 if ctx.quick else 40):
        n = rng.randrange(1, 10)
        m = rng.choice([k for k in range(0, 12) if k != n])
        cases.append(params(rng, dict(op="pairto", streams=[history_n(rng, n, 1), history_n(rng, m, 101)])))
    return cases


def history_n(rng, nrec, first_id):
    nb = rng.randrange(1, 5) if nrec else rng.randrange(0, 3)
    parts = partition(rng, nrec, nb, first_id)
    perm = list(range(nb))
    rng.shuffle(perm)
    return history(parts, perm)


# ----------------------------------------------------------------------------------------------- direct oracle
def wf(mod, i):
    if mod <= 0:
        return [i]
    return [] if i % mod == 0 else ([i, i + 500] if i % mod == 1 else [i])


def long_seq(i):
    return "".join("acgt"[(i + j * j + j // 3) % 4] for j in range(1 + (7 * i) % 61))


def pred(mod, i):
    return mod > 0 and i % mod == 0


def recs(h):
    return [i for b in sorted(h, key=lambda b: b["o"]) for i in b["ids"]]


def wellnumbered(h):
    return sorted(b["o"] for b in h) == list(range(len(h)))


def flat(bs):
    return [i for b in bs for i in b["ids"]]


def chunked(bs, size, what):
    """numbers 0..m-1 in delivery order; every batch but the last has exactly `size` records, the last 1..size"""
    if [b["o"] for b in bs] != list(range(len(bs))):
        return "%s: batch numbers %s are not 0..%d in order" % (what, [b["o"] for b in bs], len(bs) - 1)
    for k, b in enumerate(bs):
        n = len(b["ids"])
        if (k < len(bs) - 1 and n != size) or not (1 <= n <= size):
            return "%s: batch %d has %d records (size %d)" % (what, k, n, size)
    return None


def oracle(c, o):
    """None if the observation satisfies the property on this case, else a text saying what fails."""
    if c.get("malformed"):
        return None
    op = c["op"]
    if o["kind"] == "crash":
        return "harness process crashed or hung: " + o.get("err", "")[-200:]
    if o["kind"] == "panic":
        return "panic: " + o.get("panic", "")
    if op == "pairto" and len(recs(c["streams"][0])) != len(recs(c["streams"][1])):
        return None
    if o.get("fatal"):
        return "log.Fatal called"
    if not o["term"]:
        return "termination: not every output stream was closed before the deadline (closed=%s)" % [x["closed"] for x in o["outs"]]
    outs = {x["key"]: x["batches"] for x in o["outs"]}
    S = c["streams"]
    size = c.get("size", 1)
    for h in S:
        assert c.get("nonumbering") or wellnumbered(h), "generator produced a malformed history"
    out0 = outs.get(0, [])

    def same(got, exp, what):
        return None if got == exp else "%s: got %s expected %s" % (what, got, exp)

    if op in ("sortbatches", "source"):
        exp = sorted(S[0], key=lambda b: b["o"]) if op == "sortbatches" else S[0]
        return same(out0, exp, "delivered batches")
    if op == "rebatch":
        return same(flat(out0), recs(S[0]), "records") or chunked(out0, size, "rebatch")
    if op == "filterempty":
        exp = [b["ids"] for b in sorted(S[0], key=lambda b: b["o"]) if b["ids"]]
        return same(out0, [dict(o=k, ids=x) for k, x in enumerate(exp)], "delivered batches")
    if op in ("filteron", "filterand"):
        return same(flat(out0), [i for i in recs(S[0]) if pred(c["mod"], i)], "records") or chunked(out0, size, op)
    if op == "divideon":
        t, f = outs.get(1, []), outs.get(0, [])
        r = recs(S[0])
        return (same(flat(t), [i for i in r if pred(c["mod"], i)], "true stream") or chunked(t, size, "true stream") or
                same(flat(f), [i for i in r if not pred(c["mod"], i)], "false stream") or chunked(f, size, "false stream"))
    if op == "distribute":
        r = recs(S[0])
        mod = max(c["mod"], 1)
        keys = []
        for i in r:
            if i % mod not in keys:
                keys.append(i % mod)
        e = same(o.get("news", []), keys, "announced keys") or same(sorted(outs), sorted(keys), "output streams")
        if e:
            return e
        for k in keys:
            e = same(flat(outs[k]), [i for i in r if i % mod == k], "stream of key %d" % k) or chunked(outs[k], size, "stream of key %d" % k)
            if e:
                return e
        return None
    if op in ("concat", "concat_sorted"):
        n = sum(len(h) for h in S)
        exp = [i for h in S for i in recs(h)]
        if sorted(b["o"] for b in out0) != list(range(n)):
            return "concat: %d input batches, output batch numbers %s are not a permutation of 0..%d" % (n, [b["o"] for b in out0], n - 1)
        if op == "concat_sorted" and [b["o"] for b in out0] != list(range(n)):
            return "concat|sortbatches: batches delivered out of order %s" % [b["o"] for b in out0]
        return same(recs(out0), exp, "records in batch-number order")
    if op == "readfiles":
        n = sum(len(h) for h in S)
        if [b["o"] for b in out0] != list(range(n)):
            return "readfiles: %d input batches, output batch numbers %s are not 0..%d in order" % (n, [b["o"] for b in out0], n - 1)
        return same(flat(out0), [i for h in S for i in recs(h)], "records (file after file, each in its own order)")
    if op == "readfiles_par":
        n = sum(len(h) for h in S)
        if sorted(b["o"] for b in out0) != list(range(n)):
            return "readfiles: %d input batches, output batch numbers %s are not a permutation of 0..%d" % (n, [b["o"] for b in out0], n - 1)
        r = recs(out0)
        for h in S:        # files may interleave (--no-order) but each file keeps its own order
            mine = set(recs(h))
            e = same([i for i in r if i in mine], recs(h), "records of one file, in batch-number order")
            if e:
                return e
        return same(sorted(r), sorted(i for h in S for i in recs(h)), "multiset of records")
    if op == "pool":
        n = sum(len(h) for h in S)
        if sorted(b["o"] for b in out0) != list(range(n)):
            return "pool: %d input batches, output batch numbers %s are not a permutation of 0..%d" % (n, [b["o"] for b in out0], n - 1)
        return same(sorted(b["ids"] for b in out0), sorted(b["ids"] for h in S for b in h), "multiset of batch contents")
    if op in ("worker", "worker_sorted"):
        exp = [dict(o=b["o"], ids=[j for i in b["ids"] for j in wf(c["mod"], i)]) for b in sorted(S[0], key=lambda b: b["o"])]
        got = out0 if op == "worker_sorted" else sorted(out0, key=lambda b: b["o"])
        return same(got, exp, "delivered batches" + ("" if op == "worker_sorted" else " (sorted by number)"))
    if op == "batchover":
        d = c["data"]
        return same(out0, [dict(o=k, ids=d[i:i + size]) for k, i in enumerate(range(0, len(d), size))], "delivered batches")
    if op == "copytee":
        return same(outs.get(0), S[0], "first copy") or same(outs.get(1), S[0], "second copy")
    if op == "pipeline":
        exp = [j for i in recs(S[0]) for j in wf(c["mod"], i) if pred(c["mod2"], j)]
        return same(flat(out0), exp, "records") or chunked(out0, size, "pipeline")
    if op == "merge":
        return same(flat(out0), [b["ids"][0] for b in S[0]], "merged records (one per input batch, arrival order)") or chunked(out0, size, "merge")
    if op == "fragments":
        e = chunked(out0, size, "fragments")
        if e:
            return e
        frs = [(i, n, q) for b in out0 for i, n, q in zip(b["ids"], b.get("names") or [], b.get("seqs") or [])]
        if len(frs) != len(flat(out0)):
            return "fragments: names/sequences missing"
        src = recs(S[0])
        groups = []           # consecutive fragments of the same source record
        for i, n, q in frs:
            if groups and groups[-1][0] == i and "_sub" in n:
                groups[-1][1].append(q)
            else:
                groups.append((i, [q], n))
        if [g[0] for g in groups] != src:
            return "fragments: source records %s expected %s" % ([g[0] for g in groups], src)
        step = c["length"] - c["overlap"]
        for i, fs, n in groups:
            full = long_seq(i)
            if len(full) <= c["minsize"]:
                if fs != [full]:
                    return "fragments: record %d (length %d <= minsize) must pass unchanged, got %s" % (i, len(full), fs)
                continue
            if "".join(f[:step] for f in fs[:-1]) + fs[-1] != full:
                return "fragments: the non-overlapping parts of the fragments of record %d do not rebuild its sequence" % i
            if any(len(f) != c["length"] for f in fs[:-1]) or not (1 <= len(fs[-1]) < c["length"] + step):
                return "fragments: record %d fragment lengths %s (length %d, step %d)" % (i, [len(f) for f in fs], c["length"], step)
        return None
    if op == "pairto":
        a, b = recs(S[0]), recs(S[1])
        return (same(flat(out0), a, "forward records") or same([i for x in out0 for i in x.get("pids", [])], b, "paired mates") or
                chunked(out0, size, "pairto"))
    return "unknown op"


KNOWN_KEYS = {"concat-empty-first": "Concat: when the first stream(s) are empty the output batches are numbered from 1, so SortBatches and every ordered consumer downstream deliver nothing",
              "batchover-empty": "IBatchOver panics on an empty slice (data.IsPaired() indexes element 0)",
              "readfiles-order": "ReadSequencesBatchFromFiles renumbers the batches of each file in ARRIVAL order: with several input files the records of a file are reordered whenever its parser workers deliver batches out of order",
              "copytee-close": "CopyTee never calls Done on its first output: neither output is ever closed, consumers hang"}


def known_key(c, o):
    if c["op"] in ("concat", "concat_sorted") and c["streams"] and not c["streams"][0] and any(c["streams"]):
        return "concat-empty-first"
    if c["op"] in ("readfiles", "readfiles_par") and any([b["o"] for b in h] != sorted(b["o"] for b in h) for h in c["streams"]):
        return "readfiles-order"
    if c["op"] == "batchover" and not c["data"] and o["kind"] == "panic":
        return "batchover-empty"
    if c["op"] == "copytee" and o["kind"] == "ok" and not o["term"]:
        return "copytee-close"
    return None


# ----------------------------------------------------------------------------------------------- rendering to Gallina
def nl(l):
    return "[" + ";".join(str(x) for x in l) + "]%N"


def hist(h):
    return "[" + ";".join("(%d,%s)" % (b["o"], nl(b["ids"])) for b in h) + "]"


OPC = dict(source="OSource", sortbatches="OSort", rebatch="ORebatch", filterempty="OFilterEmpty", filteron="OFilterOn",
           filterand="OFilterOn", divideon="ODivideOn", distribute="ODistribute", concat="OConcat", concat_sorted="OConcatSorted",
           pool="OPool", worker="OWorker", worker_sorted="OWorkerSorted", batchover="OBatchOver", copytee="OCopyTee",
           pipeline="OPipeline", readfiles="OReadFiles", readfiles_par="OReadFilesPar", pairto="OPairTo", fragments="OFragments", merge="OMerge")


def case_term(c, o):
    outs = "[" + ";".join("(%d,%s)" % (x["key"], hist(x["batches"])) for x in o["outs"]) + "]"
    if c["op"] == "pairto":      # key 0: forward records, key 1: the mates they are linked to
        bs = o["outs"][0]["batches"] if o["outs"] else []
        outs = "[(0,%s);(1,%s)]" % (hist(bs), hist([dict(o=b["o"], ids=b.get("pids") or []) for b in bs]))
    streams = "[" + ";".join(hist(h) for h in c["streams"]) + "]"
    kind = "KPanic" if o["kind"] == "panic" else ("KFatal" if o.get("fatal") else ("KOk" if o["term"] else "KHang"))
    opc = OPC[c["op"]]
    fouts = "[]"
    if c["op"] == "fragments":
        opc = "(OFragments %d %d %d)" % (c["minsize"], c["length"], c["overlap"])
        bs = o["outs"][0]["batches"] if o["outs"] else []
        fouts = "[" + ";".join("(%d,[%s])" % (b["o"], ";".join(nl(["acgt".index(ch) for ch in q]) for q in b.get("seqs") or [])) for b in bs) + "]"
    return "mkc %s %s %s %d %d%%N %d%%N %s %s [%s] %s" % (opc, streams, nl(c.get("data") or []), c.get("size", 1), max(c.get("mod", 1), 1),
                                                   max(c.get("mod2", 1), 1), kind, outs, ";".join(str(k) for k in o.get("news") or []), fouts)



# ----------------------------------------------------------------------------------------------- end to end (commands)
def fasta(recs):
    return "".join(">%s\n%s\n" % (i, s) for i, s in recs)


def out_ids(text):
    return [l[1:].split()[0] for l in text.splitlines() if l.startswith(">")]


def e2e_cases(ctx):
    """(args, input files {name: records}, stdin name or None, expected stdout ids, expected ids of extra output files)"""
    rng = ctx.rng
    def mk(n, first):
        return [("r%d" % (first + k), "".join(rng.choice("acgt") for _ in range(rng.randrange(5, 40)))) for k in range(n)]
    sets = dict(big=mk(240 if ctx.quick else 1500, 1), one=mk(1, 5001), empty=[], second=mk(37, 7001),
                short1=[("r6001", "acgtacgt")])      # one record, not selected by -l 20: the witness of the side-output exit race
    cpus = [1, 2, 3, 8] if ctx.quick else [1, 2, 3, 4, 5, 6, 7, 8, 16]
    sizes = [1, 2, 7, 100] if ctx.quick else [1, 2, 3, 7, 16, 50, 100, 5000]
    L = 20
    cases = []
    for cpu in cpus:
        for bs in sizes:
            opt = ["--max-cpu", str(cpu), "--batch-size", str(bs)]
            for name in ("big", "one", "empty", "short1"):
                r = sets[name]
                ids = [i for i, _ in r]
                sel = [i for i, s in r if len(s) >= L]
                rej = [i for i, s in r if len(s) < L]
                cases.append(dict(cmd="obiconvert", args=opt + [name], stdin=None, exp=ids, extra={}))
                cases.append(dict(cmd="obigrep", args=opt + ["-l", str(L), name], stdin=None, exp=sel, extra={}))
                cases.append(dict(cmd="obigrep", args=opt + ["-l", str(L), "--save-discarded", "@discarded", name], stdin=None, exp=sel, extra={"@discarded": rej}))
                cases.append(dict(cmd="obiannotate", args=opt + ["--length", name], stdin=None, exp=ids, extra={}))
            cases.append(dict(cmd="obiconvert", args=opt, stdin="big", exp=[i for i, _ in sets["big"]], extra={}))
            for files in (["big", "second"], ["empty", "second"], ["one", "empty", "second"]):
                cases.append(dict(cmd="obiconvert", args=opt + files, stdin=None, exp=[i for f in files for i, _ in sets[f]], extra={}))
    return sets, cases


def e2e_run(ctx, bindir, sets, c, wd):
    os.makedirs(wd, exist_ok=True)
    for name, r in sets.items():
        p = os.path.join(wd, name + ".fasta")
        if not os.path.exists(p) or open(p).read() != fasta(r):
            open(p, "w").write(fasta(r))
    extra_paths = {}
    args = []
    for a in c["args"]:
        if a in sets:
            args.append(os.path.join(wd, a + ".fasta"))
        elif a.startswith("@"):
            extra_paths[a] = os.path.join(wd, a[1:] + ".out")
            if os.path.exists(extra_paths[a]):
                os.remove(extra_paths[a])
            args.append(extra_paths[a])
        else:
            args.append(a)
    inp = fasta(sets[c["stdin"]]).encode() if c["stdin"] else b""
    rc, out, err, dt = vlib.sh([os.path.join(bindir, c["cmd"])] + args, timeout=60, inp=inp)
    obs = dict(rc=rc, ids=out_ids(out), extra={k: (out_ids(open(p).read()) if os.path.exists(p) else None) for k, p in extra_paths.items()})
    why = None
    if rc == 124:
        why = "termination: the command did not finish within 60 s"
    elif rc != 0:
        why = "exit code %d: %s" % (rc, err[-300:])
    elif obs["ids"] != c["exp"]:
        why = "stdout ids differ from the selected records in input order (%d delivered, %d expected)" % (len(obs["ids"]), len(c["exp"]))
    else:
        for k, exp in c["extra"].items():
            if (obs["extra"][k] or []) != exp:
                why = "ids of %s differ from the expected records in input order" % k
    return obs, why


def e2e(ctx, broken):
    bindir, err = ctx.build_cmds(["obiconvert", "obigrep", "obiannotate"])
    if bindir is None:
        broken.append(dict(kind="command-build", detail=err))
        return
    sets, cases = e2e_cases(ctx)
    wd = os.path.join(vlib.BUILD, "c03_e2e_" + hashlib.sha1(vlib.REPO.encode()).hexdigest()[:8])
    from concurrent.futures import ThreadPoolExecutor
    with ThreadPoolExecutor(max_workers=1) as ex:      # sequential: the commands are themselves parallel; extra output files are shared
        res = list(ex.map(lambda c: e2e_run(ctx, bindir, sets, c, wd), cases))
    nbad = 0
    for k, (c, (obs, why)) in enumerate(zip(cases, res)):
        if why:
            nbad += 1
            if nbad <= 2:
                ctx.violation("e2e_%d" % k, dict(property="C03", kind="e2e", case=c, sets={n: sets[n] for n in set(c["args"]) & set(sets) | ({c["stdin"]} if c["stdin"] else set())},
                                                implementation=dict(rc=obs["rc"], n_ids=len(obs["ids"]), first_ids=obs["ids"][:20], extra={a: (v or [])[:20] for a, v in obs["extra"].items()}),
                                                expected=why))
    ctx.cov["e2e_command_runs"] = len(cases)
    ctx.cov["e2e_grid"] = "obiconvert/obigrep(-l, --save-discarded)/obiannotate x --max-cpu x --batch-size x {240+ records, 1 record, empty, stdin, several files incl. empty first}"

# ----------------------------------------------------------------------------------------------- race detector (thorough)
def race_run(ctx, cases):
    """Thorough tier: the same cases through a -race build of the harness. Reports are summarised in the evidence
    (pairs of source lines); they never raise by themselves: the unchanged tree races on the debug counter
    obiiter.globalLockerCounter and on the receiver variable re-assigned by `iterator = iterator.SortBatches()` inside
    the goroutine of Rebatch/FilterEmpty while the caller reads iterator.IsPaired() — neither touches an observable."""
    b, err = ctx.build_harness(race=True)
    if b is None:
        ctx.cov["race"] = "race build failed: " + (err or "")[-300:]
        return
    inp = "".join(json.dumps({k: v for k, v in c.items() if k not in ("tag", "malformed", "exhaustive", "nonumbering")}) + "\n" for c in cases).encode()
    rc, out, err, dt = vlib.sh("%s c03" % b, inp=inp, timeout=1800, env=dict(os.environ, GORACE="exitcode=0 halt_on_error=0"))
    sig = {}
    for r in err.split("WARNING: DATA RACE")[1:]:
        locs = [l.split("/pkg/")[-1] for l in re.findall(r"^\s+(\S+\.go:\d+)", r, re.M) if "/pkg/" in l][:2]
        k = " <-> ".join(locs)
        sig[k] = sig.get(k, 0) + 1
    ctx.cov["race"] = dict(cases=len(cases), reports=sum(sig.values()), by_location=sig,
                           note="informative: no report concerns batch numbers, buffers or the close protocol")


# ----------------------------------------------------------------------------------------------- run
def evaluate(ctx, cases, broken, label, report=True):
    obs = ctx.vh_robust("c03", [{k: v for k, v in c.items() if k not in ("tag", "malformed", "exhaustive", "nonumbering")} for c in cases], timeout=1800, one_timeout=40)
    nviol, perop = 0, {}
    for i, (c, o) in enumerate(zip(cases, obs)):
        why = oracle(c, o)
        if why is None:
            continue
        key = known_key(c, o)
        if key and ctx.kf_match(key):
            ctx.known(key, KNOWN_KEYS[key])
            continue
        nviol += 1
        perop[c["op"]] = perop.get(c["op"], 0) + 1
        if report and perop[c["op"]] <= 1 and len(perop) <= 8:      # one (the first = smallest corpus) witness per combinator
            ctx.violation("%s_oracle_%d" % (label, i), dict(property="C03", kind="direct-oracle", case=c, implementation=o, expected=why))
    idx = [i for i, (c, o) in enumerate(zip(cases, obs)) if o["kind"] != "crash" and c["op"] in OPC]
    bad, err = ctx.correspond(label, IMPORTS, [case_term(cases[i], obs[i]) for i in idx], shard=150)
    if bad is None:
        broken.append(dict(kind="correspondence", detail=err))
        return obs, [], nviol
    return obs, [idx[i] for i in bad], nviol


def run(ctx, broken):
    cases = gen_cases(ctx)
    obs, mism, nviol = evaluate(ctx, cases, broken, "main")
    ctx.cov["evaluations"] = len(cases)
    nontriv = {json.dumps(c, sort_keys=True) for c in cases
               if sum(len(h) for h in c["streams"]) >= 2 and (any(not b["ids"] for h in c["streams"] for b in h) or
                                                              any([b["o"] for b in h] != sorted(b["o"] for b in h) for h in c["streams"]))}
    ctx.cov["distinct_nontrivial"] = len(nontriv)
    ctx.cov["rule"] = ("a case = combinator + one arrival history per input stream + (size, workers, moduli); non-trivial = at least 2 batches and "
                       "(an empty batch or an arrival order different from the numbering); distinct = distinct JSON")
    dist = {}
    for c, o in zip(cases, obs):
        k = "%s/%s" % (c["op"], o["kind"] if o["kind"] != "ok" else ("ok" if o["term"] else "hang"))
        dist[k] = dist.get(k, 0) + 1
    ctx.cov["distribution"] = dist
    ctx.cov["workers"] = sorted({c["nw"] for c in cases})
    ctx.samples = [dict(case=c, implementation=o) for c, o in list(zip(cases, obs))[30:33] + list(zip(cases, obs))[-2:]]
    ctx.cov["model_vs_impl_mismatches"] = len(mism)
    if mism and not ctx.violations:
        more = gen_cases(ctx, scale=8)
        evaluate(ctx, more, [], "search")
        if not ctx.violations:
            i = mism[0]
            broken.append(dict(kind="correspondence", name="corr:C03/%s" % cases[i]["op"], first_diverging_case=cases[i],
                               implementation=obs[i], n_diverging=len(mism)))
    elif mism:
        ctx.cov["note"] = "model and implementation diverge on %d cases (violations reported by the direct oracle)" % len(mism)
    stress(ctx, broken)
    e2e(ctx, broken)
    if not ctx.quick:
        race_run(ctx, cases[:6000])


def stress(ctx, broken):
    """Long streams of tiny batches through the parallel worker pool: every batch number 0..n-1 exactly once
    (a worker pool that loses / duplicates a batch only under a very narrow interleaving shows on long streams only)."""
    rounds = 40 if ctx.quick else 300
    cases = [dict(op="stress", streams=[], data=[], size=20000, nw=nw, mod=rounds // 2, mod2=0, yield_=0) for nw in (4, 8)]
    for c in cases:
        c["yield"] = c.pop("yield_")
    obs = ctx.vh_robust("c03", cases, timeout=600, one_timeout=300)
    tot = 0
    for c, o in zip(cases, obs):
        tot += o.get("rounds", 0) * c["size"]
        if o.get("kind") != "stress" or o.get("bad_rounds", 0) > 0:
            ctx.violation("stress_workers_%d" % c["nw"], dict(property="C03", kind="direct-oracle", case=c, implementation=o,
                          expected="every batch number 0..%d delivered exactly once by MakeIWorker with %d workers, in each of the %d rounds" % (c["size"] - 1, c["nw"], c["mod"]),
                          note="schedule dependent: replay runs the same stress again"))
    ctx.cov["stress_batches_through_worker_pool"] = tot


def replay(ctx, rp):
    c = rp["case"]
    if c.get("op") == "stress":
        print("replay:", json.dumps(c), "->", json.dumps(ctx.vh_robust("c03", [c], timeout=600, one_timeout=300)[0]))
        return
    if rp.get("kind") == "e2e":
        bindir, err = ctx.build_cmds([c["cmd"]])
        obs, why = e2e_run(ctx, bindir, rp["sets"], c, os.path.join(vlib.BUILD, "c03_e2e_replay"))
        print("replay:", c["cmd"], " ".join(c["args"]), "-> rc", obs["rc"], len(obs["ids"]), "ids | oracle:", why or "holds")
        return
    obs, mism, _ = evaluate(ctx, [c], [], "replay", report=False)
    print("replay:", json.dumps(c), "->", json.dumps(obs[0]), "| oracle:", oracle(c, obs[0]) or "holds", "|", "model-mismatch" if mism else "model-agrees")
