"""C03 — no record is lost, duplicated or reordered between reader and writer (pkg/obiiter combinators)."""
import itertools, json, os, hashlib, re
import vlib

PROPS = ["C03/Props.v"]
META = dict(
    text="Rocq theorems over an executable model of the pkg/obiiter stream combinators as functions on arrival histories "
         "(batch number, records): for every partition into batches (empty ones included) and every arrival permutation, "
         "SortBatches (via Common/Reseq), Rebatch, FilterEmpty, FilterOn/FilterAnd (also on paired streams), DivideOn, Distribute (also "
         "followed by an order-sensitive consumer per output: dispatcher path), Concat, Pool, IBatchOver, Load/CompleteFileIterator, PairTo, "
         "PairedWith, IFragments, IMergeSequenceBatch, the (conditional) worker pool under any schedule, Split consumers under any "
         "assignment of batches, and the reader->workers->filter->rebatch->resequencer pipeline deliver exactly the expected records in "
         "input order with output numbers 0..m-1. The close protocol (Add/Done/WaitAndClose/Split) is a transition system of processes "
         "over Go's primitives: for EVERY well-formed instance and every schedule, no panic, no deadlock, every maximal run closes every "
         "output exactly once after its last push and every Split consumer observes the end; every combinator's instance is proved "
         "well-formed. On every run the REAL combinators are fed explicit histories (all permutations of small batch-number sets, random "
         "partitions, 0..8 workers), drained under a deadline, judged by a direct Python oracle and compared with the model by vm_compute; "
         "the Add/Done/Wait/Push/Close/End events logged by the real iterators (verif hook, per goroutine) are replayed by vm_compute as a "
         "complete run of a well-formed instance of the proved transition system; long streams (3-4 million one-record batches) go through "
         "the worker pool, FilterOn/FilterAnd, DivideOn, Distribute, Rebatch and SortBatches; commands run on inputs larger than the 1 MiB "
         "reader buffer, several files (empty ones, --no-order), paired files.",
    note="Trusted: gact_step IS Go's channel/WaitGroup semantics (send on closed / double close / negative counter panic, Wait blocks "
         "while positive, end seen after close); the receive side of the unbuffered channels is abstracted (a push never blocks: a consumer "
         "is alive until the close) and a goroutine that consumes one iterator to feed another is split in a consumer and a producer, so "
         "deadlock freedom is per protocol instance, not for arbitrary compositions (observed under a deadline). A worker pool is 'any "
         "permutation of the mapped batches' (LTS over take/emit labels proved to emit such a permutation). Speed and LimitMemory are "
         "modelled as the identity (correspondence only; Speed needs stderr to be a character device: the harness gives it /dev/null). "
         "Load sorts the collected batches by number (stable insertion sort in the model, sort.SliceStable in the code); MakeIConditionalWorker passes "
         "the records that do not satisfy the condition through unchanged (both after the fixes merged from C13 / C16; load_v0 / cond_worker_v0 "
         "are the code before). IFragments on paired "
         "data unpairs the fragmented records (oracle only). The data race on the receiver variable re-assigned by `iterator = "
         "iterator.SortBatches()` inside the goroutine of Rebatch/FilterEmpty/DivideOn/Distribute while the caller reads "
         "iterator.IsPaired() is real for the race detector but cannot change an observable (both values carry the same paired mark; the "
         "paired variants of these combinators are in the generator): recorded, not fixed. The end-to-end grids are judged by the oracle only.")
TRUSTED = ["Go runtime primitives: gact_step (Model.v) is taken as the semantics of channel send/close, WaitGroup Add/Done/Wait and of a receiver "
           "seeing the end of a channel; a goroutine loop is modelled as a fold over its arrival history; rendezvous on the unbuffered channels "
           "is abstracted (pushes never block), so absence of deadlock across composed stages is observed under a deadline, not proved",
           "verif hook pkg/obiiter/verif2_c03.go: the logged events (goroutine id parsed from runtime.Stack, iterator = channel identity, "
           "log order = order of the mutex-protected appends, Push/Close logged before the operation, Wait after it returns) are what the "
           "real iterators did"]

IMPORTS = ("From Coq Require Import List NArith Bool. Import ListNotations.\n"
           "From OBI.C03 Require Import Model.\n")

OPS_SINGLE = ["sortbatches", "rebatch", "filterempty", "filteron", "filterand", "divideon", "distribute", "worker",
              "worker_sorted", "copytee", "pipeline", "source"]
# round 2: Split used directly, Speed, LimitMemory, Load, CompleteFileIterator, conditional workers, paired filters,
# PairedWith, Distribute followed by an order-sensitive consumer per output (dispatcher path of obidistribute)
OPS_R2 = ["split", "speed", "limitmemory", "load", "load_sorted", "completefile", "completefile_sorted", "condworker",
          "condworker_sorted", "sliceworker", "filteron_p", "filterand_p", "pairedwith", "distribute_rebatch", "fragments_p"]
HARNESS_OP = dict(filteron_p="filteron", filterand_p="filterand", fragments_p="fragments")
NOT_SENT = ("tag", "malformed", "exhaustive", "nonumbering")


def wire(c):
    """the JSON sent to the harness"""
    d = {k: v for k, v in c.items() if k not in NOT_SENT}
    if c["op"] in HARNESS_OP:
        d["op"] = HARNESS_OP[c["op"]]
        d["paired"] = True
    if c["op"] == "pairedwith":
        d["paired"] = True
    return d


# ----------------------------------------------------------------------------------------------- generators
def partition(rng, nrec, nb, first_id=1):
    """split ids first_id..first_id+nrec-1 into nb batches, empty batches allowed"""
    cuts = sorted(rng.randrange(0, nrec + 1) for _ in range(max(nb - 1, 0)))
    ids = list(range(first_id, first_id + nrec))
    res, prev = [], 0
    for c in cuts + [nrec]:
        res.append(ids[prev:c])
        prev = c
    return res if nb > 0 else []


def history(parts, perm):
    return [dict(o=o, ids=parts[o]) for o in perm]


def rand_history(rng, maxb=8, maxrec=24, first_id=1):
    nb = rng.choice([0, 1, 1, 2, 3, 4, 5, 6, 7, 8][:maxb + 2])
    nrec = rng.randrange(0, maxrec + 1) if nb else 0
    parts = partition(rng, nrec, nb, first_id)
    perm = list(range(nb))
    k = rng.random()
    if k < 0.6:
        rng.shuffle(perm)
    elif k < 0.75:
        perm.reverse()
    return history(parts, perm)


nquick = [True]


def params(rng, c):
    if c["op"] == "limitmemory":
        c.setdefault("frac", 2.0)
    if c["op"] != "stress":
        # protocol trace: every corpus / exhaustive case with few batches, a third of the others
        few = sum(len(h) for h in c["streams"]) <= 3
        c.setdefault("trace", (few and "exhaustive" in c) or rng.random() < (0.34 if nquick[0] else 0.05))
    c.setdefault("size", rng.choice([1, 1, 2, 2, 3, 4, 5, 7, 50]))
    c.setdefault("nw", rng.randrange(1, 9))
    c.setdefault("mod", rng.choice([1, 2, 2, 3, 3, 4, 5]))
    c.setdefault("mod2", rng.choice([1, 2, 3]))
    c.setdefault("yield", rng.choice([0, 0, 20, 60]))
    return c


CORPUS = [
    # witnesses of the defects (always first)
    dict(op="concat_sorted", streams=[[], [dict(o=0, ids=[7]), dict(o=1, ids=[8])]], tag="concat-empty-first"),
    dict(op="concat", streams=[[], [dict(o=0, ids=[7])]], tag="concat-empty-first"),
    dict(op="concat_sorted", streams=[[], [], [dict(o=1, ids=[8]), dict(o=0, ids=[7])], []], tag="concat-empty-first"),
    dict(op="concat_sorted", streams=[[dict(o=0, ids=[7])], [], [dict(o=0, ids=[8])]], tag="concat-empty-middle"),
    dict(op="batchover", data=[], size=2, streams=[], tag="batchover-empty"),
    dict(op="batchover", data=[1, 2, 3, 4, 5], size=2, streams=[]),
    dict(op="copytee", streams=[[dict(o=0, ids=[1]), dict(o=1, ids=[2])]], dl=3000, tag="copytee-close"),
    dict(op="copytee", streams=[[]], dl=3000, tag="copytee-close"),
    dict(op="readfiles", streams=[[dict(o=1, ids=[2]), dict(o=0, ids=[1])]], tag="readfiles-order"),
    dict(op="readfiles", streams=[[dict(o=0, ids=[1])], [dict(o=2, ids=[5]), dict(o=0, ids=[3]), dict(o=1, ids=[4])]], tag="readfiles-order"),
    dict(op="readfiles", streams=[[], [dict(o=0, ids=[3]), dict(o=1, ids=[4])], []]),
    # boundary
    dict(op="sortbatches", streams=[[]]),
    dict(op="rebatch", size=1, streams=[[dict(o=0, ids=[])]]),
    dict(op="rebatch", size=3, streams=[[dict(o=1, ids=[4, 5, 6]), dict(o=0, ids=[1, 2, 3])]]),
    dict(op="rebatch", size=3, streams=[[dict(o=1, ids=[4, 5, 6, 7]), dict(o=0, ids=[1, 2, 3])]]),
    dict(op="filterempty", streams=[[dict(o=2, ids=[]), dict(o=0, ids=[]), dict(o=1, ids=[])]]),
    dict(op="filterempty", streams=[[dict(o=2, ids=[3]), dict(o=0, ids=[]), dict(o=1, ids=[])]]),
    dict(op="divideon", size=2, mod=1, streams=[[dict(o=0, ids=[1, 2, 3])]]),
    dict(op="distribute", size=1, mod=3, streams=[[dict(o=1, ids=[4, 5, 6]), dict(o=0, ids=[1, 2, 3])]]),
    dict(op="distribute", size=2, mod=3, streams=[[]]),
    dict(op="pool", streams=[[], [dict(o=0, ids=[])], []]),
    dict(op="pool", streams=[[dict(o=0, ids=[1]), dict(o=1, ids=[2])], [dict(o=0, ids=[3])], [dict(o=1, ids=[5]), dict(o=0, ids=[4])]]),
    dict(op="pairto", size=2, streams=[[dict(o=0, ids=[1, 2, 3])], [dict(o=1, ids=[13]), dict(o=0, ids=[11, 12])]]),
    # witnesses of round 2: a worker count of 0 (obigrep --max-cpu 0: CLIParallelWorkers() has no lower bound)
    dict(op="filteron", nw=0, mod=2, size=2, streams=[[dict(o=1, ids=[3, 4]), dict(o=0, ids=[1, 2])]], tag="zero-workers"),
    dict(op="filterand", nw=0, mod=2, size=2, streams=[[]], tag="zero-workers"),
    dict(op="fragments", nw=0, size=2, minsize=10, length=10, overlap=2, streams=[[dict(o=0, ids=[3, 9])]], tag="zero-workers"),
    # round 2 boundary cases
    dict(op="split", nw=3, streams=[[dict(o=1, ids=[3, 4]), dict(o=0, ids=[1, 2]), dict(o=2, ids=[])]]),
    dict(op="split", nw=4, streams=[[]]),
    dict(op="speed", streams=[[dict(o=1, ids=[3, 4]), dict(o=0, ids=[1, 2])]]),
    dict(op="speed", streams=[[]]),
    dict(op="limitmemory", frac=0.0, streams=[[dict(o=1, ids=[3, 4]), dict(o=0, ids=[1, 2])]], dl=30000, tag="memory limit always exceeded: forwards after 10000 yields"),
    dict(op="completefile", streams=[[]]),
    dict(op="completefile_sorted", streams=[[dict(o=1, ids=[]), dict(o=0, ids=[])]]),
    dict(op="completefile_sorted", streams=[[dict(o=1, ids=[3, 4]), dict(o=0, ids=[1, 2])]]),
    dict(op="load_sorted", streams=[[dict(o=1, ids=[3, 4]), dict(o=2, ids=[]), dict(o=0, ids=[1, 2])]]),
    dict(op="condworker_sorted", nw=2, mod=3, mod2=2, streams=[[dict(o=1, ids=[3, 4]), dict(o=0, ids=[1, 2])]]),
    dict(op="filteron_p", nw=2, mod=2, size=2, streams=[[dict(o=1, ids=[3, 4]), dict(o=0, ids=[1, 2])]]),
    dict(op="filterand_p", nw=2, mod=2, size=2, streams=[[dict(o=1, ids=[3, 4, 6, 8]), dict(o=0, ids=[1, 2])]]),
    dict(op="pairedwith", streams=[[dict(o=1, ids=[3, 4]), dict(o=0, ids=[1, 2])]]),
    dict(op="distribute_rebatch", size=2, mod=2, mod2=3, streams=[[dict(o=1, ids=[3, 4, 5, 6, 7]), dict(o=0, ids=[1, 2])]]),
    dict(op="distribute_rebatch", size=1, mod=3, mod2=1, streams=[[]]),
    dict(op="fragments_p", nw=2, size=2, minsize=10, length=10, overlap=2, streams=[[dict(o=0, ids=[3, 9])]]),
    # malformed numbering (outside the hypothesis of the property: model correspondence only)
    dict(op="sortbatches", streams=[[dict(o=0, ids=[1]), dict(o=2, ids=[3]), dict(o=3, ids=[4])]], malformed=True),
    dict(op="sortbatches", streams=[[dict(o=1, ids=[1]), dict(o=1, ids=[2]), dict(o=0, ids=[3]), dict(o=2, ids=[4])]], malformed=True),
    dict(op="rebatch", size=2, streams=[[dict(o=0, ids=[1]), dict(o=2, ids=[3]), dict(o=3, ids=[4])]], malformed=True),
]


def gen_cases(ctx, scale=1):
    rng = ctx.rng
    nquick[0] = ctx.quick
    cases = [params(rng, dict(c, trace=True)) for c in CORPUS]
    # exhaustive: every arrival permutation of n batch numbers
    maxn = 5 if ctx.quick else 7
    exh = 0
    for n in range(0, maxn + 1):
        parts = partition(rng, 2 * n + 1 if n else 0, n)
        if n >= 2:
            parts[rng.randrange(n)] = []           # at least one empty batch
        perms = list(itertools.permutations(range(n)))
        for perm in perms:
            ops = ["sortbatches", "rebatch"] + [rng.choice(["filterempty", "divideon", "distribute", "filteron", "worker_sorted", "pipeline", "concat_sorted"])] + \
                  [rng.choice(["split", "completefile_sorted", "condworker_sorted", "filterand_p", "filteron_p", "distribute_rebatch", "load_sorted"])]
            if len(perms) <= 24:
                ops = ["sortbatches", "rebatch", "filterempty", "divideon", "distribute", "filteron", "worker_sorted", "pipeline", "concat_sorted",
                       "split", "completefile_sorted", "condworker_sorted", "filterand_p", "filteron_p", "distribute_rebatch"]
            for op in ops:
                c = params(rng, dict(op=op, streams=[history(parts, perm)], exhaustive=n))
                if op == "concat_sorted":
                    c["streams"] = [rand_history(rng, 3, 6, 100)] + c["streams"] if rng.random() < 0.5 else c["streams"] + [rand_history(rng, 3, 6, 100)]
                cases.append(c)
                exh += 1
    ctx.cov["exhaustive"] = "every arrival permutation of 0..%d batch numbers (%d cases)" % (maxn, exh)
    # random single-stream cases
    nrand = (60 if ctx.quick else 1500) * scale
    for op in OPS_SINGLE:
        for _ in range(nrand if op != "copytee" else nrand // 4):
            cases.append(params(rng, dict(op=op, streams=[rand_history(rng)])))
    for op in PAIRED_OPS:       # paired streams through the combinators that must keep the paired mark and the mates
        for _ in range(max(nrand // 6, 2)):
            if op in ("concat", "concat_sorted", "pool"):
                streams = [rand_history(rng, 4, 8, 1 + 40 * k) for k in range(rng.randrange(1, 4))]
            else:
                streams = [rand_history(rng)]
            cases.append(params(rng, dict(op=op, paired=True, streams=streams)))
    for op in OPS_R2:
        for _ in range(nrand // 3 if op in ("speed", "limitmemory", "load", "completefile", "sliceworker", "pairedwith", "load_sorted", "condworker") else (2 * nrand) // 3):
            c = dict(op=op, streams=[rand_history(rng)])
            if op == "fragments_p":
                length = rng.choice([5, 8, 10, 20, 30])
                c.update(length=length, overlap=rng.randrange(0, length - 1), minsize=rng.choice([length, length + 3, 2 * length, 0]))
            cases.append(params(rng, c))
    # multi-stream: concat / pool with empty streams at every position
    for op in ("concat", "concat_sorted", "pool", "readfiles", "readfiles_par"):
        for _ in range(nrand):
            k = rng.randrange(1, 6)
            streams = []
            fid = 1
            for _ in range(k):
                h = [] if rng.random() < 0.3 else rand_history(rng, 5, 10, fid)
                fid += 40
                streams.append(h)
            cases.append(params(rng, dict(op=op, streams=streams)))
    # worker counts 1..8 on one history
    for nw in range(1, 9):
        for op in ("worker", "worker_sorted", "filteron", "pipeline", "split", "condworker", "filterand_p"):
            for _ in range(3 if ctx.quick else 40):
                cases.append(params(rng, dict(op=op, nw=nw, streams=[rand_history(rng)], **{"yield": rng.choice([0, 30, 100])})))
    # batchover
    for _ in range(nrand):
        n = rng.choice([0, 1, 2, 3, 5, 8, 13])
        cases.append(params(rng, dict(op="batchover", data=list(range(1, n + 1)), streams=[])))
    # pairto (well-formed pairs: same number of records in both files)
    for _ in range(nrand // 2):
        n = rng.randrange(0, 14)
        cases.append(params(rng, dict(op="pairto", streams=[history_n(rng, n, 1), history_n(rng, n, 101)])))
    # fragments (IFragments: sequence of record id has length 1 + 7*id mod 61)
    for _ in range(nrand):
        length = rng.choice([5, 8, 10, 20, 30])
        overlap = rng.randrange(0, length - 1)
        minsize = rng.choice([length, length + 3, 2 * length, 0])
        cases.append(params(rng, dict(op="fragments", streams=[rand_history(rng)], minsize=minsize, length=length, overlap=overlap)))
    # IMergeSequenceBatch: every (non-empty) batch merged into one record, in arrival order
    for _ in range(nrand // 2):
        h = [b for b in rand_history(rng) if b["ids"]]
        cases.append(params(rng, dict(op="merge", streams=[h], nonumbering=True)))
    # ill-formed pairs (outside the property: the model must still predict fatal / truncation)
    for _ in range(4 if ctx.quick else 40):
        n = rng.randrange(1, 10)
        m = rng.choice([k for k in range(0, 12) if k != n])
        cases.append(params(rng, dict(op="pairto", streams=[history_n(rng, n, 1), history_n(rng, m, 101)])))
    return cases


def history_n(rng, nrec, first_id):
    nb = rng.randrange(1, 5) if nrec else rng.randrange(0, 3)
    parts = partition(rng, nrec, nb, first_id)
    perm = list(range(nb))
    rng.shuffle(perm)
    return history(parts, perm)


# ----------------------------------------------------------------------------------------------- direct oracle
def wf(mod, i):
    if mod <= 0:
        return [i]
    return [] if i % mod == 0 else ([i, i + 500] if i % mod == 1 else [i])


def mate(i):
    return 1000 + (i * 7 + i // 3) % 50


def subseq(a, b):
    it = iter(b)
    return all(any(x == y for y in it) for x in a)


def long_seq(i):
    return "".join("acgt"[(i + j * j + j // 3) % 4] for j in range(1 + (7 * i) % 61))


def pred(mod, i):
    return mod > 0 and i % mod == 0


def recs(h):
    return [i for b in sorted(h, key=lambda b: b["o"]) for i in b["ids"]]


def wellnumbered(h):
    return sorted(b["o"] for b in h) == list(range(len(h)))


def flat(bs):
    return [i for b in bs for i in b["ids"]]


def chunked(bs, size, what):
    """numbers 0..m-1 in delivery order; every batch but the last has exactly `size` records, the last 1..size"""
    if [b["o"] for b in bs] != list(range(len(bs))):
        return "%s: batch numbers %s are not 0..%d in order" % (what, [b["o"] for b in bs], len(bs) - 1)
    for k, b in enumerate(bs):
        n = len(b["ids"])
        if (k < len(bs) - 1 and n != size) or not (1 <= n <= size):
            return "%s: batch %d has %d records (size %d)" % (what, k, n, size)
    return None


PAIRED_OPS = ("sortbatches", "rebatch", "filterempty", "divideon", "concat", "concat_sorted", "pool", "worker_sorted", "completefile_sorted",
              "speed", "limitmemory", "copytee")


def oracle(c, o):
    """None if the observation satisfies the property on this case, else a text saying what fails."""
    why = oracle_core(c, o)
    if why is None and c.get("paired") and c["op"] in PAIRED_OPS and not c.get("malformed"):
        # a paired stream stays paired through the combinator: the output iterators are marked paired (the writers
        # decide on that mark whether the file of mates is written) and every record is still linked to its mate
        for x in o["outs"]:
            if not x.get("paired"):
                return "%s on a paired stream returns an iterator that is not marked paired (output %d)" % (c["op"], x["key"])
            for b in x["batches"]:
                exp = [mate(i) if i < 500 else -1 for i in b["ids"]]
                if [p if i < 500 else -1 for i, p in zip(b["ids"], b.get("pids") or [])] != exp:
                    return "%s: batch %d: records %s are linked to mates %s, expected %s" % (c["op"], b["o"], b["ids"], b.get("pids"), exp)
    return why


def oracle_core(c, o):
    if c.get("malformed"):
        return None
    op = c["op"]
    if o["kind"] == "crash":
        return "harness process crashed or hung: " + o.get("err", "")[-200:]
    if o["kind"] == "panic":
        return "panic: " + o.get("panic", "")
    if op == "pairto" and len(recs(c["streams"][0])) != len(recs(c["streams"][1])):
        return None
    if o.get("fatal"):
        return "log.Fatal called"
    if not o["term"]:
        return "termination: not every output stream was closed before the deadline (closed=%s)" % [x["closed"] for x in o["outs"]]
    outs = {x["key"]: x["batches"] for x in o["outs"]}
    if c.get("paired") and op in PAIRED_OPS:      # the mates are judged by oracle(); here the records
        outs = {k: [dict(o=b["o"], ids=b["ids"]) for b in bs] for k, bs in outs.items()}
    S = c["streams"]
    size = c.get("size", 1)
    for h in S:
        assert c.get("nonumbering") or wellnumbered(h), "generator produced a malformed history"
    out0 = outs.get(0, [])

    def same(got, exp, what):
        return None if got == exp else "%s: got %s expected %s" % (what, got, exp)

    def noextra(bs):
        return [dict(o=b["o"], ids=b["ids"]) for b in bs]

    def mates_ok(bs, what):
        for b in bs:
            if b.get("pids") != [mate(i) for i in b["ids"]]:
                return "%s: batch %d: records %s are linked to mates %s, expected %s" % (what, b["o"], b["ids"], b.get("pids"), [mate(i) for i in b["ids"]])
        return None

    if op in ("sortbatches", "source", "speed", "limitmemory"):
        exp = sorted(S[0], key=lambda b: b["o"]) if op == "sortbatches" else S[0]
        return same(out0, exp, "delivered batches")
    if op == "split":
        per = [x["batches"] for x in o["outs"]]
        if len(per) != max(c["nw"], 1):
            return "split: %d consumers observed, %d started" % (len(per), c["nw"])
        key = lambda b: (b["o"], tuple(b["ids"]))
        if sorted(key(b) for bs in per for b in bs) != sorted(key(b) for b in S[0]):
            return "split: the batches received by the %d consumers %s are not exactly the batches pushed %s" % (len(per), per, S[0])
        for bs in per:
            if not subseq(bs, S[0]):
                return "split: a consumer received %s, not in channel order %s" % (bs, S[0])
        return None
    if op in ("load", "load_sorted", "completefile", "completefile_sorted"):
        allr = recs(S[0])       # Load sorts the collected batches by number (stable): input order whatever the arrival order
        if op.startswith("load"):
            return same(out0, [dict(o=0, ids=allr)], "loaded slice")
        return same(out0, [dict(o=0, ids=allr)] if allr else [], "single batch of the complete file")
    if op in ("condworker", "condworker_sorted", "sliceworker"):
        sel = (lambda i: True) if op == "sliceworker" else (lambda i: pred(c["mod2"], i))
        # the worker on the selected records, the others unchanged, at their place
        exp = [dict(o=b["o"], ids=[j for i in b["ids"] for j in (wf(c["mod"], i) if sel(i) else [i])]) for b in sorted(S[0], key=lambda b: b["o"])]
        got = out0 if op != "condworker" else sorted(out0, key=lambda b: b["o"])
        return same(got, exp, "delivered batches")
    if op in ("filteron_p", "filterand_p"):
        keep = (lambda i: pred(c["mod"], i)) if op == "filteron_p" else (lambda i: pred(c["mod"], i) and pred(c["mod"], mate(i)))
        if not o["outs"][0].get("paired"):
            return "%s on a paired stream returns an iterator that is not marked paired" % op
        return same(flat(out0), [i for i in recs(S[0]) if keep(i)], "records") or mates_ok(out0, op) or chunked(out0, size, op)
    if op == "pairedwith":
        return same(noextra(out0), [dict(o=b["o"], ids=[mate(i) for i in b["ids"]]) for b in S[0]], "batches of mates") or \
               same([dict(o=b["o"], ids=b.get("pids") or []) for b in out0], S[0], "records the mates are linked back to")
    if op == "distribute_rebatch":
        r = recs(S[0])
        mod = max(c["mod"], 1)
        keys = []
        for i in r:
            if i % mod not in keys:
                keys.append(i % mod)
        e = same(o.get("news", []), keys, "announced keys") or same(sorted(outs), sorted(keys), "output streams")
        if e:
            return e
        for k in keys:
            e = same(flat(outs[k]), [i for i in r if i % mod == k], "stream of key %d" % k) or chunked(outs[k], max(c["mod2"], 1), "stream of key %d" % k)
            if e:
                return e
        return None
    if op == "rebatch":
        return same(flat(out0), recs(S[0]), "records") or chunked(out0, size, "rebatch")
    if op == "filterempty":
        exp = [b["ids"] for b in sorted(S[0], key=lambda b: b["o"]) if b["ids"]]
        return same(out0, [dict(o=k, ids=x) for k, x in enumerate(exp)], "delivered batches")
    if op in ("filteron", "filterand"):
        return same(flat(out0), [i for i in recs(S[0]) if pred(c["mod"], i)], "records") or chunked(out0, size, op)
    if op == "divideon":
        t, f = outs.get(1, []), outs.get(0, [])
        r = recs(S[0])
        return (same(flat(t), [i for i in r if pred(c["mod"], i)], "true stream") or chunked(t, size, "true stream") or
                same(flat(f), [i for i in r if not pred(c["mod"], i)], "false stream") or chunked(f, size, "false stream"))
    if op == "distribute":
        r = recs(S[0])
        mod = max(c["mod"], 1)
        keys = []
        for i in r:
            if i % mod not in keys:
                keys.append(i % mod)
        e = same(o.get("news", []), keys, "announced keys") or same(sorted(outs), sorted(keys), "output streams")
        if e:
            return e
        for k in keys:
            e = same(flat(outs[k]), [i for i in r if i % mod == k], "stream of key %d" % k) or chunked(outs[k], size, "stream of key %d" % k)
            if e:
                return e
        return None
    if op in ("concat", "concat_sorted"):
        n = sum(len(h) for h in S)
        exp = [i for h in S for i in recs(h)]
        if sorted(b["o"] for b in out0) != list(range(n)):
            return "concat: %d input batches, output batch numbers %s are not a permutation of 0..%d" % (n, [b["o"] for b in out0], n - 1)
        if op == "concat_sorted" and [b["o"] for b in out0] != list(range(n)):
            return "concat|sortbatches: batches delivered out of order %s" % [b["o"] for b in out0]
        return same(recs(out0), exp, "records in batch-number order")
    if op == "readfiles":
        n = sum(len(h) for h in S)
        if [b["o"] for b in out0] != list(range(n)):
            return "readfiles: %d input batches, output batch numbers %s are not 0..%d in order" % (n, [b["o"] for b in out0], n - 1)
        return same(flat(out0), [i for h in S for i in recs(h)], "records (file after file, each in its own order)")
    if op == "readfiles_par":
        n = sum(len(h) for h in S)
        if sorted(b["o"] for b in out0) != list(range(n)):
            return "readfiles: %d input batches, output batch numbers %s are not a permutation of 0..%d" % (n, [b["o"] for b in out0], n - 1)
        r = recs(out0)
        for h in S:        # files may interleave (--no-order) but each file keeps its own order
            mine = set(recs(h))
            e = same([i for i in r if i in mine], recs(h), "records of one file, in batch-number order")
            if e:
                return e
        return same(sorted(r), sorted(i for h in S for i in recs(h)), "multiset of records")
    if op == "pool":
        n = sum(len(h) for h in S)
        if sorted(b["o"] for b in out0) != list(range(n)):
            return "pool: %d input batches, output batch numbers %s are not a permutation of 0..%d" % (n, [b["o"] for b in out0], n - 1)
        return same(sorted(b["ids"] for b in out0), sorted(b["ids"] for h in S for b in h), "multiset of batch contents")
    if op in ("worker", "worker_sorted"):
        exp = [dict(o=b["o"], ids=[j for i in b["ids"] for j in wf(c["mod"], i)]) for b in sorted(S[0], key=lambda b: b["o"])]
        got = out0 if op == "worker_sorted" else sorted(out0, key=lambda b: b["o"])
        return same(got, exp, "delivered batches" + ("" if op == "worker_sorted" else " (sorted by number)"))
    if op == "batchover":
        d = c["data"]
        return same(out0, [dict(o=k, ids=d[i:i + size]) for k, i in enumerate(range(0, len(d), size))], "delivered batches")
    if op == "copytee":
        return same(outs.get(0), S[0], "first copy") or same(outs.get(1), S[0], "second copy")
    if op == "pipeline":
        exp = [j for i in recs(S[0]) for j in wf(c["mod"], i) if pred(c["mod2"], j)]
        return same(flat(out0), exp, "records") or chunked(out0, size, "pipeline")
    if op == "merge":
        return same(flat(out0), [b["ids"][0] for b in S[0]], "merged records (one per input batch, arrival order)") or chunked(out0, size, "merge")
    if op in ("fragments", "fragments_p"):
        e = chunked(out0, size, "fragments")
        if e:
            return e
        frs = [(i, n, q) for b in out0 for i, n, q in zip(b["ids"], b.get("names") or [], b.get("seqs") or [])]
        if len(frs) != len(flat(out0)):
            return "fragments: names/sequences missing"
        src = recs(S[0])
        groups = []           # consecutive fragments of the same source record
        for i, n, q in frs:
            if groups and groups[-1][0] == i and "_sub" in n:
                groups[-1][1].append(q)
            else:
                groups.append((i, [q], n))
        if [g[0] for g in groups] != src:
            return "fragments: source records %s expected %s" % ([g[0] for g in groups], src)
        step = c["length"] - c["overlap"]
        for i, fs, n in groups:
            full = long_seq(i)
            if len(full) <= c["minsize"]:
                if fs != [full]:
                    return "fragments: record %d (length %d <= minsize) must pass unchanged, got %s" % (i, len(full), fs)
                if op == "fragments_p" and [p for b in out0 for j, p in zip(b["ids"], b.get("pids") or []) if j == i] != [mate(i)]:
                    return "fragments: record %d passes unchanged but lost its mate" % i
                continue
            if "".join(f[:step] for f in fs[:-1]) + fs[-1] != full:
                return "fragments: the non-overlapping parts of the fragments of record %d do not rebuild its sequence" % i
            if any(len(f) != c["length"] for f in fs[:-1]) or not (1 <= len(fs[-1]) < c["length"] + step):
                return "fragments: record %d fragment lengths %s (length %d, step %d)" % (i, [len(f) for f in fs], c["length"], step)
        return None
    if op == "pairto":
        a, b = recs(S[0]), recs(S[1])
        return (same(flat(out0), a, "forward records") or same([i for x in out0 for i in x.get("pids", [])], b, "paired mates") or
                chunked(out0, size, "pairto"))
    return "unknown op"


KNOWN_KEYS = {"concat-empty-first": "Concat: when the first stream(s) are empty the output batches are numbered from 1, so SortBatches and every ordered consumer downstream deliver nothing",
              "batchover-empty": "IBatchOver panics on an empty slice (data.IsPaired() indexes element 0)",
              "readfiles-order": "ReadSequencesBatchFromFiles renumbers the batches of each file in ARRIVAL order: with several input files the records of a file are reordered whenever its parser workers deliver batches out of order",
              "copytee-close": "CopyTee never calls Done on its first output: neither output is ever closed, consumers hang"}


def known_key(c, o):
    if c["op"] in ("concat", "concat_sorted") and c["streams"] and not c["streams"][0] and any(c["streams"]):
        return "concat-empty-first"
    if c["op"] in ("readfiles", "readfiles_par") and any([b["o"] for b in h] != sorted(b["o"] for b in h) for h in c["streams"]):
        return "readfiles-order"
    if c["op"] == "batchover" and not c["data"] and o["kind"] == "panic":
        return "batchover-empty"
    if c["op"] == "copytee" and o["kind"] == "ok" and not o["term"]:
        return "copytee-close"
    return None


# ----------------------------------------------------------------------------------------------- rendering to Gallina
def nl(l):
    return "[" + ";".join(str(x) for x in l) + "]%N"


def hist(h):
    return "[" + ";".join("(%d,%s)" % (b["o"], nl(b["ids"])) for b in h) + "]"


OPC = dict(split="OSplit", speed="OForward", limitmemory="OForward", load="OLoad", load_sorted="OLoadSorted", completefile="OCompleteFile",
           completefile_sorted="OCompleteFileSorted", condworker="OCondWorker", condworker_sorted="OCondWorkerSorted", sliceworker="OWorkerSorted",
           filteron_p="OFilterOnP", filterand_p="OFilterAndP", pairedwith="OPairedWith", distribute_rebatch="ODistRebatch", source="OSource", sortbatches="OSort", rebatch="ORebatch", filterempty="OFilterEmpty", filteron="OFilterOn",
           filterand="OFilterOn", divideon="ODivideOn", distribute="ODistribute", concat="OConcat", concat_sorted="OConcatSorted",
           pool="OPool", worker="OWorker", worker_sorted="OWorkerSorted", batchover="OBatchOver", copytee="OCopyTee",
           pipeline="OPipeline", readfiles="OReadFiles", readfiles_par="OReadFilesPar", pairto="OPairTo", fragments="OFragments", fragments_p="OFragments", merge="OMerge")


def case_term(c, o):
    outs = "[" + ";".join("(%d,%s)" % (x["key"], hist(x["batches"])) for x in o["outs"]) + "]"
    if c["op"] in ("pairto", "filteron_p", "filterand_p", "pairedwith"):      # key 0: the records, key 1: the mates they are linked to
        bs = o["outs"][0]["batches"] if o["outs"] else []
        outs = "[(0,%s);(1,%s)]" % (hist(bs), hist([dict(o=b["o"], ids=b.get("pids") or []) for b in bs]))
    streams = "[" + ";".join(hist(h) for h in c["streams"]) + "]"
    kind = "KPanic" if o["kind"] == "panic" else ("KFatal" if o.get("fatal") else ("KOk" if o["term"] else "KHang"))
    opc = OPC[c["op"]]
    fouts = "[]"
    if c["op"] in ("fragments", "fragments_p"):
        opc = "(OFragments %d %d %d)" % (c["minsize"], c["length"], c["overlap"])
        bs = o["outs"][0]["batches"] if o["outs"] else []
        fouts = "[" + ";".join("(%d,[%s])" % (b["o"], ";".join(nl(["acgt".index(ch) for ch in q]) for q in b.get("seqs") or [])) for b in bs) + "]"
    return "mkc %s %s %s %d %d%%N %d%%N %s %s [%s] %s" % (opc, streams, nl(c.get("data") or []), c.get("size", 1), max(c.get("mod", 1), 1),
                                                   max(c.get("mod2", 1), 1), kind, outs, ";".join(str(k) for k in o.get("news") or []), fouts)



# ----------------------------------------------------------------------------------------------- end to end (commands)
def fasta(recs):
    return "".join(">%s\n%s\n" % (i, s) for i, s in recs)


def out_ids(text):
    return [l[1:].split()[0] for l in text.splitlines() if l.startswith(">")]


def e2e_cases(ctx):
    """(args, input files {name: records}, stdin name or None, expected stdout ids, expected ids of extra output files)"""
    rng = ctx.rng
    def mk(n, first):
        return [("r%d" % (first + k), "".join(rng.choice("acgt") for _ in range(rng.randrange(5, 40)))) for k in range(n)]
    sets = dict(big=mk(240 if ctx.quick else 1500, 1), one=mk(1, 5001), empty=[], second=mk(37, 7001),
                short1=[("r6001", "acgtacgt")])      # one record, not selected by -l 20: the witness of the side-output exit race
    cpus = [1, 2, 3, 8] if ctx.quick else [1, 2, 3, 4, 5, 6, 7, 8, 16]
    sizes = [1, 2, 7, 100] if ctx.quick else [1, 2, 3, 7, 16, 50, 100, 5000]
    L = 20
    cases = []
    for cpu in cpus:
        for bs in sizes:
            opt = ["--max-cpu", str(cpu), "--batch-size", str(bs)]
            for name in ("big", "one", "empty", "short1"):
                r = sets[name]
                ids = [i for i, _ in r]
                sel = [i for i, s in r if len(s) >= L]
                rej = [i for i, s in r if len(s) < L]
                cases.append(dict(cmd="obiconvert", args=opt + [name], stdin=None, exp=ids, extra={}))
                cases.append(dict(cmd="obigrep", args=opt + ["-l", str(L), name], stdin=None, exp=sel, extra={}))
                cases.append(dict(cmd="obigrep", args=opt + ["-l", str(L), "--save-discarded", "@discarded", name], stdin=None, exp=sel, extra={"@discarded": rej}))
                cases.append(dict(cmd="obiannotate", args=opt + ["--length", name], stdin=None, exp=ids, extra={}))
            cases.append(dict(cmd="obiconvert", args=opt, stdin="big", exp=[i for i, _ in sets["big"]], extra={}))
            if cpu == cpus[0]:      # a worker count of 0 is accepted by the option parser
                r = sets["big"]
                cases.append(dict(cmd="obigrep", args=["--max-cpu", "0", "--batch-size", str(bs), "-l", str(L), "big"], stdin=None,
                                  exp=[i for i, s in r if len(s) >= L], extra={}))
            for files in (["big", "second"], ["empty", "second"], ["one", "empty", "second"]):
                cases.append(dict(cmd="obiconvert", args=opt + files, stdin=None, exp=[i for f in files for i, _ in sets[f]], extra={}))
    return sets, cases


def e2e_run(ctx, bindir, sets, c, wd):
    os.makedirs(wd, exist_ok=True)
    for name, r in sets.items():
        p = os.path.join(wd, name + ".fasta")
        if not os.path.exists(p) or open(p).read() != fasta(r):
            open(p, "w").write(fasta(r))
    extra_paths = {}
    args = []
    for a in c["args"]:
        if a in sets:
            args.append(os.path.join(wd, a + ".fasta"))
        elif a.startswith("@"):
            extra_paths[a] = os.path.join(wd, a[1:] + ".out")
            if os.path.exists(extra_paths[a]):
                os.remove(extra_paths[a])
            args.append(extra_paths[a])
        else:
            args.append(a)
    inp = fasta(sets[c["stdin"]]).encode() if c["stdin"] else b""
    rc, out, err, dt = vlib.sh([os.path.join(bindir, c["cmd"])] + args, timeout=60, inp=inp)
    if rc == 124:        # stalled host: once more before calling it a hang
        rc, out, err, dt = vlib.sh([os.path.join(bindir, c["cmd"])] + args, timeout=120, inp=inp)
    obs = dict(rc=rc, ids=out_ids(out), extra={k: (out_ids(open(p).read()) if os.path.exists(p) else None) for k, p in extra_paths.items()})
    why = None
    if rc == 124:
        why = "termination: the command did not finish within 60 s"
    elif rc != 0:
        why = "exit code %d: %s" % (rc, err[-300:])
    elif obs["ids"] != c["exp"]:
        why = "stdout ids differ from the selected records in input order (%d delivered, %d expected)" % (len(obs["ids"]), len(c["exp"]))
    else:
        for k, exp in c["extra"].items():
            if (obs["extra"][k] or []) != exp:
                why = "ids of %s differ from the expected records in input order" % k
    return obs, why


def e2e(ctx, broken):
    bindir, err = ctx.build_cmds(["obiconvert", "obigrep", "obiannotate"])
    if bindir is None:
        broken.append(dict(kind="command-build", detail=err))
        return
    sets, cases = e2e_cases(ctx)
    wd = os.path.join(vlib.BUILD, "c03_e2e_" + hashlib.sha1(vlib.REPO.encode()).hexdigest()[:8])
    from concurrent.futures import ThreadPoolExecutor
    with ThreadPoolExecutor(max_workers=1) as ex:      # sequential: the commands are themselves parallel; extra output files are shared
        res = list(ex.map(lambda c: e2e_run(ctx, bindir, sets, c, wd), cases))
    nbad = 0
    for k, (c, (obs, why)) in enumerate(zip(cases, res)):
        if why:
            nbad += 1
            if nbad <= 2:
                ctx.violation("e2e_%d" % k, dict(property="C03", kind="e2e", case=c, sets={n: sets[n] for n in set(c["args"]) & set(sets) | ({c["stdin"]} if c["stdin"] else set())},
                                                implementation=dict(rc=obs["rc"], n_ids=len(obs["ids"]), first_ids=obs["ids"][:20], extra={a: (v or [])[:20] for a, v in obs["extra"].items()}),
                                                expected=why))
    ctx.cov["e2e_command_runs"] = len(cases)
    ctx.cov["e2e_grid"] = "obiconvert/obigrep(-l, --save-discarded)/obiannotate x --max-cpu x --batch-size x {240+ records, 1 record, empty, stdin, several files incl. empty first}"

# ----------------------------------------------------------------------------------------------- end to end, round 2
def ids_of(text):
    """record identifiers of a fasta / fastq text, in file order"""
    lines = text.splitlines()
    if lines and lines[0].startswith("@"):
        return [l[1:].split()[0] for l in lines[0::4]]
    return [l[1:].split()[0] for l in lines if l.startswith(">")]


def e2e2_files(ctx, wd):
    """inputs LARGER than the 1 MiB read buffer of the readers (a smaller file is a single chunk whatever --batch-size, so the
    parser workers never deliver out of order), an empty file, a pair of fastq files of mates"""
    rng = ctx.rng
    def sq(n):
        return "".join(rng.choices("acgt", k=n))
    F = {}
    F["hugeA"] = [("h%d" % (k + 1), sq(rng.randrange(150, 380)), "s%d" % rng.randrange(5)) for k in range(9000)]
    F["hugeB"] = [("g%d" % (k + 1), sq(rng.randrange(150, 380)), "s%d" % rng.randrange(5)) for k in range(4500)]
    F["none"] = []
    F["fwd"] = [("p%d" % (k + 1), sq(rng.randrange(20, 60)), "") for k in range(13000)]
    F["rev"] = [("p%d" % (k + 1), sq(rng.randrange(20, 60)), "") for k in range(13000)]
    os.makedirs(wd, exist_ok=True)
    paths = {}
    for name, recs in F.items():
        fq = name in ("fwd", "rev")
        paths[name] = os.path.join(wd, name + (".fastq" if fq else ".fasta"))
        with open(paths[name], "w") as f:
            for i, q, smp in recs:
                f.write("@%s\n%s\n+\n%s\n" % (i, q, "I" * len(q)) if fq else ">%s {\"sample\":\"%s\"}\n%s\n" % (i, smp, q))
    return F, paths


def e2e2_cases(ctx, F):
    grid = [(2, 100), (8, 1700), (8, 100)] if ctx.quick else [(c, b) for c in (1, 2, 3, 8, 16) for b in (10, 100, 1700, 5000)]
    ids = {n: [r[0] for r in F[n]] for n in F}
    L = 250
    both30 = [a[0] for a, b in zip(F["fwd"], F["rev"]) if len(a[1]) >= 30 and len(b[1]) >= 30]
    cases = []
    for k, (cpu, bs) in enumerate(grid):
        opt = ["--max-cpu", str(cpu), "--batch-size", str(bs)]
        def add(cmd, args, stdout=None, files=None, per_file=None):
            cases.append(dict(cmd=cmd, args=opt + args, stdout=stdout, files=files or {}, per_file=per_file))
        add("obiconvert", ["hugeA"], stdout=ids["hugeA"])
        add("obigrep", ["-l", str(L), "hugeA"], stdout=[r[0] for r in F["hugeA"] if len(r[1]) >= L])
        add("obiconvert", ["hugeA", "none", "hugeB"], stdout=ids["hugeA"] + ids["hugeB"])
        add("obiconvert", ["--no-order", "hugeB", "none", "hugeA"], per_file=[ids["hugeB"], ids["hugeA"]])
        add("obiconvert", ["fwd"], stdout=ids["fwd"])
        add("obiconvert", ["--paired-with", "rev", "fwd", "--out", "@P.fastq"], files={"P_R1.fastq": ids["fwd"], "P_R2.fastq": ids["rev"]})
        add("obigrep", ["-l", "30", "--paired-mode", "and", "--paired-with", "rev", "fwd", "--out", "@G.fastq"], files={"G_R1.fastq": both30, "G_R2.fastq": both30})
        add("obidistribute", ["-c", "sample", "-p", "@D_%s.fasta", "hugeA"],
            files={"D_s%d.fasta" % v: [r[0] for r in F["hugeA"] if r[2] == "s%d" % v] for v in range(5)})
        add("obipairing", ["-F", "fwd", "-R", "rev"], stdout=ids["fwd"])
        if k == 0 or not ctx.quick:
            add("obiannotate", ["--length", "hugeB", "hugeA"], stdout=ids["hugeB"] + ids["hugeA"])
    return cases


def e2e2_run(bindir, paths, c, wd):
    import shutil
    shutil.rmtree(wd, ignore_errors=True)
    os.makedirs(wd)
    args = [paths[a] if a in paths else (os.path.join(wd, a[1:]) if a.startswith("@") else a) for a in c["args"]]
    rc, out, err, dt = vlib.sh([os.path.join(bindir, c["cmd"])] + args, timeout=120)
    if rc == 124:        # stalled host: once more before calling it a hang
        shutil.rmtree(wd, ignore_errors=True)
        os.makedirs(wd)
        rc, out, err, dt = vlib.sh([os.path.join(bindir, c["cmd"])] + args, timeout=240)
    got = ids_of(out)
    obs = dict(rc=rc, n_stdout=len(got), first_stdout=got[:10], files={})
    if rc == 124:
        return obs, "termination: the command did not finish within 120 s"
    if rc != 0:
        return obs, "exit code %d: %s" % (rc, err[-300:])
    def cmp(got, exp, what):
        if got == exp:
            return None
        if sorted(got) == sorted(exp):
            k = next(i for i, (a, b) in enumerate(zip(got, exp)) if a != b)
            return "%s: the %d records are delivered in another order (first difference at position %d: %s instead of %s)" % (what, len(exp), k, got[k], exp[k])
        return "%s: %d records delivered, %d expected (%d missing, %d unexpected or duplicated)" % (
            what, len(got), len(exp), len(set(exp) - set(got)), len(got) - len(set(got) & set(exp)))
    why = None
    if c["stdout"] is not None:
        why = cmp(got, c["stdout"], "stdout")
    if c["per_file"] is not None:      # --no-order: files may interleave, each keeps its own order, nothing lost
        for exp in c["per_file"]:
            mine = set(exp)
            why = why or cmp([i for i in got if i in mine], exp, "records of one input file")
        why = why or (None if len(got) == sum(len(e) for e in c["per_file"]) else "stdout: %d records for %d in the inputs" % (len(got), sum(len(e) for e in c["per_file"])))
    for fn, exp in c["files"].items():
        p = os.path.join(wd, fn)
        g = ids_of(open(p).read()) if os.path.exists(p) else None
        obs["files"][fn] = None if g is None else len(g)
        why = why or ("output file %s is missing" % fn if g is None else cmp(g, exp, fn))
    extra = sorted(set(os.listdir(wd)) - set(c["files"]))
    if extra and not why:
        why = "unexpected output files %s" % extra
    return obs, why


def e2e2(ctx, broken):
    bindir, err = ctx.build_cmds(["obiconvert", "obigrep", "obiannotate", "obidistribute", "obipairing"])
    if bindir is None:
        broken.append(dict(kind="command-build", detail=err))
        return
    base = os.path.join(vlib.BUILD, "c03_e2e2_" + hashlib.sha1(vlib.REPO.encode()).hexdigest()[:8])
    F, paths = e2e2_files(ctx, os.path.join(base, "in"))
    cases = e2e2_cases(ctx, F)
    from concurrent.futures import ThreadPoolExecutor
    with ThreadPoolExecutor(max_workers=3) as ex:
        res = list(ex.map(lambda kc: e2e2_run(bindir, paths, kc[1], os.path.join(base, "out%d" % kc[0])), enumerate(cases)))
    nbad = 0
    for k, (c, (obs, why)) in enumerate(zip(cases, res)):
        if why:
            nbad += 1
            if nbad <= 2:
                ctx.violation("e2e2_%d" % k, dict(property="C03", kind="e2e2", case=dict(cmd=c["cmd"], args=c["args"]), seed=ctx.seed, tier=ctx.tier,
                                                 implementation=obs, expected=why,
                                                 note="inputs are regenerated from the seed: replay re-runs the whole round-2 end-to-end grid"))
    ctx.cov["e2e2_command_runs"] = len(cases)
    ctx.cov["e2e2_grid"] = ("obiconvert / obigrep / obiannotate / obidistribute -c / obipairing / paired obiconvert and obigrep (--paired-with, _R1/_R2 files) on "
                            "inputs of 1.2-2.5 MiB (several 1 MiB reader chunks), several files incl. an empty one, --no-order, x --max-cpu x --batch-size")

# ----------------------------------------------------------------------------------------------- race detector (thorough)
def race_run(ctx, cases):
    """Thorough tier: the same cases through a -race build of the harness. Reports are summarised in the evidence
    (pairs of source lines); they never raise by themselves: the unchanged tree races on the debug counter
    obiiter.globalLockerCounter and on the receiver variable re-assigned by `iterator = iterator.SortBatches()` inside
    the goroutine of Rebatch/FilterEmpty while the caller reads iterator.IsPaired() — neither touches an observable."""
    b, err = ctx.build_harness(race=True)
    if b is None:
        ctx.cov["race"] = "race build failed: " + (err or "")[-300:]
        return
    inp = "".join(json.dumps(dict(wire(c), trace=False)) + "\n" for c in cases).encode()
    rc, out, err, dt = vlib.sh("%s c03" % b, inp=inp, timeout=1800, env=dict(os.environ, GORACE="exitcode=0 halt_on_error=0"))
    sig = {}
    for r in err.split("WARNING: DATA RACE")[1:]:
        locs = [l.split("/pkg/")[-1] for l in re.findall(r"^\s+(\S+\.go:\d+)", r, re.M) if "/pkg/" in l][:2]
        k = " <-> ".join(locs)
        sig[k] = sig.get(k, 0) + 1
    ctx.cov["race"] = dict(cases=len(cases), reports=sum(sig.values()), by_location=sig,
                           note="informative: no report concerns batch numbers, buffers or the close protocol")


# ----------------------------------------------------------------------------------------------- run
def evaluate(ctx, cases, broken, label, report=True):
    obs = ctx.vh_robust("c03", [wire(c) for c in cases], timeout=1800, one_timeout=40)
    # a case that missed its deadline on a machine that stalled the harness process (overloaded host, throttled cgroup) is run
    # again, alone in a fresh process with a longer deadline; a genuine hang (CopyTee before its fix, a missing Done) is
    # deterministic and fails again
    stalled = [i for i, (c, o) in enumerate(zip(cases, obs))
               if o.get("kind") == "ok" and not o.get("term") and not o.get("fatal") and not known_key(c, o) and oracle(c, o)]
    if 0 < len(stalled) <= 20:
        for i in stalled:
            o2 = ctx.vh_robust("c03", [dict(wire(cases[i]), dl=30000)], timeout=120, one_timeout=120)[0]
            if o2.get("kind") == "ok" and o2.get("term"):
                obs[i] = o2
                ctx.cov["cases_rerun_after_a_missed_deadline"] = ctx.cov.get("cases_rerun_after_a_missed_deadline", 0) + 1
    nviol, perop = 0, {}
    for i, (c, o) in enumerate(zip(cases, obs)):
        why = oracle(c, o)
        if why is None:
            continue
        key = known_key(c, o)
        if key and ctx.kf_match(key):
            ctx.known(key, KNOWN_KEYS[key])
            continue
        nviol += 1
        perop[c["op"]] = perop.get(c["op"], 0) + 1
        if report and perop[c["op"]] <= 1 and len(perop) <= 8:      # one (the first = smallest corpus) witness per combinator
            ctx.violation("%s_oracle_%d" % (label, i), dict(property="C03", kind="direct-oracle", case=c, implementation=o, expected=why))
    idx = [i for i, (c, o) in enumerate(zip(cases, obs)) if o["kind"] != "crash" and c["op"] in OPC]
    bad, err = ctx.correspond(label, IMPORTS, [case_term(cases[i], obs[i]) for i in idx], shard=150)
    if bad is None:
        broken.append(dict(kind="correspondence", detail=err))
        return obs, [], nviol
    # protocol traces: the events logged by the real iterators must be a complete run of a well-formed instance of the
    # process model (C03_protocol_* theorems), replayed by vm_compute
    tidx = [i for i in idx if obs[i].get("trace") and obs[i]["kind"] == "ok" and obs[i]["term"] and not obs[i].get("fatal")]
    tbad, terr = ctx.correspond(label + "_trace", IMPORTS, ["(%s,%s)" % (shape_of(cases[i]), trace_term(obs[i]["trace"])) for i in tidx], fn="trace_mismatches", shard=150)
    if tbad is None:
        broken.append(dict(kind="correspondence", detail=terr))
    else:
        ctx.cov["protocol_traces_replayed"] = ctx.cov.get("protocol_traces_replayed", 0) + len(tidx)
        ctx.cov["protocol_trace_events"] = ctx.cov.get("protocol_trace_events", 0) + sum(len(obs[i]["trace"]) for i in tidx)
        # a trace cut while a goroutine that no output waits for was still finishing (loaded machine): record again,
        # waiting longer for quiescence; only a trace that is rejected every time counts
        still = tbad
        for attempt in range(2):
            if not still:
                break
            o2 = ctx.vh_robust("c03", [dict(wire(cases[tidx[k]]), quiet=80 * (attempt + 1)) for k in still], timeout=900, one_timeout=60)
            good = [j for j, o in enumerate(o2) if o.get("kind") == "ok" and o.get("term") and o.get("trace") and not o.get("fatal")]
            b2, e2 = ctx.correspond(label + "_trace_retry", IMPORTS,
                                    ["(%s,%s)" % (shape_of(cases[tidx[still[j]]]), trace_term(o2[j]["trace"])) for j in good], fn="trace_mismatches", shard=150)
            if b2 is None:
                break
            bad2 = {good[i] for i in b2} | (set(range(len(still))) - set(good))
            ctx.cov["protocol_traces_rerecorded"] = ctx.cov.get("protocol_traces_rerecorded", 0) + len(still) - len(bad2)
            still = [still[j] for j in sorted(bad2)]
        tbad = still
        if tbad:
            i = tidx[tbad[0]]
            broken.append(dict(kind="correspondence", name="corr:C03/protocol-trace/%s" % cases[i]["op"], first_diverging_case=cases[i],
                               implementation=obs[i], n_diverging=len(tbad),
                               detail="the Add/Done/Wait/Push/Close/End events logged by the real iterators are not a complete run of a well-formed protocol instance"))
    return obs, [idx[i] for i in bad], nviol


def shape_of(c):
    """the row of the table combinator -> protocol instance (Model.v, inst_*) that the trace of this case must contain"""
    op, nw = c["op"], max(c.get("nw", 1), 1)
    if op in ("worker", "worker_sorted", "condworker", "condworker_sorted", "sliceworker", "filteron", "filterand", "filteron_p", "filterand_p",
              "pipeline", "fragments", "fragments_p"):
        return "ShStd %d" % nw
    if op == "pool":
        return "ShStd %d" % max(len(c["streams"]), 1)
    if op == "split":
        return "ShSplit %d" % nw
    if op == "divideon":
        return "ShDivide"
    if op == "copytee":
        return "ShTee"
    if op in ("distribute", "distribute_rebatch"):
        return "ShDist"
    return "ShStd 1"


def trace_term(tr):
    for e in tr:
        assert e[1] < 4096 and e[2] < 16 and 0 <= e[3] < 4096
    return "[" + ";".join(str(((e[0] * 4096 + e[1]) * 16 + e[2]) * 4096 + e[3]) for e in tr) + "]%N"


def run(ctx, broken):
    cases = gen_cases(ctx)
    obs, mism, nviol = evaluate(ctx, cases, broken, "main")
    ctx.cov["evaluations"] = len(cases)
    nontriv = {json.dumps(c, sort_keys=True) for c in cases
               if sum(len(h) for h in c["streams"]) >= 2 and (any(not b["ids"] for h in c["streams"] for b in h) or
                                                              any([b["o"] for b in h] != sorted(b["o"] for b in h) for h in c["streams"]))}
    ctx.cov["distinct_nontrivial"] = len(nontriv)
    ctx.cov["rule"] = ("a case = combinator + one arrival history per input stream + (size, workers, moduli); non-trivial = at least 2 batches and "
                       "(an empty batch or an arrival order different from the numbering); distinct = distinct JSON")
    dist = {}
    for c, o in zip(cases, obs):
        k = "%s/%s" % (c["op"], o["kind"] if o["kind"] != "ok" else ("ok" if o["term"] else "hang"))
        dist[k] = dist.get(k, 0) + 1
    ctx.cov["distribution"] = dist
    ctx.cov["workers"] = sorted({c["nw"] for c in cases})
    ctx.samples = [dict(case=c, implementation={k: v for k, v in o.items() if k != "trace"}) for c, o in list(zip(cases, obs))[30:33] + list(zip(cases, obs))[-2:]]
    ctx.cov["model_vs_impl_mismatches"] = len(mism)
    if mism and not ctx.violations:
        more = gen_cases(ctx, scale=8)
        evaluate(ctx, more, [], "search")
        if not ctx.violations:
            i = mism[0]
            broken.append(dict(kind="correspondence", name="corr:C03/%s" % cases[i]["op"], first_diverging_case=cases[i],
                               implementation=obs[i], n_diverging=len(mism)))
    elif mism:
        ctx.cov["note"] = "model and implementation diverge on %d cases (violations reported by the direct oracle)" % len(mism)
    stress(ctx, broken)
    e2e(ctx, broken)
    e2e2(ctx, broken)
    if not ctx.quick:
        race_run(ctx, cases[:6000])


def stress(ctx, broken):
    """Long streams of tiny batches through the parallel worker pool: every batch number 0..n-1 exactly once
    (a worker pool that loses / duplicates a batch only under a very narrow interleaving shows on long streams only)."""
    rounds = 40 if ctx.quick else 300
    cases = [dict(op="stress", streams=[], data=[0], size=20000, nw=nw, mod=rounds // 2, mod2=0, name="workers_%d" % nw, what="MakeIWorker with %d workers" % nw) for nw in (4, 8)]
    # round 2: the same long streams through the other combinators (cheap identity predicates / classifiers)
    r2 = max(rounds // 2, 1)
    for kind, name, nw in ((1, "filteron", 4), (6, "filterand", 3), (2, "divideon", 1), (3, "distribute", 1), (4, "rebatch", 1), (5, "sortbatches", 1), (7, "workers_rebatch", 4)):
        cases.append(dict(op="stress", streams=[], data=[kind], size=20000, nw=nw, mod=r2, mod2=0, name=name, what=name))
    for c in cases:
        c["yield"] = 0
    from concurrent.futures import ThreadPoolExecutor
    with ThreadPoolExecutor(max_workers=3) as ex:
        obs = list(ex.map(lambda c: ctx.vh_robust("c03", [{k: v for k, v in c.items() if k not in ("name", "what")}], timeout=900, one_timeout=900)[0], cases))
    tot, per = 0, {}
    for c, o in zip(cases, obs):
        n = o.get("rounds", 0) * c["size"]
        tot += n if c["data"][0] == 0 else 0
        per[c["name"]] = n
        if o.get("kind") != "stress" or o.get("bad_rounds", 0) > 0:
            ctx.violation("stress_" + c["name"], dict(property="C03", kind="direct-oracle", case=c, implementation=o,
                          expected="every one of the %d one-record batches delivered exactly once with the right number by %s, in each of the %d rounds" % (c["size"], c["what"], c["mod"]),
                          note="schedule dependent: replay runs the same stress again"))
    ctx.cov["stress_batches_through_worker_pool"] = tot
    ctx.cov["stress_batches_per_combinator"] = per


def replay(ctx, rp):
    c = rp["case"]
    if c.get("op") == "stress":
        print("replay:", json.dumps(c), "->", json.dumps(ctx.vh_robust("c03", [{k: v for k, v in c.items() if k not in ("name", "what")}], timeout=900, one_timeout=900)[0]))
        return
    if rp.get("kind") == "e2e2":
        ctx.seed, ctx.tier = rp.get("seed", ctx.seed), rp.get("tier", ctx.tier)
        import random
        ctx.rng = random.Random(ctx.seed * 1000003 + 3)
        gen_cases(ctx)          # consume the generator exactly as run() does before e2e2
        e2e_cases(ctx)
        n0 = len(ctx.violations)
        e2e2(ctx, [])
        print("replay: round-2 end-to-end grid ->", "holds" if len(ctx.violations) == n0 else ctx.violations[n0:])
        return
    if rp.get("kind") == "e2e":
        bindir, err = ctx.build_cmds([c["cmd"]])
        obs, why = e2e_run(ctx, bindir, rp["sets"], c, os.path.join(vlib.BUILD, "c03_e2e_replay"))
        print("replay:", c["cmd"], " ".join(c["args"]), "-> rc", obs["rc"], len(obs["ids"]), "ids | oracle:", why or "holds")
        return
    obs, mism, _ = evaluate(ctx, [c], [], "replay", report=False)
    print("replay:", json.dumps(c), "->", json.dumps(obs[0]), "| oracle:", oracle(c, obs[0]) or "holds", "|", "model-mismatch" if mism else "model-agrees")
