"""C17 — truncated or corrupt compressed input is reported, never silently accepted."""
import base64, bz2, gzip, hashlib, json, lzma, os, re, shutil, subprocess, tempfile, time, zlib
from concurrent.futures import ThreadPoolExecutor

PROPS = ["C17/Props.v"]
META = dict(
    text="Rocq theorems over an executable model of the read path (codec wrapper and first-rune test of xopen.Buf, xopen's end-of-stream guard for xz "
         "(tail tracker, footer and index check), io.ReadFull, the 1 MiB format sniffer, the loop of ReadSeqFileChunk for every buffer size B>=2 and every "
         "record splitter that cuts inside the buffer, the transcribed EndOfLastFastaEntry): a stream that ends with anything but a clean EOF makes the "
         "command fatal, a clean stream delivers all its bytes; an xz container which does not end with a valid index and stream footer is fatal whatever "
         "the xz library answers; ErrNoContent (empty input) only for an empty stream which ends cleanly. Round 2 adds a model of readers with a read "
         "schedule (source with per-call sizes and a final error delivered alone or together with the last bytes, bytes.Reader, io.MultiReader, "
         "bufio.Reader): io.ReadFull as a loop of Read calls refines the abstract one, OBIMimeTypeGuesser (detection on the whole zero padded buffer, "
         "MultiReader replay) loses and duplicates no byte and keeps the way the stream ends, for every stream, schedule and consumer. Round 3: the error "
         "reporters as Read wrappers (io.ErrUnexpectedEOF of the RAW input included: no excluded error value is left in the schedule-level theorems), "
         "the command never diverges, and commands given SEVERAL inputs (file arguments, directory, --paired-with): one damaged input anywhere in the list "
         "is fatal, clean inputs are delivered entirely and in order, status 0 only if every input ended cleanly; the decompressor is chosen by the "
         "complete magic number whatever the length of the input (the original chain gave up at the first magic longer than the file: refuted); "
         "ExpandListOfFiles reads no file twice, nothing but file arguments and accepted names below directory arguments, and all of those. Every run ties the "
         "model to the code: every truncation point (also of containers of an empty text), random and trailer single-bit flips, read errors injected "
         "after k bytes (a custom error, io.ErrUnexpectedEOF itself, an error wrapping io.EOF; alone or with n > 0, random read schedules) on small "
         "gzip/bzip2/xz/zstd FASTA/FASTQ files, hand-written xz containers (several blocks, empty block, check none / CRC32 / SHA-256, stored chunks, "
         "stream padding between streams and at the end, 64 KiB of padding, an index of 66 kB), two-member containers of 0.5-3 MiB "
         "whose first member ends at a MiB boundary -1/0/+1 of the decoded text cut inside the second member, go through the real "
         "Buf/OBIMimeTypeGuesser/ReadSeqFileChunk (one child process per case, production and small buffers), through ReadSequencesFromFile on an URL "
         "(local HTTP server, body shorter than its Content-Length, 404) and through the obiconvert binary; a "
         "command matrix runs obiconvert on FASTA/FASTQ/EMBL/GenBank/ecoPCR/CSV inputs x codec x format guessed or imposed x file argument / stdin / "
         "stdin failing with a genuine EIO after k bytes; a glue clause runs it with several files, a directory tree, symbolic links (dangling, chained), "
         "missing arguments, --paired-with (file, missing, directory, '|command'), --input-json-header / --input-OBI-header, --max-cpu 1, --no-order, a "
         "terminal on stderr (progress bar), an empty / cut standard input with an imposed format, containers cut just behind their magic number; the "
         "per-file decoded streams and the verdict of these commands are compared with the several-inputs model; ExpandListOfFiles is called on random argument lists / directory trees and "
         "compared with its model (and with the statements of its theorems), the pass-through of plain data with the magic-number model; a direct oracle built on reference "
         "decoders (Python gzip/bz2/lzma, zstd and xz CLI) demands `fatal` for every damaged container and `ok with exactly all records` for every "
         "intact one.",
    note="Assumed, checked on every case of every run but not proved: the codec contract (a damaged container never decodes to a clean EOF) for gzip, "
         "bzip2, zstd, and for xz containers which end with a valid index and footer (ulikunitz/xz ends many truncations with a clean EOF: xopen now "
         "demands the index and the stream footer at the end of the compressed bytes, proved to reject every other container; damage INSIDE a block "
         "which the library ends with a clean EOF while index and footer are intact is the recorded known finding xz-corrupt-block-clean-eof). The schedule-level model "
         "is tied to the abstract one by theorems, not evaluated per run (the real code is run under random schedules and compared with the abstract "
         "model). Format detection (mimetype library) and the record parsers (EMBL, GenBank, ecoPCR, CSV, FASTA/FASTQ records) are outside the model "
         "(detection is a per-case boolean; the command matrix compares only the verdict fatal / all records). The xz index larger than 64 KiB "
         "(thousands of blocks) is not checked by the guard (the footer is; such a file is in the corpus, direct oracle only, as is the 64 KiB padding: "
         "the model's window arithmetic is unary). Several inputs are modelled as read one after the other (verdict level; the interleaving of "
         "--no-order is C03's). "
         "Outside the property (not exercised, or exercised and not judged): a reader which answers (0, nil) for ever (not an error: bufio hands it over "
         "and io.ReadFull spins, as on any such reader); a file shorter than a magic number whose bytes are a proper prefix of it (0x1f alone, 'BZ', ...) "
         "is a tiny plain file: unknown format when guessed, whatever the parser makes of it when the format is imposed; a directory argument is searched "
         "for *.fasta/.fastq/.seq/.gb/.dat/.ecopcr[.gz] only, so .bz2/.xz/.zst files in it are skipped by name (a documented filter, not a read error); "
         "several inputs end a failure with status 2 and a Go panic trace (log.Panicf), one input with status 1: both are reports; a flipped bit "
         "which the reference decoder refuses while the Go decoder delivers the COMPLETE, UNCHANGED text (redundant bits of a zstd frame; counted in "
         "coverage.damage_outside_the_data_accepted) and a flipped bit in data no checksum covers (same length, other letters) are not failures. "
         "Anchored code not executed and why: xopen.go IsStdin / Ropen(\"-\") (no caller passes \"-\": ExpandListOfFiles rejects it), Exists and "
         "Reader.Close (no caller at all), Writer.Close / Flush / Wopen / WopenFile (output side: property C18), ExpandUser beyond its first test "
         "(a '~' path only reaches it through --paired-with and needs files in the account's home directory), the https branch (offline), "
         "Buf's ReadRune-error returns inside the zstd/xz/bzip2 'short file' branches and the NewReader error returns of zstd and bzip2 (unreachable: "
         "at least two bytes are buffered there; these constructors only fail on invalid options), OBIMimeTypeGuesser's `mimeType == nil` (Detect never "
         "answers nil) and the statements after log.Fatalf; ReadSeqFileChunk's copy-length check (dead: copy never copies less); fastseq_read.go/.c "
         "(ReadFastSeqFromFile / ReadFastSeqFromStdin: the kseq/gzread reader has had no caller since the stdin repair of round 1: dead code, and known "
         "to take every gzread failure for the end of the data); the taxonomy dump / ngsfilter / id-list / config readers (plain os.Open, no "
         "decompression: a compressed file is a syntax error for them).")
TRUSTED = [
    "codec contract: the decompressors (klauspost/compress gzip and zstd, dsnet/bzip2) never end a truncated/corrupt container with io.EOF; for xz "
    "(ulikunitz/xz) only for containers which end with a valid index and stream footer, the others are rejected by xopen's guard (theorem "
    "C17_xz_guard_rejects_incomplete) (validated on every case of the run by the probe route against the Python/zstd reference decoders, not proved)",
    "format detection (gabriel-vasile/mimetype + the FASTA/FASTQ regular expressions) is a Section variable / per-case boolean of the model",
    "bufio.Reader, io.MultiReader, bytes.Reader and io.ReadFull are modelled from their source (reader, read, readfull_s) and proved transparent "
    "(C17_readfull_schedule_independent, C17_sniffer_conserves_stream); Peek/ReadRune/UnreadRune of xopen.Buf are modelled as the first-byte test only",
    "CRC-32 of the xz footer/index is the bitwise IEEE polynomial (crc_bits), validated against hash/crc32 by the xz-guard correspondence on every run",
    "several inputs: the model reads them one after the other and stops at the first failure (ReadSequencesBatchFromFiles with one reader, --paired-with); "
    "validated on every run against the commands (multi_mismatches), goroutine scheduling of --no-order abstracted (verdict only)",
    "ExpandListOfFiles: directories enter the model as the list of regular files below them in filepath.Walk order (listed by the test generator); "
    "symbolic links are outside the model (direct oracle of the glue clause only)",
    "reference decoders of the direct oracle: Python gzip / bz2 / lzma modules, the zstd and xz command line tools; the hand-written xz containers "
    "(xz_build) are accepted by them before they are used",
]
ZSTD = "/root/miniconda/bin/zstd"
XZ = "/root/miniconda/bin/xz"
CODECS = ("gz", "bz2", "xz", "zst", "raw")


# ------------------------------------------------------------------ generators
def gen_fasta(rng, n, multiline=False):
    out = []
    for i in range(n):
        seq = "".join(rng.choice("acgt") for _ in range(rng.randrange(12, 70)))
        if multiline and len(seq) > 30:
            seq = seq[:30] + "\n" + seq[30:]
        out.append(">s%d {\"k\":%d}\n%s\n" % (i, i, seq))
    return "".join(out).encode()


def gen_fastq(rng, n):
    out = []
    for i in range(n):
        l = rng.randrange(12, 60)
        seq = "".join(rng.choice("acgt") for _ in range(l))
        qual = "".join(rng.choice("ABCDEFGHI") for _ in range(l))
        out.append("@q%d {\"k\":%d}\n%s\n+\n%s\n" % (i, i, seq, qual))
    return "".join(out).encode()


def records_of(data, fmt):
    """id:length; of every record of a complete text (what the harness prints for delivered records)."""
    s = data.decode("latin1")
    ids = []
    if fmt == "fasta":
        for rec in s.split(">")[1:]:
            lines = rec.split("\n")
            ids.append("%s:%d;" % (lines[0].split(" ")[0], sum(len(x) for x in lines[1:])))
    else:
        lines = s.split("\n")
        for k in range(0, len(lines) - 3, 4):
            ids.append("%s:%d;" % (lines[k][1:].split(" ")[0], len(lines[k + 1])))
    return ids


def compress(codec, data):
    if codec == "gz":
        return gzip.compress(data, mtime=0)
    if codec == "bz2":
        return bz2.compress(data)
    if codec == "xz":
        return lzma.compress(data)
    if codec == "zst":
        return subprocess.run([ZSTD, "-c", "-q"], input=data, capture_output=True, check=True).stdout
    return data


def xz_cli_decode(blob):
    p = subprocess.run([XZ, "-dc", "-q"], input=blob, capture_output=True, timeout=20)
    return p.stdout if p.returncode == 0 else None


def ref_decode(codec, blob, full=None):
    """Reference decoder: the complete decoded bytes, or None when the container is rejected.
    xz: lzma.decompress ignores whatever follows the first stream when it is not a valid stream (stream padding, a damaged second
    stream) and refuses short stream padding; when it accepts something else than the complete text `full`, or refuses bytes
    which end with zeros, the xz command line decoder decides."""
    try:
        if codec == "xz" and full is not None:
            try:
                d = lzma.decompress(blob)
            except Exception:
                d = None        # (a few zero bytes after a complete stream are "not enough data" for the module: valid stream padding)
            if os.path.exists(XZ) and ((d is None and blob.endswith(b"\0")) or (d is not None and d != full)):
                d = xz_cli_decode(blob)
            return d
        if codec == "gz":
            return gzip.decompress(blob)
        if codec == "bz2":
            return bz2.decompress(blob)
        if codec == "xz":
            return lzma.decompress(blob)
        if codec == "zst":
            p = subprocess.run([ZSTD, "-dc", "-q"], input=blob, capture_output=True, timeout=20)
            return p.stdout if p.returncode == 0 else None
    except Exception:
        return None
    return blob


def mutate(blob, cut, flip):
    b = bytearray(blob)
    if flip >= 0 and flip // 8 < len(b):
        b[flip // 8] ^= 1 << (flip % 8)
    if 0 <= cut < len(b):
        b = b[:cut]
    return bytes(b)


def _varint(n):
    out = bytearray()
    while n >= 0x80:
        out.append((n & 0x7f) | 0x80)
        n >>= 7
    out.append(n)
    return bytes(out)


def xz_build(blocks, check=1, padding=0, stored=False, dictbyte=8):
    """An xz stream written by hand, one block per element of `blocks` (the Python module writes single-block streams only):
    stream header | blocks (12-byte header: one LZMA2 filter, no optional size; LZMA2 data, really compressed or `stored` as
    uncompressed chunks; block padding; check none / CRC32 / SHA-256) | index | stream footer | `padding` zero bytes."""
    flags = bytes([0, check])
    out = bytearray(b"\xfd7zXZ\x00" + flags + zlib.crc32(flags).to_bytes(4, "little"))
    records = []
    for data in blocks:
        hdr = bytes([2, 0x00, 0x21, 0x01, dictbyte, 0, 0, 0])
        hdr += zlib.crc32(hdr).to_bytes(4, "little")
        if stored:
            comp = b""
            for k in range(0, len(data), 65536):
                ch = data[k:k + 65536]
                comp += bytes([1 if k == 0 else 2]) + (len(ch) - 1).to_bytes(2, "big") + ch
            comp += b"\0"
        else:
            comp = lzma.compress(data, format=lzma.FORMAT_RAW, filters=[dict(id=lzma.FILTER_LZMA2, dict_size=65536)])
        chk = {0: b"", 1: zlib.crc32(data).to_bytes(4, "little"), 10: hashlib.sha256(data).digest()}[check]
        out += hdr + comp + b"\0" * ((-len(comp)) % 4) + chk
        records.append((len(hdr) + len(comp) + len(chk), len(data)))
    idx = b"\0" + _varint(len(records)) + b"".join(_varint(u) + _varint(n) for u, n in records)
    idx += b"\0" * ((-len(idx)) % 4)
    idx += zlib.crc32(idx).to_bytes(4, "little")
    out += idx
    fl = (len(idx) // 4 - 1).to_bytes(4, "little") + flags
    out += zlib.crc32(fl).to_bytes(4, "little") + fl + b"YZ" + b"\0" * padding
    return bytes(out)


MAGIC = dict(gz=b"\x1f\x8b", zst=b"\x28\xb5\x2f\xfd", xz=b"\xfd7zXZ\x00", bz2=b"BZh")


def sniffed_codec(blob):
    """The codec the magic bytes announce: the complete magic of one of the four formats at the beginning of the file (a file which
    is shorter than a magic does not carry it). Round 3: no longer xopen.Buf's own rule, which gave up at the first magic longer
    than the file, so that a bzip2 file cut to 3-5 bytes ("BZh9") was plain data because the xz magic has 6 bytes."""
    for codec in ("gz", "zst", "xz", "bz2"):
        if blob.startswith(MAGIC[codec]):
            return codec
    return "raw"


def recognised(data):
    return bool(re.match(rb"^>[^ ]", data) or re.match(rb"^@[^ ].*\n[^ ]+\n\+", data))


NOCHECK_NAME = re.compile(r"^(zstnocheck|zstframes|xznocheck|xzcheck_none|xznone)")        # container variants written without a checksum


class Base:
    def __init__(self, ctx, tmp, name, codec, fmt, data, blob=None, ids=None, m1=None, big=None, cuts=None, noflip=False):
        self.name, self.codec, self.fmt, self.data = name, codec, fmt, data
        self.blob = compress(codec, data) if blob is None else blob
        self.path = os.path.join(tmp, "%s.%s.%s" % (name, fmt, codec))
        with open(self.path, "wb") as f:
            f.write(self.blob)
        self.ids = records_of(data, fmt) if ids is None else ids
        self.big = len(data) > 100000 if big is None else big      # no Gallina term for these (judged by the direct oracle only)
        self.m1 = m1                        # multi-member container: length of the first member
        self.cuts = cuts                    # explicit truncation points (instead of all / a sample)
        self.noflip = noflip                # no single-bit flips (container too long for one Gallina literal per flip)


def compress_members(codec, parts):
    """Concatenated members / frames / streams: every one of the four decoders reads them as one stream."""
    return b"".join(compress(codec, p) for p in parts)


def expectation(base, case):
    """Direct oracle: ('ok', ids) | ('fatal',) | ('empty',) | None (unconstrained).
    Damaged container (reference decoder rejects it or gives other bytes) or injected fault => fatal;
    intact => ok with exactly all records; zero bytes of input => empty input, ok with no record."""
    blob = mutate(base.blob, case["cut"], case["flip"])
    if case["fault_at"] >= 0:
        return ("fatal",)
    if len(blob) == 0:
        return ("empty",)
    if blob == base.blob:
        return ("ok", base.ids)
    codec = sniffed_codec(blob)
    if codec != base.codec or codec == "raw":
        # the damage hit the magic bytes (or the file is plain text): the input is now another, uncompressed, file;
        # what it must give is a matter of the format parsers (C18), except that the complete original is never expected.
        if base.codec != "raw":
            return ("not-ok-all", base.ids)
        return None
    dec = ref_decode(codec, blob, base.data)
    if dec is None:
        return ("fatal",)
    if dec.startswith(b"\xef\xbb\xbf") and not base.data.startswith(b"\xef\xbb\xbf"):
        dec = dec[3:]                     # variant "bom": the container holds a byte order mark in front of the text the readers get
    if dec == base.data:
        # a damaged container which still holds the complete text (flipped bit in a header field, in padding): reporting the damage (Go's gzip
        # verifies the header CRC, Python's does not) and delivering everything are both right
        return ("ok-or-fatal", base.ids)
    if case["flip"] >= 0 and case["cut"] < 0 and NOCHECK_NAME.match(base.name or ""):
        # one flipped bit in a container which carries NO checksum, still accepted by the reference decoder: the damage is
        # undetectable in principle, and decoders legitimately differ on such frames (the zstd tool and klauspost/compress give texts
        # of different lengths for the same damaged frame): the property demands nothing
        return None
    if len(dec) == len(base.data):
        # a valid container of ANOTHER text of the same length: a flipped bit in data no checksum covers (zstd frame without checksum, xz
        # block without check): nobody can tell, the records have the same names and lengths, the property demands nothing
        return None
    return ("not-ok-all", base.ids)       # decodes, to something else (cut at a member boundary; checksums make anything else practically impossible)


def same_records(ids, expected):
    """Same records, as a multiset: the order of the batches is another property's business."""
    return sorted(x for x in ids.split(";") if x) == sorted(x.rstrip(";") for x in expected)


def judge(exp, o):
    """True when observation o satisfies expectation exp."""
    if exp is None:
        return True
    if exp[0] == "not-ok-all" and o["kind"] == "panic":
        return True                       # a valid container of ANOTHER text (cut at a member boundary, ...): what the parsers do with it is not this property's
    if o["kind"] not in ("ok", "fatal"):
        return False                      # timeout / panic / crash: neither a report nor a success
    if exp[0] == "fatal":
        return o["kind"] == "fatal"
    if exp[0] == "empty":
        return o["kind"] == "ok" and o.get("nrec", 0) == 0
    if exp[0] == "ok":
        return o["kind"] == "ok" and same_records(o.get("ids", ""), exp[1])
    if exp[0] == "ok-or-fatal":
        return o["kind"] == "fatal" or same_records(o.get("ids", ""), exp[1])
    if exp[0] == "not-ok-all":
        return not (o["kind"] == "ok" and same_records(o.get("ids", ""), exp[1]))
    return False


# ------------------------------------------------------------------ binary route
def run_binary(bindir, blob, fmt, stdin, tmp, k, flags=(), eio=False, timeout=60):
    o = run_binary_once(bindir, blob, fmt, stdin, tmp, k, flags, eio, timeout)
    if o["kind"] == "timeout" or (eio and o["kind"] != "fatal"):
        # loaded machine: once more before the case is declared hung; failing standard input: once more before the verdict counts (seen once
        # in round 3: another thread's allocation landed in the unmapped page, the command read zeros instead of failing with EIO)
        o = run_binary_once(bindir, blob, fmt, stdin, tmp, k, flags, eio, timeout)
    return o


_libc = None


def failing_stdin(data):
    """A file descriptor whose reads deliver `data` and then fail with EIO: /proc/self/mem positioned on a copy of the data
    which ends flush with an unmapped page (a genuine read error of the kernel on the real standard input of the command)."""
    import ctypes
    global _libc
    if _libc is None:
        _libc = ctypes.CDLL(None, use_errno=True)
        _libc.mmap.restype = ctypes.c_void_p
        _libc.mmap.argtypes = [ctypes.c_void_p, ctypes.c_size_t, ctypes.c_int, ctypes.c_int, ctypes.c_int, ctypes.c_long]
        _libc.munmap.argtypes = [ctypes.c_void_p, ctypes.c_size_t]
    page = 4096
    n = (len(data) + page - 1) // page + 1
    # n pages of data | one page which is unmapped again | one page kept: the hole is one page wide, so that no allocation of another
    # thread of this process (arenas, thread stacks, the mappings of concurrent calls: all larger) can be placed in it
    addr = _libc.mmap(None, (n + 2) * page, 3, 0x22, -1, 0)          # PROT_READ|PROT_WRITE, MAP_PRIVATE|MAP_ANONYMOUS
    if addr in (None, ctypes.c_void_p(-1).value):
        raise OSError("mmap failed")
    _libc.munmap(addr + n * page, page)
    start = addr + n * page - len(data)
    ctypes.memmove(start, data, len(data))
    fd = os.open("/proc/self/mem", os.O_RDONLY)
    os.lseek(fd, start, os.SEEK_SET)
    return fd, (addr, n * page, addr + (n + 1) * page)


def run_binary_once(bindir, blob, fmt, stdin, tmp, k, flags=(), eio=False, timeout=60):
    path = os.path.join(tmp, "b%d.dat" % k)
    argv = [os.path.join(bindir, "obiconvert")] + list(flags)
    try:
        if eio:
            fd, (addr, size, tail) = failing_stdin(blob)
            try:
                p = subprocess.run(argv, stdin=fd, capture_output=True, timeout=timeout)
            finally:
                os.close(fd)
                _libc.munmap(addr, size)
                _libc.munmap(tail, 4096)
        else:
            with open(path, "wb") as f:
                f.write(blob)
            try:
                if stdin:
                    with open(path, "rb") as f:
                        p = subprocess.run(argv, stdin=f, capture_output=True, timeout=timeout)
                else:
                    p = subprocess.run(argv + [path], capture_output=True, timeout=timeout)
            finally:
                os.unlink(path)
    except subprocess.TimeoutExpired:
        return dict(kind="timeout", nrec=0)
    out = p.stdout
    ids = []
    if out.startswith(b">"):
        ids = records_of(out, "fasta")
    elif out.startswith(b"@"):
        # fastq output: 4 lines per record
        ids = records_of(out, "fastq")
    if p.returncode == 0:
        return dict(kind="ok", nrec=len(ids), ids="".join(ids))
    if p.returncode == 1 or (p.returncode == 2 and b"level=panic" in p.stderr and b"runtime error" not in p.stderr):
        # status 2 with a logrus panic entry: log.Panicf(read error) of the ecoPCR reader, a report all the same
        return dict(kind="fatal", nrec=len(ids), err=p.stderr.decode("utf8", "replace")[-160:])
    return dict(kind="panic", nrec=len(ids), err="exit status %s: %s" % (p.returncode, p.stderr.decode("utf8", "replace")[-300:]))


# ------------------------------------------------------------------ every other way a command opens an input (route cmd)
def _seq(rng, n):
    return "".join(rng.choices("acgt", k=n))


def gen_format(rng, fmt, n):
    """(text, ['id:length;', ...]) of n records in the given format."""
    if fmt == "fasta":
        t = gen_fasta(rng, n)
        return t, records_of(t, "fasta")
    if fmt == "fastq":
        t = gen_fastq(rng, n)
        return t, records_of(t, "fastq")
    out, ids = [], []
    if fmt == "ecopcr":
        out.append("#@ecopcr-v2\n#\n# ecoPCR version 1.0\n# direct  strand oligo1 : GGGCAATCCTGAGCCAA               ; oligo2c :               GGATAGGTGCAGAGACTCAATGG\n"
                   "# reverse strand oligo2 : CCATTGAGTCTCTGCACCTATCC         ; oligo1c :         TTGGCTCAGGATTGCCC\n# max error count by oligonucleotide : 3\n"
                   "# optimal Tm : 50.00\n# database : x\n# output in superkingdom mode\n#\n")
    if fmt == "csv":
        out.append("id,count,sequence\n")
    for i in range(n):
        s = _seq(rng, 120)
        if fmt == "embl":
            out.append("ID   E%d; SV 1; linear; genomic DNA; STD; PLN; 120 BP.\nXX\nAC   E%d;\nXX\nDE   test %d\nXX\nOS   Homo sapiens\nOC   Eukaryota.\nXX\n"
                       "FH   Key             Location/Qualifiers\nFT   source          1..120\nFT                   /db_xref=\"taxon:9606\"\nXX\n"
                       "SQ   Sequence 120 BP;\n     %s %s       60\n     %s %s      120\n//\n" % (i, i, i, s[:30], s[30:60], s[60:90], s[90:]))
            ids.append("E%d:120;" % i)
        elif fmt == "genbank":
            out.append("LOCUS       G%d                 120 bp    DNA     linear   PLN 01-JAN-2000\nDEFINITION  test %d.\nACCESSION   G%d\nVERSION     G%d.1\n"
                       "SOURCE      Homo sapiens\n  ORGANISM  Homo sapiens\n            Eukaryota.\nFEATURES             Location/Qualifiers\n"
                       "     source          1..120\n                     /db_xref=\"taxon:9606\"\nORIGIN      \n        1 %s\n       61 %s\n//\n"
                       % (i, i, i, i, " ".join(s[k:k + 10] for k in range(0, 60, 10)), " ".join(s[k:k + 10] for k in range(60, 120, 10))))
            ids.append("G%d:120;" % i)
        elif fmt == "ecopcr":
            out.append(" | ".join(["AC%06d" % i, "1000", "9606", "species", "9606", "Homo sapiens", "9605", "Homo", "9604", "Hominidae", "2759", "Eukaryota", "D",
                                   "GGGCAATCCTGAGCCAA", "0", "55.0", "CCATTGAGTCTCTGCACCTATCC", "0", "56.0", "60", s[:60], "test %d" % i]) + "\n")
            ids.append("AC%06d:60;" % i)
        elif fmt == "csv":
            out.append("c%d,%d,%s\n" % (i, i + 1, s[:40]))
            ids.append("c%d:40;" % i)
    return "".join(out).encode(), ids


CMD_FORMATS = ("fasta", "fastq", "embl", "genbank", "ecopcr", "csv")
CMD_FLAG = dict(fasta="--fasta", fastq="--fastq", embl="--embl", genbank="--genbank", ecopcr="--ecopcr")      # no flag for CSV: guessed only


def cmd_matrix(ctx, broken, tmp, bindir, state, dist, extended=False):
    """obiconvert on intact / cut / corrupt inputs of every format it reads, with the format guessed or given, as a file argument
    or on the standard input (redirected file, and a standard input whose read fails with EIO after k bytes). Direct oracle:
    damaged => reported (non-zero status in time), intact => status 0 with exactly all records; model: verdict of command_gen."""
    rng = ctx.rng
    quick = ctx.quick and not extended
    cb, cf = [], []          # bases, (base index, cut, flip, -1, tag, variant)
    for fmt in CMD_FORMATS:
        text, ids = gen_format(rng, fmt, 6)
        codecs = ("gz", rng.choice(("bz2", "xz", "zst")), "raw") if quick else ("gz", "bz2", "xz", "zst", "raw")
        for codec in codecs:
            cb.append(Base(ctx, tmp, "cmd", codec, fmt, text, ids=ids))
    # more than 1 MiB of text: the fault is met by the parser, after the sniffer
    for fmt in (("embl", "csv") if quick else ("embl", "genbank", "csv", "ecopcr")):
        text, ids = gen_format(rng, fmt, 9000 if fmt == "embl" else 8000 if fmt == "genbank" else 22000 if fmt == "csv" else 5000)
        for codec in (("gz",) if quick else ("gz", "zst", "xz", "bz2")):
            cb.append(Base(ctx, tmp, "cmdbig", codec, fmt, text, ids=ids))
    for bi, b in enumerate(cb):
        n = len(b.blob)
        variants = [(g, st) for g in (("guess", "explicit") if b.fmt in CMD_FLAG else ("guess",)) for st in ("file", "stdin")]
        if b.big:
            variants = [v for v in variants if v[1] == "file" or not quick]
        fl = [(-1, -1, "intact")]
        if b.codec != "raw":
            if b.big:
                fl += [(n - n // 10, -1, "cut"), (n - 1, -1, "cut")]
            else:
                fl += [(HDRLEN[b.codec], -1, "cut"), (n // 2, -1, "cut"), (n - 1, -1, "cut"), (-1, 8 * (n - 1 - rng.randrange(0, 4)) + rng.randrange(0, 8), "tflip")]
                if not quick:
                    fl += [(c, -1, "cut") for c in rng.sample(range(1, n), 6)] + [(-1, rng.randrange(0, 8 * n), "flip") for _ in range(4)]
        for cut, flip, tag in fl:
            for v in variants:
                cf.append((bi, cut, flip, -1, tag, v))
        # a genuine read error (EIO) of the standard input after k bytes of the (plain or compressed) input
        ks = [0, 1, n // 2, n - 1, n] if not b.big else [n // 2, n]
        for k in (ks if not quick else rng.sample(ks, 2)):
            for g in (("guess", "explicit") if b.fmt in CMD_FLAG else ("guess",)):
                if quick and rng.random() < 0.5:
                    continue
                cf.append((bi, k, -1, -1, "eio", (g, "eio")))
    nofault = dict(step=0, eager=False)
    exps = []
    for (bi, cut, flip, _, tag, v) in cf:
        exps.append(("fatal",) if tag == "eio" else expectation(cb[bi], dict(cut=cut, flip=flip, fault_at=-1)))
    # the decoded stream of every case (probe route), for the model
    pfaults = [(bi, cut, flip, -1, tag, nofault) if tag != "eio" else (bi, -1, -1, cut, tag, nofault) for (bi, cut, flip, _, tag, v) in cf]
    uniqp = sorted(set((f[0], f[1], f[2], f[3]) for f in pfaults))
    pobs = ctx.vh_robust("c17", vh_cases(ctx, cb, [(a, b_, c, d, "p", nofault) for (a, b_, c, d) in uniqp], "probe"), timeout=900, one_timeout=120)
    pmap = dict(zip(uniqp, pobs))

    def one(j):
        k, (bi, cut, flip, _, tag, v) = j
        b = cb[bi]
        flags = [CMD_FLAG[b.fmt]] if v[0] == "explicit" else []
        if tag == "eio":
            return run_binary(bindir, b.blob[:cut], b.fmt, True, tmp, 100000 + k, flags, eio=True, timeout=30)
        return run_binary(bindir, mutate(b.blob, cut, flip), b.fmt, v[1] == "stdin", tmp, 100000 + k, flags, timeout=30)
    with ThreadPoolExecutor(max_workers=12) as ex:
        res = list(ex.map(one, list(enumerate(cf))))
    terms, tix = [], []
    for k, (f, e, o) in enumerate(zip(cf, exps, res)):
        bi, cut, flip, _, tag, v = f
        b = cb[bi]
        key = "cmd:%s-%s/%s/%s/%s" % (v[0], v[1], b.fmt, tag, o["kind"])
        dist[key] = dist.get(key, 0) + 1
        if not judge(e, o):
            if (b.codec == "xz" and flip >= 0 and cut < 0 and tag != "eio" and e == ("fatal",) and o.get("kind") == "ok"
                    and xz_ends_complete(mutate(b.blob, -1, flip)) and ctx.kf_match(KNOWN_XZ_BH)):
                # the recorded known finding, met through the command: damage inside an xz block, index and footer intact
                ctx.known(KNOWN_XZ_BH, KNOWN_LINES[KNOWN_XZ_BH])
                state["known"] = state.get("known", 0) + 1
                continue
            kk = state.setdefault("nviol", {})
            kk["cmd"] = kk.get("cmd", 0) + 1
            pf = state.setdefault("cmd_per_format", {})
            pf[(b.fmt, tag)] = pf.get((b.fmt, tag), 0) + 1
            if pf[(b.fmt, tag)] <= 1 and kk["cmd"] <= 40:
                ctx.violation("cmd_%s_%s_%s_%s" % (b.fmt, tag, v[0], v[1]), dict(
                    property="C17", kind="direct-oracle", route="cmd", variant=list(v), flags=[CMD_FLAG[b.fmt]] if v[0] == "explicit" else [],
                    case=dict(describe(b, (bi, cut, flip, -1, tag, nofault)), ids=b.ids), implementation=o, expected=list(e) if e else None,
                    note="obiconvert %s %s" % (CMD_FLAG.get(b.fmt, "") if v[0] == "explicit" else "(format guessed)",
                                                dict(file="<file>", stdin="< file", eio="< stream whose read fails with EIO after `cut` bytes")[v[1]])))
        if not b.big:
            pr = pmap[(bi, cut, flip, -1) if tag != "eio" else (bi, -1, -1, cut)]
            if o["kind"] == "fatal":
                ob = "OFatal"
            elif o["kind"] != "ok":
                ob = "ODiverges"
            else:
                ob = "OOkAll" if decoded_of(pr) == b.data and same_records(o.get("ids", ""), b.ids) else "OOkPartial"
            clean = pr.get("open") == "nocontent" or (pr.get("open") == "ok" and pr.get("fin") == "eof")
            if v[0] == "explicit" and clean and decoded_of(pr) != b.data:
                continue          # plain bytes which are not the text, format imposed: the verdict is the parser's (outside the model)
            # detection: the complete text is of the format of its container by construction; anything else which ends cleanly
            # (a short file with damaged magic bytes read as plain data) is not a sequence file
            term = case_term(pr, 1048576 if v[0] == "guess" else None, 1048576, decoded_of(pr) == b.data, ob, 1000 + bi, b.data)
            if term is not None:
                terms.append(term)
                tix.append(k)
    ctx.cov["cmd_runs"] = len(res)
    ctx.cov["cmd_containers"] = len(cb)
    ctx.cov["evaluations_cmd"] = len(res) + len(pobs)
    mism = []
    uniq = {}
    for u, t in enumerate(terms):
        uniq.setdefault(t, []).append(u)
    uterms = list(uniq)
    defs = ["Definition T%d : list N := [%s]." % (1000 + k, ";".join(str(x) for x in b.data)) for k, b in enumerate(cb) if not b.big]
    label = "cmd%d" % os.getpid()
    try:
        bad, err = ctx.correspond(label, IMPORTS + "\nDefinition pre (n : N) (l : list N) : list N := fst (fst (take n l)).\n" + "\n".join(defs), uterms, shard=150)
    finally:
        cleanup_coq(ctx, label)
    if bad is None:
        broken.append(dict(kind="correspondence", detail=err))
    else:
        for u in bad:
            for t in uniq[uterms[u]]:
                k = tix[t]
                bi, cut, flip, _, tag, v = cf[k]
                mism.append(dict(route="cmd", variant=list(v), case=dict(describe(cb[bi], (bi, cut, flip, -1, tag, nofault)), container_b64=None, text_b64=None),
                                 implementation=res[k], model_term=uterms[u][:600]))
    return mism


# ------------------------------------------------------------------ several input files (the batch-of-files reader)
def multi_file_clause(ctx, tmp, bindir, state, dist):
    """obiconvert on SEVERAL file arguments (and on a directory), one of them damaged: the command goes through
    ReadSequencesBatchFromFiles, whose per-file open / read errors must be as fatal as those of a single input.
    Direct oracle: damaged file among the inputs => non-zero status in time; all intact => status 0 with every record."""
    rng = ctx.rng
    quick = ctx.quick
    jobs = []
    d = os.path.join(tmp, "multi")
    shutil.rmtree(d, ignore_errors=True)          # (the extended pass runs the clause a second time in the same directory)
    os.makedirs(d, exist_ok=True)
    k = 0
    for fmt, gen in (("fasta", gen_fasta), ("fastq", gen_fastq)):
        for codec in ("gz", "bz2", "xz", "zst"):
            parts = [gen(rng, 15) for _ in range(3)]
            # ids are s0.. / q0.. in every part: count records only
            blobs = [compress(codec, x) for x in parts]
            n = len(blobs[1])
            faults = [("intact", None), ("cut-half", blobs[1][:n // 2]), ("cut-last", blobs[1][:n - 1]), ("cut-header", blobs[1][:max(1, HDRLEN[codec] - 4)])]
            if not quick:
                faults += [("cut-%d" % c, blobs[1][:c]) for c in rng.sample(range(1, n), 4)]
            for tag, bad in faults:
                for flags in ([], [CMD_FLAG[fmt]], ["--no-order"]) if (not quick or tag in ("intact", "cut-half")) else ([],):
                    sub = os.path.join(d, "m%d" % k)
                    os.makedirs(sub)
                    names = []
                    for i, b in enumerate(blobs):
                        fn = os.path.join(sub, "in%d.%s.%s" % (i, fmt, codec))
                        with open(fn, "wb") as f:
                            f.write(bad if (i == 1 and bad is not None) else b)
                        names.append(fn)
                    jobs.append(dict(k=k, fmt=fmt, codec=codec, tag=tag, flags=flags, args=names, nrec=45, how="files", files=list(zip(names, parts))))
                    k += 1
                    if tag in ("intact", "cut-half") and not flags and codec == "gz":      # a directory is searched for *.gz only
                        jobs.append(dict(k=k, fmt=fmt, codec=codec, tag=tag, flags=flags, args=[sub], nrec=45, how="directory", files=list(zip(names, parts))))
                        k += 1

    def one(j):
        argv = [os.path.join(bindir, "obiconvert")] + j["flags"] + j["args"]
        for attempt in range(2):
            try:
                p = subprocess.run(argv, capture_output=True, timeout=60)
            except subprocess.TimeoutExpired:
                if attempt:
                    return dict(kind="timeout", nrec=0)
                continue
            nrec = p.stdout.count(b"\n>") + p.stdout.startswith(b">") if j["fmt"] == "fasta" else len([l for l in p.stdout.split(b"\n")[0::4] if l.startswith(b"@")])
            return dict(kind="ok" if p.returncode == 0 else "reported", status=p.returncode, nrec=nrec, err=p.stderr.decode("utf8", "replace")[-300:])
    with ThreadPoolExecutor(max_workers=8) as ex:
        res = list(ex.map(one, jobs))
    nbad = 0
    for j, o in zip(jobs, res):
        key = "multi:%s/%s/%s/%s" % (j["how"], j["fmt"], j["tag"], o["kind"])
        dist[key] = dist.get(key, 0) + 1
        if j["tag"] == "intact":
            good = o["kind"] == "ok" and o["nrec"] == j["nrec"]
            want = "status 0 and all %d records" % j["nrec"]
        else:
            good = o["kind"] == "reported"
            want = "a non-zero exit status: one of the input files is cut short"
        if not good:
            nbad += 1
            if nbad <= 3:
                ctx.violation("multi_%s_%s_%s_%s" % (j["how"], j["fmt"], j["codec"], j["tag"]), dict(
                    property="C17", kind="direct-oracle", route="multi-file",
                    case=dict(format=j["fmt"], codec=j["codec"], fault=j["tag"], flags=j["flags"], how=j["how"],
                              note="three compressed inputs of 15 records each; the SECOND one carries the fault; `obiconvert %s in0 in1 in2` (or the directory holding them)" % " ".join(j["flags"])),
                    implementation={x: o[x] for x in o if x != "err"}, stderr_tail=o.get("err", "")[-200:], expected=want))
    ctx.cov["multi_file_runs"] = len(jobs)
    return [dict(tag="multi:%s/%s/%s/%s/%s" % (j["how"], j["fmt"], j["codec"], j["tag"], "+".join(j["flags"])), files=j["files"], fmt=j["fmt"],
                 guess=not (set(j["flags"]) & set(CMD_FLAG.values())), nrec=j["nrec"] if j["tag"] == "intact" else None, obs=o) for j, o in zip(jobs, res)]


def sel_correspond(ctx, broken, bases, faults, probe):
    """Which decompressor xopen.Buf chooses, against the model (select check_fixed): observable = the bytes came out of Buf as they went in
    (plain data; a byte order mark dropped) or not (a decompressor was put in between, or could not be set up)."""
    seen, terms, where = set(), [], []
    for i, (f, o) in enumerate(zip(faults, probe)):
        b = bases[f[0]]
        if b.big or f[3] >= 0 or o.get("kind") != "ok":
            continue
        raw = mutate(b.blob, f[1], f[2])
        if o.get("open") == "ok":
            d = decoded_of(o)
            plain = d == raw or (raw.startswith(b"\xef\xbb\xbf") and d == raw[3:])
        elif o.get("open") == "nocontent":
            plain = len(raw) == 0 or raw == b"\xef\xbb\xbf"
        else:
            plain = False
        key = (raw[:8], plain)
        if key in seen:
            continue
        seen.add(key)
        terms.append("mks [%s] %s" % (";".join(str(x) for x in raw[:8]), "true" if plain else "false"))
        where.append(i)
    label = "sel%d" % os.getpid()
    try:
        bad, err = ctx.correspond(label, IMPORTS, terms, fn="sel_mismatches", shard=2000)
    finally:
        cleanup_coq(ctx, label)
    ctx.cov["codec_selection_model_terms"] = len(terms)
    if bad is None:
        broken.append(dict(kind="correspondence", detail=err))
        return []
    return [dict(route="codec-selection", case=describe(bases[faults[where[u]][0]], faults[where[u]]), implementation=dict(probe[where[u]], data=None),
                 model_term=terms[u]) for u in bad]


def multi_correspond(ctx, broken, mjobs):
    """Commands given several inputs against the model (multi_mismatches): every input is decoded by the probe route (what xopen.Buf hands
    over: bytes, way it ends); the model reads the inputs in order, the first one which is not status 0 decides; observable = fatal /
    status 0 with all records / status 0 with other records."""
    mjobs = [j for j in mjobs if j["files"]]
    if ctx.quick and len(mjobs) > 90:
        keep = set(ctx.rng.sample(range(len(mjobs)), 90))           # about 0.1 s of vm_compute per job
        mjobs = [j for k, j in enumerate(mjobs) if k in keep]
    paths = sorted({fn for j in mjobs for fn, _ in j["files"]})
    pobs = ctx.vh_robust("c17", [dict(mode="probe", path=fn, cut=-1, flip=-1, fault_at=-1, b=0, step=0, eager=False, nodata=False) for fn in paths], timeout=600, one_timeout=60)
    pmap = dict(zip(paths, pobs))
    texts = {}
    terms, tix = [], []
    for k, j in enumerate(mjobs):
        if not j["files"] or any(pmap[fn].get("kind") != "ok" for fn, _ in j["files"]):
            continue
        o = j["obs"]
        if o["kind"] == "reported":
            ob = "OFatal"
        elif o["kind"] != "ok":
            ob = "ODiverges"
        else:
            ob = "OOkAll" if (j["nrec"] is not None and o["nrec"] == j["nrec"]) else "OOkPartial"
        cs = []
        if not j["guess"] and any((pmap[fn].get("open") == "nocontent" or (pmap[fn].get("open") == "ok" and pmap[fn].get("fin") == "eof")) and decoded_of(pmap[fn]) != t
                                  for fn, t in j["files"]):
            continue          # bytes which end cleanly and are not the text, format imposed: the verdict is the parser's (outside the model)
        for fn, t in j["files"]:
            ti = texts.setdefault(t, 5000 + len(texts))
            pr = pmap[fn]
            cs.append(case_term(pr, 1048576 if j["guess"] else None, 1048576, recognised(decoded_of(pr)), "OFatal", ti, t))
        if all(cs):
            terms.append("mkm [%s] %s" % ("; ".join(cs), ob))
            tix.append(k)
    label = "multi%d" % os.getpid()
    G = 25          # consecutive jobs share their texts: one Coq file per group, with the texts of the group only

    def group(g):
        part = terms[g:g + G]
        used = set(re.findall(r"T(\d+)\)", " ".join(part)))
        defs = ["Definition pre (n : N) (l : list N) : list N := fst (fst (take n l))."]
        defs += ["Definition T%d : list N := [%s]." % (ti, ";".join(str(x) for x in t)) for t, ti in texts.items() if str(ti) in used]
        b, e = ctx.correspond("%s_%d" % (label, g), IMPORTS + "\n" + "\n".join(defs), part, fn="multi_mismatches", shard=G)
        return (None, e) if b is None else ([g + i for i in b], None)
    try:
        with ThreadPoolExecutor(max_workers=8) as ex:
            parts = list(ex.map(group, range(0, len(terms), G)))
    finally:
        cleanup_coq(ctx, label)
    ctx.cov["multi_model_terms"] = len(terms)
    errs = [e for b, e in parts if b is None]
    if errs:
        broken.append(dict(kind="correspondence", detail=errs[0]))
        return []
    bad = [i for b, _ in parts for i in b]
    return [dict(route="multi", case=dict(what=mjobs[tix[u]]["tag"], inputs=[os.path.basename(fn) for fn, _ in mjobs[tix[u]]["files"]],
                                          probes=[dict(pmap[fn], data=None) for fn, _ in mjobs[tix[u]]["files"]]),
                 implementation={x: y for x, y in mjobs[tix[u]]["obs"].items() if x != "err"}, model_term=terms[u][:1500]) for u in bad]



# ------------------------------------------------------------------ the other ways obiconvert finds and opens its inputs (round 3)
def count_records(out, fmt):
    if fmt == "fasta":
        return out.count(b"\n>") + out.startswith(b">")
    return len([l for l in out.split(b"\n")[0::4] if l.startswith(b"@")])


def run_pty(argv, timeout):
    """The command with a terminal as its standard error (the progress bar is only set up then)."""
    import pty, threading
    master, slave = pty.openpty()
    got = []
    p = subprocess.Popen(argv, stdin=subprocess.DEVNULL, stdout=subprocess.PIPE, stderr=slave)
    os.close(slave)

    def drain():
        try:
            while True:
                d = os.read(master, 65536)
                if not d:
                    break
                got.append(d)
        except OSError:
            pass
    th = threading.Thread(target=drain, daemon=True)
    th.start()
    try:
        out, _ = p.communicate(timeout=timeout)
    except subprocess.TimeoutExpired:
        p.kill()
        p.communicate()
        raise
    finally:
        th.join(2)
        os.close(master)
    return p.returncode, out, b"".join(got)


def glue_root(d, j):
    """The directory of the job's files: the first component under d of its first path argument (d itself for stdin jobs)."""
    for a in j["argv"][1:] + [j["stdin"] or ""]:
        a = a[5:] if a.startswith("|cat ") else a
        if a.startswith(d + os.sep):
            rel = a[len(d) + 1:].split(os.sep)
            return os.path.join(d, rel[0]) if len(rel) > 1 else d
    return d


def tree_manifest(d, root):
    """Every entry under root (files with their bytes, links with their target, directories), paths written relative to <dir>."""
    out = []
    if root == d:
        for fn in sorted(os.listdir(d)):
            p = os.path.join(d, fn)
            if os.path.isfile(p) and not os.path.islink(p):
                out.append(dict(path=p.replace(d, "<dir>"), type="file", b64=base64.b64encode(open(p, "rb").read()).decode()))
        return out
    for dp, dns, fns in os.walk(root):
        out.append(dict(path=dp.replace(d, "<dir>"), type="dir"))
        for fn in sorted(fns + [x for x in dns if os.path.islink(os.path.join(dp, x))]):
            p = os.path.join(dp, fn)
            if os.path.islink(p):
                out.append(dict(path=p.replace(d, "<dir>"), type="link", target=os.readlink(p).replace(d, "<dir>")))
            elif not re.search(r"out\d+(_R[12])?\.fastq$", fn):
                out.append(dict(path=p.replace(d, "<dir>"), type="file", b64=base64.b64encode(open(p, "rb").read()).decode()))
    return out


def replay_glue(ctx, rp, tmp):
    c = rp["case"]
    bindir, err = ctx.build_cmds(["obiconvert"])
    if bindir is None:
        print("replay: cannot build obiconvert:", err)
        return
    d = os.path.join(tmp, "glue")
    os.makedirs(d, exist_ok=True)
    sub = lambda x: x.replace("<dir>", d).replace("<bin>", bindir)
    for e in c["tree"]:
        p = sub(e["path"])
        if e["type"] == "dir":
            os.makedirs(p, exist_ok=True)
        elif e["type"] == "link":
            os.makedirs(os.path.dirname(p), exist_ok=True)
            os.symlink(sub(e["target"]), p)
        else:
            os.makedirs(os.path.dirname(p), exist_ok=True)
            with open(p, "wb") as f:
                f.write(base64.b64decode(e["b64"]))
    argv = [sub(a) for a in c["argv"]]
    try:
        if c.get("terminal_on_stderr"):
            rc, out, errb = run_pty(argv, 60)
        else:
            fin = open(sub(c["stdin"]), "rb") if c.get("stdin") else subprocess.DEVNULL
            p = subprocess.run(argv, stdin=fin, capture_output=True, timeout=60)
            rc, out, errb = p.returncode, p.stdout, p.stderr
    except subprocess.TimeoutExpired:
        print("replay: %s: no answer in 60 s -> VIOLATED" % c["what"])
        return
    if c.get("outfiles"):
        nrec = sum(count_records(open(sub(fn), "rb").read(), c["fmt"]) for fn in c["outfiles"] if os.path.exists(sub(fn)))
    else:
        nrec = count_records(out, c["fmt"])
    good = (rc == 0 and nrec == c["nrec"]) if c.get("nrec") is not None else rc != 0
    print("replay: %s: %s" % (c["what"], " ".join(c["argv"])))
    print("  exit status %s, %d records; expected: %s" % (rc, nrec, rp.get("expected")))
    print("  stderr:", errb.decode("utf8", "replace")[-300:].replace("\n", " | "))
    print("  oracle:", "satisfied" if good else "VIOLATED")


def glue_clause(ctx, tmp, bindir, state, dist):
    """obiconvert reaching its inputs through the glue of CLIReadBioSequences / ExpandListOfFiles / Ropen which the other routes do not
    take: --paired-with (second reader; plain file, missing file, directory, '|command'), symbolic links (to a file, dangling),
    directories with sub-directories, a missing file argument (alone, among others), --input-json-header / --input-OBI-header,
    --max-cpu 1, an empty standard input with an imposed flat-file format, a terminal as standard error (progress bar).
    Direct oracle: some input cut short / missing => non-zero status in time; everything intact => status 0 and every record.
    The per-file verdicts (probe route) and the verdict of the command are tied to the model by multi_mismatches."""
    rng = ctx.rng
    quick = False          # the 130 runs of the complete plan take two seconds
    d = os.path.join(tmp, "glue")
    os.makedirs(d, exist_ok=True)
    obiconvert = os.path.join(bindir, "obiconvert")
    jobs = []

    def put(name, blob):
        fn = os.path.join(d, name)
        os.makedirs(os.path.dirname(fn), exist_ok=True)
        with open(fn, "wb") as f:
            f.write(blob)
        return fn

    def job(tag, argv, nrec, fmt="fasta", files=(), stdin=None, pty=False, outfiles=None):
        """nrec: records expected on a successful run (None: a non-zero status is demanded); files: [(path, text)] the inputs the
        command reads, in order (for the model); outfiles: the records are counted in these files instead of stdout."""
        jobs.append(dict(k=len(jobs), tag=tag, argv=argv, nrec=nrec, fmt=fmt, files=list(files), stdin=stdin, pty=pty, outfiles=outfiles))

    codecs = ("gz", "bz2", "xz", "zst")
    nr = 8

    def damaged(blob, codec):
        """(tag, bytes) of a damaged copy of a container."""
        n = len(blob)
        how = rng.choice(("half", "last", "header", "tflip"))
        if how == "half":
            return "cut-half", blob[:n // 2]
        if how == "last":
            return "cut-last", blob[:n - 1]
        if how == "header":
            return "cut-header", blob[:max(len(MAGIC[codec]), HDRLEN[codec] - rng.randrange(0, 4))]
        bad = mutate(blob, -1, 8 * (n - 1 - rng.randrange(0, 4)) + rng.randrange(0, 8))
        return ("tflip", bad) if ref_decode(codec, bad) is None else ("cut-half", blob[:n // 2])

    # --- --paired-with
    for ci, codec in enumerate(codecs if not quick else rng.sample(codecs, 2)):
        tf, tr = gen_fastq(rng, nr), gen_fastq(rng, nr)
        bf, br = compress(codec, tf), compress(codec, tr)
        sub = "p%d/" % ci
        F, R = put(sub + "F.fastq." + codec, bf), put(sub + "R.fastq." + codec, br)
        tagd, bad = damaged(br, codec)
        Rbad = put(sub + "Rbad.fastq." + codec, bad)
        tagf, badf = damaged(bf, codec)
        Fbad = put(sub + "Fbad.fastq." + codec, badf)
        for flags in ([], ["--fastq"]) if not quick else ([rng.choice(([], ["--fastq"]))]):
            fl = "+".join(flags)
            out = os.path.join(d, sub, "out%d.fastq" % len(jobs))
            o12 = [out[:-6] + "_R1.fastq", out[:-6] + "_R2.fastq"]
            job("paired/intact/%s%s" % (codec, fl), [obiconvert] + flags + ["--paired-with", R, F, "-o", out], 2 * nr, "fastq", [(F, tf), (R, tr)], outfiles=o12)
            out = os.path.join(d, sub, "out%d.fastq" % len(jobs))
            job("paired/mate-%s/%s%s" % (tagd, codec, fl), [obiconvert] + flags + ["--paired-with", Rbad, F, "-o", out], None, "fastq", [(F, tf), (Rbad, tr)])
            out = os.path.join(d, sub, "out%d.fastq" % len(jobs))
            job("paired/first-%s/%s%s" % (tagf, codec, fl), [obiconvert] + flags + ["--paired-with", R, Fbad, "-o", out], None, "fastq", [(Fbad, tf), (R, tr)])
        out = os.path.join(d, sub, "out%d.fastq" % len(jobs))
        o12 = [out[:-6] + "_R1.fastq", out[:-6] + "_R2.fastq"]
        job("paired/pipe-intact/%s" % codec, [obiconvert, "--paired-with", "|cat " + R, F, "-o", out], 2 * nr, "fastq", [(F, tf), (R, tr)], outfiles=o12)
        out = os.path.join(d, sub, "out%d.fastq" % len(jobs))
        job("paired/pipe-%s/%s" % (tagd, codec), [obiconvert, "--paired-with", "|cat " + Rbad, F, "-o", out], None, "fastq", [(F, tf), (Rbad, tr)])
        if ci == 0:
            out = os.path.join(d, sub, "out%d.fastq" % len(jobs))
            job("paired/mate-missing", [obiconvert, "--paired-with", os.path.join(d, sub, "nothere.fastq.gz"), F, "-o", out], None, "fastq")
            out = os.path.join(d, sub, "out%d.fastq" % len(jobs))
            job("paired/mate-directory", [obiconvert, "--paired-with", os.path.join(d, sub), F, "-o", out], None, "fastq")

    # --- symbolic links, directories with sub-directories (only *.gz and plain files are looked for there), missing arguments
    for ci, codec in enumerate(codecs if not quick else ("gz", rng.choice(codecs[1:]))):
        ta, tb, tc = gen_fasta(rng, nr), gen_fasta(rng, nr), gen_fasta(rng, nr)
        ba, bb, bc = compress(codec, ta), compress(codec, tb), compress(codec, tc)
        tagd, bad = damaged(bb, codec)
        sub = "l%d/" % ci
        A, B, Bbad = put(sub + "store/a.fasta." + codec, ba), put(sub + "store/b.fasta." + codec, bb), put(sub + "store/bbad.fasta." + codec, bad)
        os.symlink(B, os.path.join(d, sub, "lb.fasta." + codec))
        os.symlink(Bbad, os.path.join(d, sub, "lbad.fasta." + codec))
        os.symlink(os.path.join(d, sub, "store", "gone.fasta." + codec), os.path.join(d, sub, "ldangling.fasta." + codec))
        os.symlink(os.path.join(d, sub, "lb.fasta." + codec), os.path.join(d, sub, "llb.fasta." + codec))       # a link to a link
        L, Lbad, Ldang, LL = (os.path.join(d, sub, x + ".fasta." + codec) for x in ("lb", "lbad", "ldangling", "llb"))
        job("link/intact/%s" % codec, [obiconvert, L], nr, files=[(B, tb)])
        job("link/link-to-link/%s" % codec, [obiconvert, LL], nr, files=[(B, tb)])
        job("link/%s/%s" % (tagd, codec), [obiconvert, Lbad], None, files=[(Bbad, tb)])
        job("link/dangling/%s" % codec, [obiconvert, Ldang], None)
        job("link/among-files-intact/%s" % codec, [obiconvert, A, L], 2 * nr, files=[(A, ta), (B, tb)])
        job("link/among-files-%s/%s" % (tagd, codec), [obiconvert, A, Lbad], None, files=[(A, ta), (Bbad, tb)])
        job("missing/alone/%s" % codec, [obiconvert, os.path.join(d, sub, "nothere.fasta." + codec)], None)
        job("missing/among-files/%s" % codec, [obiconvert, A, os.path.join(d, sub, "nothere.fasta." + codec), B], None)
        if codec == "gz":
            # a tree: top/a.fasta.gz top/s1/b.fasta.gz top/s1/s2/c.fasta.gz top/s1/notes.txt top/empty/
            for variant, blobb in (("intact", bb), (tagd, bad)):
                top = "%stree-%s/" % (sub, "intact" if variant == "intact" else "bad")
                fa, fb, fc = put(top + "a.fasta.gz", ba), put(top + "s1/b.fasta.gz", blobb), put(top + "s1/s2/c.fasta.gz", bc)
                put(top + "s1/notes.txt", b"not a sequence file\n")
                os.makedirs(os.path.join(d, top, "empty"), exist_ok=True)
                job("tree/%s" % variant, [obiconvert, os.path.join(d, top)], 3 * nr if variant == "intact" else None, files=[(fa, ta), (fb, tb), (fc, tc)])
                if variant != "intact":
                    job("tree/sub-directory-alone-%s" % variant, [obiconvert, os.path.join(d, top, "s1")], None, files=[(fb, tb), (fc, tc)])

    # --- title line format options, one CPU, terminal on stderr, empty standard input with an imposed format
    for ci, codec in enumerate(codecs if not quick else rng.sample(codecs, 2)):
        t = gen_fasta(rng, nr)
        blob = compress(codec, t)
        tagd, bad = damaged(blob, codec)
        sub = "o%d/" % ci
        G, Gbad = put(sub + "g.fasta." + codec, blob), put(sub + "gbad.fasta." + codec, bad)
        optsets = [["--input-json-header"], ["--input-OBI-header"], ["--max-cpu", "1"], ["--input-json-header", "--fasta"], ["--max-cpu", "1", "--no-order"]]
        for flags in (optsets if not quick else rng.sample(optsets[:2], 1) + rng.sample(optsets[2:], 1)):
            fl = "+".join(x.strip("-") for x in flags)
            job("opt/%s/intact/%s" % (fl, codec), [obiconvert] + flags + [G], nr, files=[(G, t)])
            job("opt/%s/%s/%s" % (fl, tagd, codec), [obiconvert] + flags + [Gbad], None, files=[(Gbad, t)])
        if ci == 0 or not quick:
            job("tty/intact/%s" % codec, [obiconvert, G], nr, files=[(G, t)], pty=True)
            job("tty/%s/%s" % (tagd, codec), [obiconvert, Gbad], None, files=[(Gbad, t)], pty=True)
    empty = put("empty.dat", b"")
    for flag in ("--embl", "--genbank", "--ecopcr", "--fasta", "--fastq") if not quick else rng.sample(("--embl", "--genbank", "--ecopcr"), 2) + ["--fasta"]:
        job("stdin-empty/%s" % flag, [obiconvert, flag], 0, stdin=empty)
        codec = rng.choice(codecs)
        e = compress(codec, b"")
        job("stdin-empty-container/%s/%s" % (flag, codec), [obiconvert, flag], 0, stdin=put("e%s.%s" % (flag, codec), e))
        k = rng.randrange(len(MAGIC[codec]), len(e))        # (fewer bytes than the magic number: a tiny plain file, see META note)
        job("stdin-cut-empty-container/%s/%s" % (flag, codec), [obiconvert, flag], None, stdin=put("ec%s.%s" % (flag, codec), e[:k]))

    # --- containers cut just behind their magic number, format imposed (file argument): the parser must not get to see them as plain data
    for codec in codecs:
        e = compress(codec, b"")
        for flag in ("--embl", "--genbank", "--ecopcr", "--fasta", "--fastq"):
            for k in range(len(MAGIC[codec]), min(len(e), len(MAGIC[codec]) + 3)):
                job("short-container/%s/%s/%d" % (flag, codec, k), [obiconvert, flag, put("short/%s%d.%s" % (flag, k, codec), e[:k])], None)

    def one(j):
        for attempt in range(2):
            try:
                if j["pty"]:
                    rc, out, err = run_pty(j["argv"], 60)
                else:
                    fin = open(j["stdin"], "rb") if j["stdin"] else subprocess.DEVNULL
                    try:
                        p = subprocess.run(j["argv"], stdin=fin, capture_output=True, timeout=60)
                    finally:
                        if j["stdin"]:
                            fin.close()
                    rc, out, err = p.returncode, p.stdout, p.stderr
            except subprocess.TimeoutExpired:
                if attempt:
                    return dict(kind="timeout", nrec=0)
                continue
            if j["outfiles"]:
                out = b""
                nrec = 0
                for fn in j["outfiles"]:
                    try:
                        nrec += count_records(open(fn, "rb").read(), j["fmt"])
                    except OSError:
                        pass
            else:
                nrec = count_records(out, j["fmt"])
            return dict(kind="ok" if rc == 0 else "reported", status=rc, nrec=nrec, err=err.decode("utf8", "replace")[-300:])
    with ThreadPoolExecutor(max_workers=8) as ex:
        res = list(ex.map(one, jobs))
    nbad = 0
    for j, o in zip(jobs, res):
        key = "glue:%s/%s" % (re.sub(r"/\d+$", "", re.sub(r"/(gz|bz2|xz|zst)\b", "", j["tag"])), o["kind"])
        dist[key] = dist.get(key, 0) + 1
        if j["nrec"] is not None:
            good = o["kind"] == "ok" and o["nrec"] == j["nrec"]
            want = "status 0 and all %d records" % j["nrec"]
        else:
            good = o["kind"] == "reported"
            want = "a non-zero exit status: an input is cut short, corrupt or cannot be opened"
        if not good:
            nbad += 1
            kk = state.setdefault("nviol", {})
            kk["glue"] = kk.get("glue", 0) + 1
            if nbad <= 4:
                ctx.violation("glue_%s" % re.sub(r"[^a-zA-Z0-9]+", "_", j["tag"]), dict(
                    property="C17", kind="direct-oracle", route="glue",
                    case=dict(what=j["tag"], argv=[a.replace(d, "<dir>").replace(bindir, "<bin>") for a in j["argv"]], stdin=j["stdin"] and j["stdin"].replace(d, "<dir>"),
                              terminal_on_stderr=j["pty"], fmt=j["fmt"], nrec=j["nrec"], outfiles=j["outfiles"] and [x.replace(d, "<dir>") for x in j["outfiles"]],
                              inputs=[dict(name=fn.replace(d, "<dir>"), records=len(records_of(t, j["fmt"]))) for fn, t in j["files"]],
                              tree=tree_manifest(d, glue_root(d, j))),
                    implementation={x: o[x] for x in o if x != "err"}, stderr_tail=o.get("err", "")[-200:], expected=want))
    ctx.cov["glue_runs"] = len(jobs)
    return [dict(tag="glue:" + j["tag"], files=j["files"], fmt=j["fmt"], guess=not (set(j["argv"]) & set(CMD_FLAG.values())), nrec=j["nrec"], obs=o)
            for j, o in zip(jobs, res)]


# ------------------------------------------------------------------ an URL as input (XReader's http branch), round 3
def http_cases(ctx, bases):
    """(base index, cut, tag, fault kind): the input is served by a local HTTP server (inside the harness child); short_body =
    the response announces the complete length and carries the first `cut` bytes (net/http ends the body with io.ErrUnexpectedEOF)."""
    rng = ctx.rng
    out = []
    pick = [i for i, b in enumerate(bases) if b.name in ("plain", "small") and (b.codec in ("raw", "gz") or not ctx.quick or b.fmt == "fastq")]
    for bi in pick:
        n = len(bases[bi].blob)
        out.append((bi, -1, "intact", ""))
        out.append((bi, -1, "http404", "http404"))
        for k in sorted(set(rng.sample(range(0, n), 8 if ctx.quick else 60)) | {0, 1, n - 1}):
            out.append((bi, k, "short_body", "short_body"))
        if bases[bi].codec != "raw":
            for k in rng.sample(range(1, n), 3 if ctx.quick else 30):
                out.append((bi, k, "cut", ""))
    return out


def http_route(ctx, bases, state, dist):
    hc = http_cases(ctx, bases)
    cases = [dict(mode="http", path=bases[bi].path, cut=cut, flip=-1, fault_at=-1, b=0, step=0, eager=False, nodata=False, fault_kind=fk) for (bi, cut, tag, fk) in hc]
    obs = ctx.vh_robust("c17", cases, timeout=900, one_timeout=120)
    for (bi, cut, tag, fk), o in zip(hc, obs):
        b = bases[bi]
        k = "http/%s/%s/%s" % (b.codec, tag, o["kind"])
        dist[k] = dist.get(k, 0) + 1
        exp = ("ok", b.ids) if tag == "intact" else ("fatal",)
        if not judge(exp, o):
            report(ctx, state, tag, "http", b, (bi, cut, -1, -1, "http-" + tag, dict(step=0, eager=False, fkind=fk)), o, exp,
                   dict(note="ReadSequencesFromFile(http://127.0.0.1:<port>/input.dat); short_body: Content-Length of the complete file, first `cut` bytes sent"))
    ctx.cov["http_runs"] = len(cases)
    return len(cases)

# ------------------------------------------------------------------ the list of input files (ExpandListOfFiles), round 3
EXP_SUFFIXES = ("fasta", "fasta.gz", "fastq", "fastq.gz", "seq", "seq.gz", "gb", "gb.gz", "dat", "dat.gz", "ecopcr", "ecopcr.gz")
EXP_OTHER = (".txt", ".fasta.bz2", ".fastq.xz", ".fa", ".fq.gz", ".csv", "", ".fasta.gz.bak", ".GB", "xfasta", ".ecopcr.zst")


def walk_files(d):
    """The regular files below d in the order filepath.Walk meets them (lexical, directories entered where they stand)."""
    out = []
    for name in sorted(os.listdir(d)):
        p = os.path.join(d, name)
        if os.path.isdir(p):
            out += walk_files(p)
        else:
            out.append(p)
    return out


def expand_oracle(args, dirs, o):
    """None, or what is wrong with the list ExpandListOfFiles returned (dirs: directory argument -> files below it)."""
    acc = lambda p: any(p.endswith(s) for s in EXP_SUFFIXES)
    out = o.get("files") or []
    if o.get("kind") != "ok":
        return "no list returned"
    if len(set(out)) != len(out):
        return "a file is listed twice"
    allowed = {a for a in args if a not in dirs} | {p for fs in dirs.values() for p in fs if acc(p)}
    first_dir = min([i for i, a in enumerate(args) if a in dirs], default=len(args))
    # (every file argument is due, whatever precedes it: the extension filter concerns the content of directory arguments only)
    due = {p for fs in dirs.values() for p in fs if acc(p)} | {a for i, a in enumerate(args) if a not in dirs}
    if set(out) - allowed:
        return "lists something which is neither a file argument nor an accepted file below a directory argument"
    if due - set(out):
        return "a file it has to list is missing"
    return None


def replay_expand(ctx, rp, tmp):
    c = rp["case"]
    root = os.path.join(tmp, "x")
    sub = lambda p: p.replace("<dir>", root)
    for a in c["args"]:
        if a in c["tree"]:
            os.makedirs(sub(a), exist_ok=True)
            for p in c["tree"][a]:
                os.makedirs(os.path.dirname(sub(p)), exist_ok=True)
                open(sub(p), "wb").close()
        else:
            os.makedirs(os.path.dirname(sub(a)), exist_ok=True)
            open(sub(a), "ab").close()
    args = [sub(a) for a in c["args"]]
    o = ctx.vh_robust("c17", [dict(mode="expand", args=args)], timeout=120, one_timeout=60)[0]
    why = expand_oracle(args, {sub(a): [sub(p) for p in fs] for a, fs in c["tree"].items()}, o)
    print("replay: ExpandListOfFiles(%s)" % ", ".join(c["args"]))
    print("  returned:", [p.replace(root, "<dir>") for p in (o.get("files") or [])] if o.get("kind") == "ok" else o)
    print("  oracle:", "satisfied" if why is None else "VIOLATED: " + why)


def expand_clause(ctx, tmp, broken, state, dist):
    """obiconvert.ExpandListOfFiles on random argument lists (files with accepted and other names, directories with sub-directories,
    empty directories, the same argument twice, a file which also lies in a directory given before / after it).
    Direct oracle = the statements of the theorems: no file twice; nothing but file arguments and accepted files below directory
    arguments; every accepted file below a directory argument; every file argument. Correspondence: the model `expand` gives the same list in the same order (exp_mismatches)."""
    rng = ctx.rng
    root = os.path.join(tmp, "x")
    cases = []

    def fname():
        stem = "".join(rng.choices("abrs", k=rng.randrange(1, 3)))
        return stem + (("." + rng.choice(EXP_SUFFIXES)) if rng.random() < 0.6 else rng.choice(EXP_OTHER))

    def fill(d, depth):
        os.makedirs(d, exist_ok=True)
        for _ in range(rng.randrange(0, 4)):
            open(os.path.join(d, fname()), "wb").close()
        if depth < 3:
            for _ in range(rng.choice((0, 0, 1, 1, 2))):
                fill(os.path.join(d, rng.choice(("S", "T", "U.fasta", "m.d"))), depth + 1)      # (no file is called like that)
    ncases = 40 if ctx.quick else 400
    for k in range(ncases):
        d = os.path.join(root, "%d" % k)
        os.makedirs(d)
        args = []
        for a in range(rng.randrange(1, 5)):
            r = rng.random()
            if r < 0.45:
                p = os.path.join(d, "f%d%s" % (a, fname()))
                open(p, "wb").close()
                args.append(p)
            elif r < 0.85:
                p = os.path.join(d, "d%d" % a)
                fill(p, 1)
                args.append(p)
            elif args:
                args.append(rng.choice(args))                       # the same argument again
            if args and os.path.isdir(args[-1]) and rng.random() < 0.3:
                inner = walk_files(args[-1])
                if inner:
                    args.insert(rng.randrange(0, len(args) + 1), rng.choice(inner))      # a file of that directory, given by name too
        if not args:
            p = os.path.join(d, "only.fasta")
            open(p, "wb").close()
            args = [p]
        cases.append(args)
    obs = ctx.vh_robust("c17", [dict(mode="expand", args=a) for a in cases], timeout=300, one_timeout=60)
    acc = lambda p: any(p.endswith(s) for s in EXP_SUFFIXES)
    terms = []
    nbad = 0
    for args, o in zip(cases, obs):
        dirs = {a: walk_files(a) for a in args if os.path.isdir(a)}
        key = "expand/%s/%s" % ("dirs" if dirs else "files-only", o.get("kind"))
        dist[key] = dist.get(key, 0) + 1
        out = o.get("files") or []
        why = expand_oracle(args, dirs, o)
        if why:
            nbad += 1
            kk = state.setdefault("nviol", {})
            kk["expand"] = kk.get("expand", 0) + 1
            if nbad <= 3:
                ctx.violation("expand_%d" % nbad, dict(property="C17", kind="direct-oracle", route="expand", why=why,
                                                      case=dict(args=[a.replace(root, "<dir>") for a in args],
                                                                tree={a.replace(root, "<dir>"): [p.replace(root, "<dir>") for p in fs] for a, fs in dirs.items()}),
                                                      implementation=dict(o, files=[p.replace(root, "<dir>") for p in out])))
        if o.get("kind") == "ok":
            enc = lambda p: "[%s]" % ";".join(str(x) for x in p.replace(root, "").encode())
            terms.append("mke [%s] [%s]" % ("; ".join(("ADir [%s]" % "; ".join(enc(p) for p in dirs[a])) if a in dirs else "AFile %s" % enc(a) for a in args),
                                            "; ".join(enc(p) for p in out)))
    label = "exp%d" % os.getpid()
    try:
        bad, err = ctx.correspond(label, IMPORTS, terms, fn="exp_mismatches", shard=200)
    finally:
        cleanup_coq(ctx, label)
    ctx.cov["expand_cases"] = len(cases)
    if bad is None:
        broken.append(dict(kind="correspondence", detail=err))
        return []
    return [dict(route="expand", case=dict(args=[a.replace(root, "<dir>") for a in cases[u]]), implementation=obs[u], model_term=terms[u][:1500]) for u in bad]


# ------------------------------------------------------------------ cases
def make_bases(ctx, tmp):
    rng = ctx.rng
    bases = []
    nfa, nfq = (5, 3) if ctx.quick else (12, 8)
    for codec in ("gz", "bz2", "xz", "zst"):
        bases.append(Base(ctx, tmp, "small", codec, "fasta", gen_fasta(rng, nfa)))
        bases.append(Base(ctx, tmp, "small", codec, "fastq", gen_fastq(rng, nfq)))
    bases.append(Base(ctx, tmp, "multi", "gz", "fasta", gen_fasta(rng, 40, multiline=True)))
    bases.append(Base(ctx, tmp, "plain", "raw", "fasta", gen_fasta(rng, 6)))
    bases.append(Base(ctx, tmp, "plain", "raw", "fastq", gen_fastq(rng, 4)))
    # valid containers of an EMPTY text: intact they are an empty input (exit 0, no record); every cut of them is a
    # container with a (partly) readable header which yields no data and must be reported, never taken for an empty file
    for codec in ("gz", "bz2", "xz", "zst"):
        bases.append(Base(ctx, tmp, "empty", codec, "fasta", b""))
    if not ctx.quick:
        for codec in ("bz2", "xz", "zst"):
            bases.append(Base(ctx, tmp, "multi", codec, "fasta", gen_fasta(rng, 40, multiline=True)))
    bases += xz_handmade_bases(ctx, tmp)
    bases += variant_bases(ctx, tmp)
    # more than 1 MiB of text: the sniffer's ReadFull is complete and the fault is met by ReadSeqFileChunk at its production size
    big = gen_big_fasta(rng, 1300000)
    for codec in (("gz",) if ctx.quick else ("gz", "bz2", "zst")):
        bases.append(Base(ctx, tmp, "big", codec, "fasta", big))
    bases.append(Base(ctx, tmp, "bigraw", "raw", "fasta", gen_big_fasta(rng, 2 * (1 << 20) + 150000)))
    # two members / frames / streams, the first one ending at a MiB boundary -1 / +0 / +1 of the DEcompressed text (the sizes of
    # the sniffer buffer and of the chunk buffer): a fault in the second member surfaces exactly there; texts of 0.5 to 3 MiB
    MIB = 1 << 20
    if ctx.quick or EXTENDED_SEARCH[0]:
        plan = [("gz", 2 * MIB + 70000, MIB + rng.choice((-1, 0, 1))), ("zst", MIB + MIB // 2, MIB + rng.choice((-1, 0, 1))),
                (rng.choice(("bz2", "xz")), MIB // 2, MIB // 4)]
    else:
        plan = [(codec, size, k * MIB + d) for codec in ("gz", "bz2", "xz", "zst")
                for size, k in ((MIB // 2 + 11, 0), (MIB + MIB // 2, 1), (3 * MIB, 1), (3 * MIB, 2), (2 * MIB + 70000, 2)) for d in (-1, 0, 1) if k * MIB + d > 0]
        plan += [(codec, MIB // 2, MIB // 4) for codec in ("gz", "bz2", "xz", "zst")]
    texts = {}
    for n, (codec, size, l1) in enumerate(plan):
        if size not in texts:
            texts[size] = gen_big_fasta(rng, size)
        t = texts[size]
        first = compress(codec, t[:l1])
        bases.append(Base(ctx, tmp, "mm%d" % n, codec, "fasta", t, blob=first + compress(codec, t[l1:]), m1=len(first)))
    return bases


def gz_member(data, fname=None, comment=None, extra=None, hcrc=False, level=6):
    """One gzip member written by hand: optional FEXTRA / FNAME / FCOMMENT / FHCRC header fields (the gzip module writes none)."""
    flg = (2 if hcrc else 0) | (4 if extra is not None else 0) | (8 if fname is not None else 0) | (16 if comment is not None else 0)
    h = b"\x1f\x8b\x08" + bytes([flg]) + b"\0\0\0\0" + b"\0\xff"
    if extra is not None:
        h += len(extra).to_bytes(2, "little") + extra
    if fname is not None:
        h += fname + b"\0"
    if comment is not None:
        h += comment + b"\0"
    if hcrc:
        h += (zlib.crc32(h) & 0xffff).to_bytes(2, "little")
    c = zlib.compressobj(level, zlib.DEFLATED, -15)
    body = c.compress(data) + c.flush()
    return h + body + zlib.crc32(data).to_bytes(4, "little") + (len(data) & 0xffffffff).to_bytes(4, "little")


def bgzf(data, block=200):
    """BGZF (bgzip): members of at most `block` bytes of text, each with the BC extra field holding its size, then the EOF marker."""
    out = b""
    for k in list(range(0, len(data), block)) + [None]:
        part = data[k:k + block] if k is not None else b""
        m = gz_member(part, extra=b"BC\x02\x00\x00\x00")
        m = m[:16] + (len(m) - 1).to_bytes(2, "little") + m[18:]
        out += m
    return out


def variant_bases(ctx, tmp):
    """round 3: container shapes the library writers used so far never produce: gzip header with extra field, file name, comment and header CRC
    (a cut inside these fields), BGZF, stored deflate blocks, zstd frames without checksum / several frames with a skippable frame in between,
    a byte order mark in front of the text, CR LF line ends. One of them per quick run (the seed chooses), all of them in the thorough tier."""
    rng = ctx.rng

    def zst(data, *opts):
        return subprocess.run([ZSTD, "-c", "-q"] + list(opts), input=data, capture_output=True, check=True).stdout
    t = gen_fasta(rng, 6)
    crlf = t.replace(b"\n", b"\r\n")
    bom = b"\xef\xbb\xbf" + t
    k = rng.randrange(1, len(t))
    variants = [
        ("gzhdr", "gz", t, lambda: gz_member(t, fname=b"reads.fasta", comment=b"made by hand", extra=b"AB\x03\x00xyz", hcrc=True)),
        ("bgzf", "gz", t, lambda: bgzf(t, rng.choice((120, 200, 1000)))),
        ("gzstored", "gz", t, lambda: gz_member(t, level=0)),
        ("zstnocheck", "zst", t, lambda: zst(t, "--no-check")),
        ("zstframes", "zst", t, lambda: zst(t[:k], "--check") + b"\x50\x2a\x4d\x18" + (5).to_bytes(4, "little") + b"hello" + zst(t[k:], "--no-check")),
        ("bom", rng.choice(("gz", "bz2", "xz", "zst", "raw")), bom, None),
        ("crlf", rng.choice(("gz", "bz2", "xz", "zst")), crlf, None),
    ]
    out = []
    for name, codec, text, mk in (variants if (not ctx.quick or os.environ.get("C17_ALL_VARIANTS")) else rng.sample(variants, 1)):
        blob = mk() if mk else compress(codec, text)
        if ref_decode(codec, blob, text) != text:
            raise RuntimeError("variant %s: the reference decoder does not give the text back" % name)
        # bom: xopen.Buf drops the byte order mark, the text the readers get is t
        out.append(Base(ctx, tmp, name, codec, "fasta", t if name == "bom" else text, blob=blob, ids=records_of(t, "fasta")))
    return out


def xz_handmade_bases(ctx, tmp):
    """round 3: xz containers the Python module cannot write (xz_build): SEVERAL BLOCKS (xz -T / --block-size; the library ends
    a cut on a block boundary or inside the next block header with a clean io.EOF delivered together with the last bytes), an
    empty block, the three kinds of block check, really compressed / stored LZMA2 chunks, stream padding between two streams and
    at the end, a run of padding longer than the window of xopen's tail tracker, an index longer than that window."""
    rng = ctx.rng
    out = []

    def pieces(t, n):
        ks = sorted(rng.sample(range(1, len(t)), n - 1))
        return [t[a:b] for a, b in zip([0] + ks, ks + [len(t)])]

    def Base(ctx, tmp, name, codec, fmt, t, blob, **kw):          # the reference decoder accepts what xz_build wrote
        if (xz_cli_decode(blob) if os.path.exists(XZ) else lzma.decompress(blob)) != t:
            raise RuntimeError("xz_build: the reference decoder does not give the text back (%s)" % name)
        return globals()["Base"](ctx, tmp, name, codec, fmt, t, blob=blob, **kw)
    variants = [(rng.choice((0, 1, 10)), rng.random() < 0.3)] if ctx.quick else [(c, st) for c in (0, 1, 10) for st in (False, True)]
    for n, (check, stored) in enumerate(variants):
        t = gen_fasta(rng, 6)
        bl = pieces(t, 3)
        if rng.random() < 0.4 or (not ctx.quick and n % 2):
            bl.insert(rng.randrange(0, 4), b"")
        out.append(Base(ctx, tmp, "xzmb%d" % n, "xz", "fasta", t, blob=xz_build(bl, check, 0, stored)))
    t = gen_fasta(rng, 4)
    a, b, c = pieces(t, 3)
    out.append(Base(ctx, tmp, "xzpad", "xz", "fasta", t, blob=xz_build([a, b], 1, 4 * rng.randrange(1, 3), True) + xz_build([c], 1, 4 * rng.randrange(0, 2), True)))
    # more zero bytes than the window (64 KiB) between two streams
    t = gen_fasta(rng, 8)
    a, b = pieces(t, 2)
    A = xz_build([a])
    pad = 65536 + 4 * rng.randrange(1, 6)
    blob = A + b"\0" * pad + xz_build(pieces(b, 2))
    la, n = len(A), len(blob)
    cuts = [la, la + 4 * rng.randrange(1, 9), la + 4 * rng.randrange(1, 9) + rng.randrange(1, 4), la + 65536 + rng.randrange(1, 4), la + 65540, la + pad, la + pad + 5,
            la + pad + 12, la + pad + (n - la - pad) // 2, n - 12, n - 1]
    out.append(Base(ctx, tmp, "xzbigpad", "xz", "fasta", t, blob=blob, cuts=cuts if not ctx.quick else cuts[:2] + rng.sample(cuts[2:6], 2) + rng.sample(cuts[6:], 2), noflip=True))
    # an index of more than 64 KiB (33000 blocks of two bytes): the guard checks the stream footer only
    t = gen_fasta(rng, 1400)[:70000]
    t = t[:t.rfind(b">")]
    blob = xz_build([t[k:k + 2] for k in range(0, len(t), 2)], 1, 0, True, 0)
    n = len(blob)
    isz = (int.from_bytes(blob[-8:-4], "little") + 1) * 4
    if isz <= 65536:
        raise RuntimeError("xzidx: the index (%d bytes) fits in the window of xopen's tail tracker" % isz)
    cuts = [n - 1, n - 12 - isz, n - 12, n - 12 - isz // 2, n // 2, n - 12 - isz - 4]
    out.append(Base(ctx, tmp, "xzidx", "xz", "fasta", t, blob=blob, big=True, cuts=cuts if not ctx.quick else [cuts[0], rng.choice(cuts[1:])], noflip=True))
    return out


def gen_big_fasta(rng, size):
    out, n, i = [], 0, 0
    while n < size:
        seq = "".join(rng.choices("acgt", k=400))
        rec = ">b%d\n%s\n" % (i, seq)
        out.append(rec)
        n += len(rec)
        i += 1
    return "".join(out).encode()


VARIANT_NAMES = ("gzhdr", "bgzf", "gzstored", "zstnocheck", "zstframes", "bom", "crlf")
SMALL_B = [2, 3, 4, 5, 7, 8, 13, 16, 33, 64, 100, 257, 1000]
EXTENDED_SEARCH = [False]      # set during the extended search of run(): thorough-size small containers, quick-size big ones


HDRLEN = dict(gz=10, bz2=4, xz=12, zst=6)     # container header (gz: fixed header; xz: stream header; bz2/zst: magic + first descriptor bytes)
TRAILER = 40                                   # bytes at the end of a container searched exhaustively for harmful single-bit flips


def sched(rng, big=False):
    """Read schedule of the raw reader handed to xopen.Buf: at most `step` bytes per Read (0 = as many as asked) and
    whether the final error (io.EOF / injected fault) is returned together with the last bytes (n > 0)."""
    return dict(step=rng.choice((0, 0, 0, 4096, 65536) if big else (0, 0, 1, 2, 3, 7, 64, 4096)), eager=rng.random() < 0.4)


def gen_faults(ctx, bases):
    """List of (base index, cut, flip, fault_at, tag, read schedule)."""
    rng = ctx.rng
    faults = []

    def add(bi, cut, flip, fat, tag, opt=None, fkind=""):
        opt = dict(opt or sched(rng, bases[bi].big))
        if fkind:
            # round 3: the raw reader ends with io.ErrUnexpectedEOF itself (net/http: body shorter than Content-Length) or with an
            # error wrapping io.EOF instead of the custom error
            opt["fkind"] = fkind
            tag = "%s_%s" % (tag, fkind)
        faults.append((bi, cut, flip, fat, tag, opt))
    for bi, b in enumerate(bases):
        n = len(b.blob)
        add(bi, -1, -1, -1, "intact")
        if b.m1 is not None:
            # two members: faults inside the second one (and in the trailer of the first one, at the boundary)
            m1, h = b.m1, HDRLEN[b.codec]
            cuts = [m1 + 1, m1 + h, m1 + (n - m1) // 2, n - 1, m1 - 1, m1]
            if ctx.quick:
                cuts = cuts[:2] + [rng.choice(cuts[2:4]), rng.choice(cuts[4:])]
            else:
                cuts += [m1 + h // 2, m1 + h + 1, m1 + (n - m1) // 3, n - 5]
            for cut in cuts:
                add(bi, cut, -1, -1, "cut2")
            add(bi, -1, 8 * (m1 - 1 - rng.randrange(0, 4)) + rng.randrange(0, 8), -1, "tflip")
            add(bi, -1, 8 * (n - 1 - rng.randrange(0, 4)) + rng.randrange(0, 8), -1, "tflip")
            add(bi, -1, -1, rng.choice((m1, m1 + 1, m1 + h)), "inject")
            continue
        if b.name == "bigraw":
            # plain text, a read error exactly at a MiB boundary -1 / 0 / +1 of the stream (the sizes of the sniffer buffer and of the
            # chunk buffer), delivered alone and together with the last bytes, whole-buffer reads and 4 KiB reads
            mib = 1 << 20
            ks = [k * mib + d for k in (1, 2) for d in (-1, 0, 1) if k * mib + d < n]
            for k in (ks if not ctx.quick else [mib - 1, mib, mib + 1, rng.choice(ks[3:] or ks)]):
                for eager in (False, True):
                    add(bi, -1, -1, k, "inject", dict(step=rng.choice((0, 4096, 65536)), eager=eager))
            # the same places, the reader ending with io.ErrUnexpectedEOF / an error which wraps io.EOF (met by the sniffer's
            # ReadFull at 1 MiB - 1, by the first / an extension ReadFull of the chunk reader beyond)
            for k in (ks if not ctx.quick else [mib - 1, mib + 1, rng.choice(ks[3:] or ks)]):
                add(bi, -1, -1, k, "inject", dict(step=rng.choice((0, 4096, 65536)), eager=rng.random() < 0.5), fkind="unexpected")
            add(bi, -1, -1, rng.choice(ks), "inject", fkind="wrapped_eof")
            continue
        if b.cuts is not None:
            for cut in b.cuts:
                add(bi, cut, -1, -1, "cut")
            continue
        if b.name == "big":
            # cuts late enough for more than 1 MiB to be decoded before the fault
            for cut in [n - 1, n - 8, n - 9, n - 200, n - n // 50] + ([] if ctx.quick else [n - n // 20, n - n // 10]):
                add(bi, cut, -1, -1, "cut")
            add(bi, -1, -1, n - n // 40, "inject")
            continue
        if b.codec != "raw":
            cuts = range(0, n) if (b.name in ("small", "empty") + VARIANT_NAMES or b.name.startswith("xz") or not ctx.quick) else sorted(rng.sample(range(0, n), 120))
            for cut in cuts:
                add(bi, cut, -1, -1, "cut")
        else:
            add(bi, 0, -1, -1, "cut")
        ks = range(0, n) if (b.name not in ("multi", "empty") and (b.codec in ("gz", "raw") or not ctx.quick)) else sorted(rng.sample(range(0, n), min(n, 12 if b.name == "empty" else 40)))
        for k in ks:
            add(bi, -1, -1, k, "inject")
        if b.codec == "raw":
            add(bi, -1, -1, n, "inject")
        # other error values of the raw reader: io.ErrUnexpectedEOF itself, an error wrapping io.EOF
        if b.codec == "raw":
            uks = range(0, n + 1) if not ctx.quick else sorted(set(rng.sample(range(0, n + 1), 50 if b.fmt == "fasta" else 25)) | {0, 1, 2, n - 1, n})
        else:
            uks = sorted(rng.sample(range(0, n), min(n, 10 if ctx.quick else 60)))
        for k in uks:
            add(bi, -1, -1, k, "inject", fkind="unexpected")
        for k in rng.sample(range(0, n + 1), min(n, 6 if ctx.quick else 40)):
            add(bi, -1, -1, k, "inject", fkind="wrapped_eof")
    nflip = 100 if ctx.quick else 3000
    comp = [i for i, b in enumerate(bases) if b.codec != "raw" and not b.big and not b.noflip]
    for _ in range(nflip):
        bi = rng.choice(comp)
        add(bi, -1, rng.randrange(0, 8 * len(bases[bi].blob)), -1, "flip")
    # single-bit flips in the trailer (CRC / length / end-of-stream marker / index / footer): all of them in thorough
    for bi in comp:
        n = len(bases[bi].blob)
        bits = list(range(8 * max(0, n - TRAILER), 8 * n))
        if ctx.quick:
            bits = rng.sample(bits, min(len(bits), 8))
        off = xz_index_offset(bases[bi].blob) if bases[bi].codec == "xz" else None
        if off is not None:
            # corpus: the index indicator of an xz stream (witness class of the known finding xz-index-indicator-bitflip, bits 3..7)
            bits = sorted(set(bits) | {8 * off + k for k in ((0, 3, 7) if ctx.quick else range(8))})
        for bit in bits:
            add(bi, -1, bit, -1, "tflip")
        if off is not None:
            # corpus: the size byte of the (only) block header (witness class of the known finding xz-last-block-header-size-bitflip)
            for k in ((6, 7) if ctx.quick else range(8)):
                add(bi, -1, 8 * 12 + k, -1, "hflip")
    return faults


def vh_cases(ctx, bases, faults, mode, pick_b=False):
    cs = []
    for (bi, cut, flip, fat, tag, opt) in faults:
        c = dict(mode=mode, path=bases[bi].path, cut=cut, flip=flip, fault_at=fat, b=0, step=opt["step"], eager=opt["eager"], nodata=bases[bi].big, fault_kind=opt.get("fkind", ""))
        if pick_b:
            c["b"] = ctx.rng.choice(SMALL_B)
        cs.append(c)
    return cs


def strip_nl(b):
    return bytes(x for x in b if x not in (10, 13))


# ------------------------------------------------------------------ evaluation
KNOWN_XZ_IDX = "xz-index-indicator-bitflip"           # round 2: found, then fixed in xopen (the key matches nothing any more)
KNOWN_XZ_BH = "xz-corrupt-block-clean-eof"
KNOWN_LINES = {KNOWN_XZ_BH: ("an xz input with a corrupted byte inside a block (block header size, LZMA2 chunk size) is accepted with the records decoded before "
                             "the damage (a single-block file hit in its block header is handled as an empty file): the xz library (ulikunitz/xz) ends the stream "
                             "with a clean io.EOF; index and footer are intact, so xopen's end-of-stream guard cannot tell"),
               KNOWN_XZ_IDX: ("an xz input with a bit of its index indicator byte flipped is accepted (all records delivered): the xz library (ulikunitz/xz) "
                              "takes the byte for the size of a block header reaching beyond the end of the file and ends the stream with a clean io.EOF")}


def xz_ends_complete(blob):
    """The compressed bytes end with a valid index and stream footer (what xopen's guard demands), independent implementation."""
    import zlib
    body = blob.rstrip(b"\0")
    if (len(blob) - len(body)) % 4 != 0:
        return False
    if len(body) < 12 or body[-2:] != b"YZ" or zlib.crc32(body[-8:-2]) != int.from_bytes(body[-12:-8], "little"):
        return False
    size = (int.from_bytes(body[-8:-4], "little") + 1) * 4
    if 12 + size > len(body):
        return True
    idx = body[-12 - size:-12]
    return idx[0] == 0 and zlib.crc32(idx[:-4]) == int.from_bytes(idx[-4:], "little")


def xz_index_offset(blob):
    """Offset of the index indicator of a single-stream xz container (from the backward size of its footer), or None."""
    if len(blob) < 32 or blob[-2:] != b"YZ":
        return None
    size = (int.from_bytes(blob[-8:-4], "little") + 1) * 4
    off = len(blob) - 12 - size
    return off if off >= 12 and blob[off] == 0 else None


KNOWN_XZ = "xz-clean-eof-on-truncation"      # round 1: known finding; round 2: fixed in xopen (the key matches nothing any more)
KNOWN_XZ_LINE = ("an xz input cut inside a block header (or between the last block and the index) is accepted: the xz library "
                 "(ulikunitz/xz) itself ends such a stream with a clean io.EOF, so the command exits 0 with the blocks decoded so far")
IMPORTS = ("From Coq Require Import List NArith ZArith Bool. Import ListNotations. Open Scope N_scope.\n"
           "From OBI.C17 Require Import Model.")


class RawBase:
    """A container given by its bytes (replay files)."""
    def __init__(self, tmp, d):
        self.name, self.codec, self.fmt = d["file"].split(".")[0], d["codec"], d["fmt"]
        self.blob = base64.b64decode(d["container_b64"])
        self.data = base64.b64decode(d["text_b64"])
        self.path = os.path.join(tmp, "replay.%s.%s" % (self.fmt, self.codec))
        with open(self.path, "wb") as f:
            f.write(self.blob)
        self.ids = records_of(self.data, self.fmt) if "ids" not in d else d["ids"]
        self.big = d.get("big", len(self.data) > 100000)
        self.m1 = d.get("m1")
        self.cuts, self.noflip = None, False


def describe(base, f):
    bi, cut, flip, fat, tag, opt = f
    return dict(file="%s.%s.%s" % (base.name, base.fmt, base.codec), codec=base.codec, fmt=base.fmt, container_len=len(base.blob),
                cut=cut, flip=flip, fault_at=fat, kind=tag, step=opt["step"], eager=opt["eager"], fkind=opt.get("fkind", ""), m1=base.m1, big=base.big,
                container_b64=base64.b64encode(base.blob).decode(), text_b64=base64.b64encode(base.data).decode())


def report(ctx, state, name, route, base, f, obs, exp, extra=None, known=None):
    """Oracle failure: known finding or VIOLATION (at most 3 replays per route)."""
    if known and ctx.kf_match(known):
        ctx.known(known, KNOWN_LINES.get(known, KNOWN_XZ_LINE))
        state["known"] = state.get("known", 0) + 1
        return
    k = state.setdefault("nviol", {})
    k[route] = k.get(route, 0) + 1
    if k[route] <= 3:
        rp = dict(property="C17", kind="direct-oracle", route=route, case=describe(base, f), implementation=obs,
                  expected=list(exp) if exp else None)
        if extra:
            rp.update(extra)
        ctx.violation("%s_%s_%d" % (route, name, k[route]), rp)


FIN = dict(eof="REof", unexpected="RUnexpectedEof", injected="ROther", other="ROther")


def ext_of(b):
    """Size of the extension reads of ReadSeqFileChunk in the tree under test: fileChunkSize-1, fileChunkSize once the
    C01 repair is in (the theorems hold for every size >= 1, the observables compared here do not depend on it)."""
    from vlib import REPO
    try:
        src = open(os.path.join(REPO, "pkg/obiformats/seqfile_chunk_read.go")).read()
    except OSError:
        src = ""
    return b - 1 if re.search(r"l\s*\+\s*fileChunkSize\s*-\s*1", src) else b


def case_term(probe, sn, b, recog, obs, bi=None, text=None):
    if probe.get("open") == "ok":
        data, fin, hdr = base64.b64decode(probe.get("data", "")), FIN[probe["fin"]], "true"
    elif probe.get("open") == "nocontent":
        data, fin, hdr = b"", "REof", "true"
    else:
        data, fin, hdr = b"", "REof", "false"
    if text is not None and len(data) > 8 and text.startswith(data):
        lit = "(pre %d T%d)" % (len(data), bi)          # a prefix of the text of container bi (defined once per shard)
    elif len(data) > 20000:
        return None      # a bit flip made the decoder inflate the stream (hundreds of kB of zeros): too long for a Gallina literal, direct oracle only
    else:
        lit = "[%s]" % ";".join(str(x) for x in data)
    return "mkc %s %s %s %s %d %d %s (%s)" % (lit, fin, hdr, "(Some %d)" % sn if sn else "None", b, ext_of(b),
                                              "true" if recog else "false", obs)


def coq_bytes(blob):
    """Gallina list of the bytes; runs of 64 zero bytes or more are written `repeat 0 n` (a list notation of 66000 elements overflows
    the stack of coqc)."""
    parts, k = [], 0
    for m in re.finditer(rb"\0{64,}", blob):
        if m.start() > k:
            parts.append("[%s]" % ";".join(str(x) for x in blob[k:m.start()]))
        parts.append("repeat 0 (N.to_nat %d)" % (m.end() - m.start()))
        k = m.end()
    if k < len(blob) or not parts:
        parts.append("[%s]" % ";".join(str(x) for x in blob[k:]))
    return " ++ ".join(parts)


def imports_for(bases):
    """Model import + the text of every (small) container, so that a decoded prefix is written `pre n Tk`."""
    defs = ["Definition pre (n : N) (l : list N) : list N := fst (fst (take n l))."]
    for k, b in enumerate(bases):
        if not b.big:
            defs.append("Definition T%d : list N := [%s]." % (k, ";".join(str(x) for x in b.data)))
    return IMPORTS + "\n" + "\n".join(defs)


def decoded_of(probe):
    return base64.b64decode(probe.get("data", "")) if probe.get("open") == "ok" else b""


def obs_records(o, probe, fmt):
    if o["kind"] == "fatal":
        return "OFatal"
    if o["kind"] != "ok":
        return "ODiverges"
    dec = decoded_of(probe)
    try:
        full = records_of(dec.replace(b"\r", b""), fmt)        # (CR LF line ends: the parsers drop the CR)
    except Exception:
        full = None
    if full is not None and same_records(o.get("ids", ""), full):
        return "OOkAll"
    if full and full[-1].endswith(":0;") and same_records(o.get("ids", ""), full[:-1]):
        return "OOkAll"          # the decoded text ends inside / right after a title line (a container cut at a member boundary): no record to deliver
    return "OOkPartial"


def obs_chunks(o):
    if o["kind"] == "fatal":
        return "OFatal"
    if o["kind"] != "ok":
        return "ODiverges"
    d = strip_nl(base64.b64decode(o.get("chunks", "")))
    return "OOkBytes %d %d" % (len(d), sum(d))


def cleanup_coq(ctx, label):
    import glob
    from vlib import BUILD
    for fn in glob.glob(os.path.join(BUILD, "coq", "%s_%s_*" % (ctx.pid, label))) + glob.glob(os.path.join(BUILD, "coq", ".%s_%s_*" % (ctx.pid, label))):
        try:
            os.unlink(fn)
        except OSError:
            pass


def run(ctx, broken):
    tmp = tempfile.mkdtemp(prefix="c17_")
    try:
        res = _run(ctx, broken, tmp)
        if res["mism"] and not ctx.violations and os.environ.get("C17_NO_EXTENDED"):
            print("C17 debug: first mismatches:", json.dumps(res["mism"][:3], default=str)[:3000])
            broken.append(dict(kind="correspondence", name="corr:C17/" + res["mism"][0]["route"], first_diverging_case=res["mism"][0], n_diverging=len(res["mism"])))
        elif res["mism"] and not ctx.violations:
            # the model and the code diverge although the direct oracle is satisfied: search harder (more bit flips,
            # every truncation point of the larger files) before reporting the bare divergence
            ctx.cov["search"] = "extended"
            saved = dict(ctx.cov)
            EXTENDED_SEARCH[0] = True
            try:
                _run(ctx, [], tmp, extended=True)
            finally:
                EXTENDED_SEARCH[0] = False
            ctx.cov.update(saved)
            if not ctx.violations:
                m = res["mism"][0]
                broken.append(dict(kind="correspondence", name="corr:C17/" + m["route"], first_diverging_case=m, n_diverging=len(res["mism"])))
    finally:
        shutil.rmtree(tmp, ignore_errors=True)


def _run(ctx, broken, tmp, bases=None, faults=None, extended=False):
    t0 = time.time()
    if bases is None:
        quick = ctx.quick and not extended
        saved_tier = ctx.tier
        ctx.tier = "quick" if quick else "thorough"
        try:
            bases = make_bases(ctx, tmp)
            faults = gen_faults(ctx, bases)
        finally:
            ctx.tier = saved_tier
    sparse = ctx.quick and not extended
    state = {}
    with ThreadPoolExecutor(max_workers=8) as ex:          # (the zstd / xz reference decoders are child processes)
        exps = list(ex.map(lambda f: expectation(bases[f[0]], dict(cut=f[1], flip=f[2], fault_at=f[3])), faults))
    dist = {}
    terms = []       # (route, fault index, Gallina term)

    def count(route, i, o):
        k = "%s/%s/%s/%s" % (route, bases[faults[i][0]].codec, faults[i][4], o["kind"])
        dist[k] = dist.get(k, 0) + 1

    # --- route 0: probe (codec contract + the decoded stream of every case); the xz library alone on the xz cases
    probe = ctx.vh_robust("c17", vh_cases(ctx, bases, faults, "probe"), timeout=900, one_timeout=120)
    # a flipped bit which the reference decoder refuses but which leaves the DECODED TEXT complete and intact (redundant bits of a zstd frame
    # which klauspost/compress does not verify: seen in round 3): everything is delivered, nothing was "processed partially"; both verdicts pass
    for i, (f, o) in enumerate(zip(faults, probe)):
        b = bases[f[0]]
        if exps[i] == ("fatal",) and f[3] < 0 and f[1] < 0 and not b.big and o.get("open") == "ok" and o.get("fin") == "eof" and decoded_of(o) == b.data and len(b.data) > 0:
            exps[i] = ("ok-or-fatal", b.ids)
            ctx.cov["damage_outside_the_data_accepted"] = ctx.cov.get("damage_outside_the_data_accepted", 0) + 1
    xzi = [i for i, f in enumerate(faults) if bases[f[0]].codec == "xz" and f[3] < 0]
    xzo = ctx.vh_robust("c17", vh_cases(ctx, bases, [faults[i] for i in xzi], "xzlib"), timeout=900, one_timeout=120)
    known = {}
    for i, o in zip(xzi, xzo):
        if exps[i] and exps[i][0] == "fatal" and o.get("kind") == "ok" and o.get("open") == "ok" and o.get("fin") == "eof":
            # the reference decoder rejects the container, the library ends it with io.EOF: caught by xopen's footer guard since
            # round 2, except a flipped index indicator (the footer is intact)
            f = faults[i]
            bb = bases[f[0]]
            if f[1] < 0 and f[2] >= 0 and f[2] // 8 == xz_index_offset(bb.blob):
                known[i] = KNOWN_XZ_IDX
            elif f[1] < 0 and f[2] >= 0 and xz_ends_complete(mutate(bb.blob, -1, f[2])):
                known[i] = KNOWN_XZ_BH          # damage inside a block, the stream still ends with a valid index and footer
            else:
                known[i] = KNOWN_XZ
    for i, (f, e, o) in enumerate(zip(faults, exps, probe)):
        b = bases[f[0]]
        count("probe", i, o)
        if o.get("kind") != "ok":
            report(ctx, state, "crash", "probe", b, f, o, e)
        elif e and e[0] == "fatal" and o.get("open") == "ok" and o.get("fin") == "eof":
            report(ctx, state, "codec_contract", "probe", b, f, o, e,
                   dict(note="the decompressor ended a damaged container with a clean io.EOF (codec contract of the model broken)"), known=known.get(i))
        elif e and e[0] == "fatal" and o.get("open") == "nocontent":
            report(ctx, state, "nocontent", "probe", b, f, o, e, dict(note="Buf reports a damaged input as ErrNoContent (empty file)"), known=known.get(i))

    def parsers_business(i):
        """The decompressor ended the stream cleanly on bytes which are not the beginning of the text (a flipped bit in data which no checksum
        covers: zstd frame without checksum, xz block without check): whether such a text is a valid sequence file is for the record parsers to
        say, not for this property or its model (the byte-level chunk route is still compared)."""
        o, b = probe[i], bases[faults[i][0]]
        if b.big or b.codec == "raw" or faults[i][3] >= 0 or sniffed_codec(mutate(b.blob, faults[i][1], faults[i][2])) != b.codec:
            return False
        return o.get("open") == "ok" and o.get("fin") == "eof" and not b.data.startswith(decoded_of(o))

    tm = {"probe_s": round(time.time() - t0, 1)}
    # --- route 1: in-process, production sizes (reader = body of ReadSequencesFromFile on a reader; file = ReadSequencesFromFile)
    routes = {}
    routes["reader"] = (list(range(len(faults))), ctx.vh_robust("c17", vh_cases(ctx, bases, faults, "reader"), timeout=1800, one_timeout=120))
    fidx = [i for i, f in enumerate(faults) if f[3] < 0 and (f[4] != "cut" or not sparse or i % 3 == 0)]
    routes["file"] = (fidx, ctx.vh_robust("c17", vh_cases(ctx, bases, [faults[i] for i in fidx], "file"), timeout=1800, one_timeout=120))
    for route, (idx, obs) in routes.items():
        for i, o in zip(idx, obs):
            count(route, i, o)
            if not judge(exps[i], o):
                report(ctx, state, faults[i][4], route, bases[faults[i][0]], faults[i], o, exps[i], known=known.get(i))
            if not bases[faults[i][0]].big and not parsers_business(i):      # 1.3 MB of text per term: the big cases are judged by the direct oracle only
                terms.append((route, i, o, case_term(probe[i], 1048576, 1048576, recognised(decoded_of(probe[i])), obs_records(o, probe[i], bases[faults[i][0]].fmt), faults[i][0], bases[faults[i][0]].data)))

    tm["reader_file_s"] = round(time.time() - t0, 1)
    # --- route 2: ReadSeqFileChunk with small buffers behind Buf (FASTA bases only: the splitter is EndOfLastFastaEntry)
    cidx = [i for i, f in enumerate(faults) if bases[f[0]].fmt == "fasta" and not bases[f[0]].big]
    ccases = vh_cases(ctx, bases, [faults[i] for i in cidx], "chunk", pick_b=True)
    cobs = ctx.vh_robust("c17", ccases, timeout=1800, one_timeout=120)
    for i, c, o in zip(cidx, ccases, cobs):
        b, e = bases[faults[i][0]], exps[i]
        count("chunk", i, o)
        good = True
        if o["kind"] not in ("ok", "fatal"):
            good = False
        elif e and e[0] == "fatal":
            good = o["kind"] == "fatal"
        elif e and e[0] in ("ok", "ok-or-fatal"):
            good = (o["kind"] == "ok" and strip_nl(base64.b64decode(o.get("chunks", ""))) == strip_nl(b.data)) or (e[0] == "ok-or-fatal" and o["kind"] == "fatal")
        elif e and e[0] == "empty":
            good = o["kind"] == "ok" and o.get("nchunks", 0) == 0
        if not good:
            report(ctx, state, faults[i][4], "chunk", b, faults[i], o, e, dict(B=c["b"]), known=known.get(i))
        terms.append(("chunk", i, dict(o, B=c["b"]), case_term(probe[i], None, c["b"], True, obs_chunks(o), faults[i][0], b.data)))

    nhttp = http_route(ctx, bases, state, dist) if len(bases) > 1 else 0
    tm["chunk_s"] = round(time.time() - t0, 1)
    # --- route 3: the obiconvert binary, file argument and stdin
    bindir, err = ctx.build_cmds(["obiconvert"])
    nbin = 0
    if bindir is None:
        broken.append(dict(kind="command-build", detail=err))
    else:
        handmade = lambda b: b.name.startswith("xz") or b.name in VARIANT_NAMES       # (quick: every second cut of these through the binary)
        bidx = [i for i, f in enumerate(faults) if f[3] < 0 and (not sparse or f[4] != "cut" or (bases[f[0]].fmt == "fasta" and not handmade(bases[f[0]])) or i % (2 if handmade(bases[f[0]]) else 4) == 0)]
        jobs = [(i, stdin) for i in bidx for stdin in (False, True)]

        def one(j):
            k, (i, stdin) = j
            f = faults[i]
            return run_binary(bindir, mutate(bases[f[0]].blob, f[1], f[2]), bases[f[0]].fmt, stdin, tmp, k)
        with ThreadPoolExecutor(max_workers=12) as ex:
            res = list(ex.map(one, list(enumerate(jobs))))
        nbin = len(res)
        for (i, stdin), o in zip(jobs, res):
            route = "bin_stdin" if stdin else "bin_file"
            count(route, i, o)
            if not judge(exps[i], o):
                report(ctx, state, faults[i][4], route, bases[faults[i][0]], faults[i], o, exps[i], known=known.get(i))
            if not bases[faults[i][0]].big and not parsers_business(i):      # 1.3 MB of text per term: the big cases are judged by the direct oracle only
                terms.append((route, i, o, case_term(probe[i], 1048576, 1048576, recognised(decoded_of(probe[i])), obs_records(o, probe[i], bases[faults[i][0]].fmt), faults[i][0], bases[faults[i][0]].data)))

    tm["binary_s"] = round(time.time() - t0, 1)
    # --- correspondence with the model (repaired error handling)
    mism = []
    uniq = {}                     # the four production-size routes give the same term for the same fault when they agree
    ctx.cov["model_terms_skipped_too_long"] = sum(1 for t in terms if t[3] is None)
    terms = [t for t in terms if t[3] is not None]
    for k, t in enumerate(terms):
        uniq.setdefault(t[3], []).append(k)
    uterms = list(uniq)
    budget = 60_000_000       # characters of Gallina source per run (about 20 ms of coqc per kB)
    stride = max(1, -(-sum(len(t) for t in uterms) // budget))
    if stride > 1:
        # too much for one run: every short term, one long term (more than 2 kB of decoded data) out of `stride`
        uterms = [t for k, t in enumerate(uterms) if len(t) < 6000 or k % stride == 0]
        ctx.cov["model_terms_sampled"] = "long terms 1/%d" % stride
    ctx.cov["longest_terms"] = sorted(((len(t), t[:80]) for t in uterms), reverse=True)[:3]
    label = "%s%d" % ("ext" if extended else "main", os.getpid())      # private file names: concurrent runs of this check do not collide
    try:
        bad, err = ctx.correspond(label, imports_for(bases), uterms, shard=200)
    finally:
        cleanup_coq(ctx, label)
    ctx.cov["model_terms_distinct"] = len(uterms)
    if bad is None:
        broken.append(dict(kind="correspondence", detail=err))
    else:
        for k in [k for u in bad for k in uniq[uterms[u]]]:
            route, i, o, term = terms[k]
            mism.append(dict(route=route, case=describe(bases[faults[i][0]], faults[i]), implementation=o, probe=dict(probe[i], data=None),
                             model_term=term if len(term) < 2000 else term[:2000] + "..."))

    # --- the xz end-of-stream guard of xopen: xz_guard (raw bytes, verdict of the library alone) against what Buf answers
    ctx.cov["xz_library_clean_eof_on_damaged"] = len(known)
    xterms, xidx = [], []
    xdefs = ["Definition pre (n : N) (l : list N) : list N := fst (fst (take n l))."]
    for k, b in enumerate(bases):
        if b.codec == "xz" and not b.big and not b.noflip:
            xdefs.append("Definition X%d : list N := %s." % (k, coq_bytes(b.blob)))
    for i, o in zip(xzi, xzo):
        b = bases[faults[i][0]]
        if b.big or b.noflip or o.get("kind") != "ok" or probe[i].get("kind") != "ok":
            continue          # (noflip: 64 KiB of stream padding, too long for the model's unary window arithmetic under vm_compute: direct oracle only)
        raw = mutate(b.blob, faults[i][1], faults[i][2])
        if sniffed_codec(raw) != "xz":
            continue                      # the magic bytes are damaged: the input is not read as xz
        lit = "(pre %d X%d)" % (len(raw), faults[i][0]) if faults[i][2] < 0 else "[%s]" % ";".join(str(x) for x in raw)
        eof = probe[i].get("open") == "nocontent" or (probe[i].get("open") == "ok" and probe[i].get("fin") == "eof")
        xterms.append("mkxz %s %s %s %s" % (lit, "true" if o.get("open") == "ok" else "false", "REof" if o.get("fin") == "eof" else "ROther",
                                            "true" if eof else "false"))
        xidx.append(i)
    if xterms:
        xbad, xerr = ctx.correspond(label + "xz", IMPORTS + "\n" + "\n".join(xdefs), xterms, fn="xz_mismatches", shard=400)
        cleanup_coq(ctx, label + "xz")
        ctx.cov["xz_guard_model_terms"] = len(xterms)
        if xbad is None:
            broken.append(dict(kind="correspondence", detail=xerr))
        else:
            for u in xbad:
                i = xidx[u]
                mism.append(dict(route="xzguard", case=describe(bases[faults[i][0]], faults[i]), implementation=dict(probe[i], data=None),
                                 library_alone=xzo[xzi.index(i)], model_term=xterms[u][:2000]))

    mism += sel_correspond(ctx, broken, bases, faults, probe)
    tm["coq_s"] = round(time.time() - t0, 1)
    # --- route 4: every other way a command opens a (compressed) input: explicit formats, EMBL / GenBank / ecoPCR / CSV, stdin
    if bindir is not None and len(bases) > 1:
        mism += cmd_matrix(ctx, broken, tmp, bindir, state, dist, extended)
        mjobs = multi_file_clause(ctx, tmp, bindir, state, dist)
        tm["cmd_s"] = round(time.time() - t0, 1)
        if not extended:
            mjobs += glue_clause(ctx, tmp, bindir, state, dist)
        mism += multi_correspond(ctx, broken, mjobs)
        if not extended:
            mism += expand_clause(ctx, tmp, broken, state, dist)
        tm["glue_s"] = round(time.time() - t0, 1)
    ctx.cov["cumulative_times"] = tm
    ctx.cov["run_s"] = round(time.time() - t0, 1)
    ctx.cov["evaluations"] = len(probe) + len(xzo) + sum(len(v[1]) for v in routes.values()) + len(cobs) + nbin + nhttp
    ctx.cov["distinct_nontrivial"] = len({(bases[f[0]].path, f[1], f[2], f[3]) for f, e in zip(faults, exps) if e and e[0] == "fatal"})
    ctx.cov["faults"] = len(faults)
    ctx.cov["rule"] = ("fault = (container file, truncation point | flipped bit | byte offset of an injected read error); non-trivial = the reference decoder "
                       "rejects the damaged container (or a read error is injected), so the property demands a fatal outcome; distinct = distinct "
                       "(file, cut, bit, offset); every fault goes through the probe / reader / chunk(small B) routes, the non-injected ones also through "
                       "ReadSequencesFromFile and the obiconvert binary (file argument and stdin)")
    ctx.cov["distribution"] = dict(sorted(dist.items()))
    ctx.cov["containers"] = {"%s.%s.%s" % (b.name, b.fmt, b.codec): dict(bytes=len(b.blob), text_bytes=len(b.data), records=len(b.ids)) for b in bases}
    ctx.cov["oracle_failures"] = state.get("nviol", {})
    ctx.cov["known_finding_witnesses"] = state.get("known", 0)
    ctx.cov["model_vs_impl_mismatches"] = len(mism)
    if mism and ctx.violations:
        ctx.cov["note"] = "model and implementation diverge on %d cases (violations reported by the direct oracle)" % len(mism)
    picks = [0, len(faults) // 3, len(faults) // 2, len(faults) - 1]
    ctx.samples = [dict(fault=dict(describe(bases[faults[i][0]], faults[i]), container_b64=None, text_b64=None), expected=exps[i],
                        probe=dict(probe[i], data=None), reader_route=routes["reader"][1][i]) for i in picks if i < len(faults)]
    return dict(bases=bases, faults=faults, exps=exps, probe=probe, routes=routes, chunk=(cidx, ccases, cobs), mism=mism, terms=terms)


def replay_cmd(ctx, rp, tmp):
    c, v = rp["case"], rp["variant"]
    base = RawBase(tmp, c)
    bindir, err = ctx.build_cmds(["obiconvert"])
    if bindir is None:
        print("replay: cannot build obiconvert:", err)
        return
    flags = rp.get("flags", [])
    if v[1] == "eio":
        exp = ("fatal",)
        o = run_binary(bindir, base.blob[:c["cut"]], base.fmt, True, tmp, 1, flags, eio=True, timeout=30)
    else:
        exp = expectation(base, dict(cut=c["cut"], flip=c["flip"], fault_at=-1))
        o = run_binary(bindir, mutate(base.blob, c["cut"], c["flip"]), base.fmt, v[1] == "stdin", tmp, 1, flags, timeout=30)
    print("replay: obiconvert %s on %s (%s, %s) cut=%s flip=%s  expected=%s" % (" ".join(flags), c["file"], v[0], v[1], c["cut"], c["flip"], exp[0] if exp else None))
    print("  outcome:", {k: (x if k != "ids" else x[:80]) for k, x in o.items()})
    print("  oracle:", "satisfied" if judge(exp, o) else "VIOLATED")


def replay(ctx, rp):
    if "case" not in rp:
        print("replay: nothing to re-run in this file (%s)" % rp.get("reason", rp.get("kind")))
        return
    tmp = tempfile.mkdtemp(prefix="c17r_")
    try:
        if rp.get("route") == "cmd":
            return replay_cmd(ctx, rp, tmp)
        if rp.get("route") == "glue":
            return replay_glue(ctx, rp, tmp)
        if rp.get("route") == "expand":
            return replay_expand(ctx, rp, tmp)
        if rp.get("route") in ("multi", "codec-selection"):
            print("replay: divergence between the model and the commands (%s): the file holds the inputs and both verdicts; nothing to re-run" % rp.get("route"))
            return
        if rp.get("route") == "http":
            c = rp["case"]
            base = RawBase(tmp, c)
            o = ctx.vh_robust("c17", [dict(mode="http", path=base.path, cut=c["cut"], flip=-1, fault_at=-1, b=0, step=0, eager=False, nodata=False,
                                           fault_kind=c.get("fkind", ""))], timeout=120, one_timeout=60)[0]
            exp = rp.get("expected")
            print("replay: %s served over HTTP, cut=%s fault=%s expected=%s" % (c["file"], c["cut"], c.get("fkind") or "none", exp and exp[0]))
            print("  outcome:", {k: (x if k != "ids" else x[:80]) for k, x in o.items()})
            print("  oracle:", "satisfied" if judge(tuple(exp) if exp else None, o) else "VIOLATED")
            return
        c = rp["case"]
        base = RawBase(tmp, c)
        f = (0, c["cut"], c["flip"], c["fault_at"], c.get("kind", "replay"), dict(step=c.get("step", 0), eager=c.get("eager", False), fkind=c.get("fkind", "")))
        broken = []
        res = _run(ctx, broken, tmp, bases=[base], faults=[f])
        print("replay: %s cut=%s flip=%s fault_at=%s  expected=%s" % (c["file"], c["cut"], c["flip"], c["fault_at"], res["exps"][0]))
        pr = dict(res["probe"][0])
        pr.pop("data", None)
        print("  probe (Buf + read all):", pr)
        for route, i, o, term in res["terms"]:
            print("  %-9s -> %s" % (route, {k: v for k, v in o.items() if k not in ("chunks",)}))
        print("  model:", "MISMATCH on " + ", ".join(m["route"] for m in res["mism"]) if res["mism"] else "agrees on every route")
        if broken:
            print("  broken:", broken)
    finally:
        shutil.rmtree(tmp, ignore_errors=True)
