"""C17 — truncated or corrupt compressed input is reported, never silently accepted."""
import base64, bz2, gzip, json, lzma, os, re, shutil, subprocess, tempfile, time
from concurrent.futures import ThreadPoolExecutor

PROPS = ["C17/Props.v"]
META = dict(
    text="Rocq theorems over an executable model of the read path (codec wrapper and first-rune test of xopen.Buf, xopen's end-of-stream guard for xz "
         "(tail tracker, footer and index check), io.ReadFull, the 1 MiB format sniffer, the loop of ReadSeqFileChunk for every buffer size B>=2 and every "
         "record splitter that cuts inside the buffer, the transcribed EndOfLastFastaEntry): a stream that ends with anything but a clean EOF makes the "
         "command fatal, a clean stream delivers all its bytes; an xz container which does not end with a valid index and stream footer is fatal whatever "
         "the xz library answers; ErrNoContent (empty input) only for an empty stream which ends cleanly. Round 2 adds a model of readers with a read "
         "schedule (source with per-call sizes and a final error delivered alone or together with the last bytes, bytes.Reader, io.MultiReader, "
         "bufio.Reader): io.ReadFull as a loop of Read calls refines the abstract one, OBIMimeTypeGuesser (detection on the whole zero padded buffer, "
         "MultiReader replay) loses and duplicates no byte and keeps the way the stream ends, for every stream, schedule and consumer. Every run ties the "
         "model to the code: every truncation point (also of containers of an empty text), random and trailer single-bit flips, read errors injected "
         "after k bytes (alone or with n > 0, random read schedules) on small gzip/bzip2/xz/zstd FASTA/FASTQ files, two-member containers of 0.5-3 MiB "
         "whose first member ends at a MiB boundary -1/0/+1 of the decoded text cut inside the second member, go through the real "
         "Buf/OBIMimeTypeGuesser/ReadSeqFileChunk (one child process per case, production and small buffers) and through the obiconvert binary; a "
         "command matrix runs obiconvert on FASTA/FASTQ/EMBL/GenBank/ecoPCR/CSV inputs x codec x format guessed or imposed x file argument / stdin / "
         "stdin failing with a genuine EIO after k bytes; a direct oracle built on reference decoders (Python gzip/bz2/lzma, zstd CLI) demands `fatal` "
         "for every damaged container and `ok with exactly all records` for every intact one.",
    note="Assumed, checked on every case of every run but not proved: the codec contract (a damaged container never decodes to a clean EOF) for gzip, "
         "bzip2, zstd, and for xz containers which end with a valid index and footer (ulikunitz/xz ends many truncations with a clean EOF: xopen now "
         "demands the index and the stream footer at the end of the compressed bytes, proved to reject every other container; damage INSIDE a block "
         "which the library ends with a clean EOF while index and footer are intact is the recorded known finding xz-corrupt-block-clean-eof). The schedule-level model "
         "is tied to the abstract one by theorems, not evaluated per run (the real code is run under random schedules and compared with the abstract "
         "model). Format detection (mimetype library) and the record parsers (EMBL, GenBank, ecoPCR, CSV, FASTA/FASTQ records) are outside the model "
         "(detection is a per-case boolean; the command matrix compares only the verdict fatal / all records). The xz index larger than 64 KiB "
         "(thousands of blocks) is not checked by the guard. Not exercised: http(s) and '|command' inputs of Ropen, the taxonomy dump / ngsfilter / "
         "id-list / config readers (plain os.Open, no decompression: a compressed file is a syntax error for them).")
TRUSTED = [
    "codec contract: the decompressors (klauspost/compress gzip and zstd, dsnet/bzip2) never end a truncated/corrupt container with io.EOF; for xz "
    "(ulikunitz/xz) only for containers which end with a valid index and stream footer, the others are rejected by xopen's guard (theorem "
    "C17_xz_guard_rejects_incomplete) (validated on every case of the run by the probe route against the Python/zstd reference decoders, not proved)",
    "format detection (gabriel-vasile/mimetype + the FASTA/FASTQ regular expressions) is a Section variable / per-case boolean of the model",
    "bufio.Reader, io.MultiReader, bytes.Reader and io.ReadFull are modelled from their source (reader, read, readfull_s) and proved transparent "
    "(C17_readfull_schedule_independent, C17_sniffer_conserves_stream); Peek/ReadRune/UnreadRune of xopen.Buf are modelled as the first-byte test only",
    "CRC-32 of the xz footer/index is the bitwise IEEE polynomial (crc_bits), validated against hash/crc32 by the xz-guard correspondence on every run",
]
ZSTD = "/root/miniconda/bin/zstd"
CODECS = ("gz", "bz2", "xz", "zst", "raw")


# ------------------------------------------------------------------ generators
def gen_fasta(rng, n, multiline=False):
    out = []
    for i in range(n):
        seq = "".join(rng.choice("acgt") for _ in range(rng.randrange(12, 70)))
        if multiline and len(seq) > 30:
            seq = seq[:30] + "\n" + seq[30:]
        out.append(">s%d {\"k\":%d}\n%s\n" % (i, i, seq))
    return "".join(out).encode()


def gen_fastq(rng, n):
    out = []
    for i in range(n):
        l = rng.randrange(12, 60)
        seq = "".join(rng.choice("acgt") for _ in range(l))
        qual = "".join(rng.choice("ABCDEFGHI") for _ in range(l))
        out.append("@q%d {\"k\":%d}\n%s\n+\n%s\n" % (i, i, seq, qual))
    return "".join(out).encode()


def records_of(data, fmt):
    """id:length; of every record of a complete text (what the harness prints for delivered records)."""
    s = data.decode("latin1")
    ids = []
    if fmt == "fasta":
        for rec in s.split(">")[1:]:
            lines = rec.split("\n")
            ids.append("%s:%d;" % (lines[0].split(" ")[0], sum(len(x) for x in lines[1:])))
    else:
        lines = s.split("\n")
        for k in range(0, len(lines) - 3, 4):
            ids.append("%s:%d;" % (lines[k][1:].split(" ")[0], len(lines[k + 1])))
    return ids


def compress(codec, data):
    if codec == "gz":
        return gzip.compress(data, mtime=0)
    if codec == "bz2":
        return bz2.compress(data)
    if codec == "xz":
        return lzma.compress(data)
    if codec == "zst":
        return subprocess.run([ZSTD, "-c", "-q"], input=data, capture_output=True, check=True).stdout
    return data


def ref_decode(codec, blob):
    """Reference decoder: the complete decoded bytes, or None when the container is rejected."""
    try:
        if codec == "gz":
            return gzip.decompress(blob)
        if codec == "bz2":
            return bz2.decompress(blob)
        if codec == "xz":
            return lzma.decompress(blob)
        if codec == "zst":
            p = subprocess.run([ZSTD, "-dc", "-q"], input=blob, capture_output=True, timeout=20)
            return p.stdout if p.returncode == 0 else None
    except Exception:
        return None
    return blob


def mutate(blob, cut, flip):
    b = bytearray(blob)
    if flip >= 0 and flip // 8 < len(b):
        b[flip // 8] ^= 1 << (flip % 8)
    if 0 <= cut < len(b):
        b = b[:cut]
    return bytes(b)


MAGIC = dict(gz=b"\x1f\x8b", zst=b"\x28\xb5\x2f\xfd", xz=b"\xfd7zXZ\x00", bz2=b"BZh")


def sniffed_codec(blob):
    """The codec xopen.Buf selects from the magic bytes (same order, same short-file rule)."""
    for codec in ("gz", "zst", "xz", "bz2"):
        m = MAGIC[codec]
        if len(blob) < len(m):
            return "raw"
        if blob.startswith(m):
            return codec
    return "raw"


def recognised(data):
    return bool(re.match(rb"^>[^ ]", data) or re.match(rb"^@[^ ].*\n[^ ]+\n\+", data))


class Base:
    def __init__(self, ctx, tmp, name, codec, fmt, data, blob=None, ids=None, m1=None):
        self.name, self.codec, self.fmt, self.data = name, codec, fmt, data
        self.blob = compress(codec, data) if blob is None else blob
        self.path = os.path.join(tmp, "%s.%s.%s" % (name, fmt, codec))
        with open(self.path, "wb") as f:
            f.write(self.blob)
        self.ids = records_of(data, fmt) if ids is None else ids
        self.big = len(data) > 100000      # no Gallina term for these (judged by the direct oracle only)
        self.m1 = m1                        # multi-member container: length of the first member


def compress_members(codec, parts):
    """Concatenated members / frames / streams: every one of the four decoders reads them as one stream."""
    return b"".join(compress(codec, p) for p in parts)


def expectation(base, case):
    """Direct oracle: ('ok', ids) | ('fatal',) | ('empty',) | None (unconstrained).
    Damaged container (reference decoder rejects it or gives other bytes) or injected fault => fatal;
    intact => ok with exactly all records; zero bytes of input => empty input, ok with no record."""
    blob = mutate(base.blob, case["cut"], case["flip"])
    if case["fault_at"] >= 0:
        return ("fatal",)
    if len(blob) == 0:
        return ("empty",)
    if blob == base.blob:
        return ("ok", base.ids)
    codec = sniffed_codec(blob)
    if codec != base.codec or codec == "raw":
        # the damage hit the magic bytes (or the file is plain text): the input is now another, uncompressed, file;
        # what it must give is a matter of the format parsers (C18), except that the complete original is never expected.
        if base.codec != "raw":
            return ("not-ok-all", base.ids)
        return None
    dec = ref_decode(codec, blob)
    if dec is None:
        return ("fatal",)
    if dec == base.data:
        return ("ok", base.ids)
    return ("not-ok-all", base.ids)       # decodes, to something else (checksums make this practically impossible)


def same_records(ids, expected):
    """Same records, as a multiset: the order of the batches is another property's business."""
    return sorted(x for x in ids.split(";") if x) == sorted(x.rstrip(";") for x in expected)


def judge(exp, o):
    """True when observation o satisfies expectation exp."""
    if exp is None:
        return True
    if exp[0] == "not-ok-all" and o["kind"] == "panic":
        return True                       # a valid container of ANOTHER text (cut at a member boundary, ...): what the parsers do with it is not this property's
    if o["kind"] not in ("ok", "fatal"):
        return False                      # timeout / panic / crash: neither a report nor a success
    if exp[0] == "fatal":
        return o["kind"] == "fatal"
    if exp[0] == "empty":
        return o["kind"] == "ok" and o.get("nrec", 0) == 0
    if exp[0] == "ok":
        return o["kind"] == "ok" and same_records(o.get("ids", ""), exp[1])
    if exp[0] == "not-ok-all":
        return not (o["kind"] == "ok" and same_records(o.get("ids", ""), exp[1]))
    return False


# ------------------------------------------------------------------ binary route
def run_binary(bindir, blob, fmt, stdin, tmp, k, flags=(), eio=False, timeout=60):
    o = run_binary_once(bindir, blob, fmt, stdin, tmp, k, flags, eio, timeout)
    if o["kind"] == "timeout":          # loaded machine: once more before the case is declared hung
        o = run_binary_once(bindir, blob, fmt, stdin, tmp, k, flags, eio, timeout)
    return o


_libc = None


def failing_stdin(data):
    """A file descriptor whose reads deliver `data` and then fail with EIO: /proc/self/mem positioned on a copy of the data
    which ends flush with an unmapped page (a genuine read error of the kernel on the real standard input of the command)."""
    import ctypes
    global _libc
    if _libc is None:
        _libc = ctypes.CDLL(None, use_errno=True)
        _libc.mmap.restype = ctypes.c_void_p
        _libc.mmap.argtypes = [ctypes.c_void_p, ctypes.c_size_t, ctypes.c_int, ctypes.c_int, ctypes.c_int, ctypes.c_long]
        _libc.munmap.argtypes = [ctypes.c_void_p, ctypes.c_size_t]
    page = 4096
    n = (len(data) + page - 1) // page + 1
    addr = _libc.mmap(None, (n + 1) * page, 3, 0x22, -1, 0)          # PROT_READ|PROT_WRITE, MAP_PRIVATE|MAP_ANONYMOUS
    if addr in (None, ctypes.c_void_p(-1).value):
        raise OSError("mmap failed")
    _libc.munmap(addr + n * page, page)
    start = addr + n * page - len(data)
    ctypes.memmove(start, data, len(data))
    fd = os.open("/proc/self/mem", os.O_RDONLY)
    os.lseek(fd, start, os.SEEK_SET)
    return fd, (addr, n * page)


def run_binary_once(bindir, blob, fmt, stdin, tmp, k, flags=(), eio=False, timeout=60):
    path = os.path.join(tmp, "b%d.dat" % k)
    argv = [os.path.join(bindir, "obiconvert")] + list(flags)
    try:
        if eio:
            fd, (addr, size) = failing_stdin(blob)
            try:
                p = subprocess.run(argv, stdin=fd, capture_output=True, timeout=timeout)
            finally:
                os.close(fd)
                _libc.munmap(addr, size)
        else:
            with open(path, "wb") as f:
                f.write(blob)
            try:
                if stdin:
                    with open(path, "rb") as f:
                        p = subprocess.run(argv, stdin=f, capture_output=True, timeout=timeout)
                else:
                    p = subprocess.run(argv + [path], capture_output=True, timeout=timeout)
            finally:
                os.unlink(path)
    except subprocess.TimeoutExpired:
        return dict(kind="timeout", nrec=0)
    out = p.stdout
    ids = []
    if out.startswith(b">"):
        ids = records_of(out, "fasta")
    elif out.startswith(b"@"):
        # fastq output: 4 lines per record
        ids = records_of(out, "fastq")
    if p.returncode == 0:
        return dict(kind="ok", nrec=len(ids), ids="".join(ids))
    if p.returncode == 1 or (p.returncode == 2 and b"level=panic" in p.stderr and b"runtime error" not in p.stderr):
        # status 2 with a logrus panic entry: log.Panicf(read error) of the ecoPCR reader, a report all the same
        return dict(kind="fatal", nrec=len(ids), err=p.stderr.decode("utf8", "replace")[-160:])
    return dict(kind="panic", nrec=len(ids), err="exit status %s: %s" % (p.returncode, p.stderr.decode("utf8", "replace")[-300:]))


# ------------------------------------------------------------------ every other way a command opens an input (route cmd)
def _seq(rng, n):
    return "".join(rng.choices("acgt", k=n))


def gen_format(rng, fmt, n):
    """(text, ['id:length;', ...]) of n records in the given format."""
    if fmt == "fasta":
        t = gen_fasta(rng, n)
        return t, records_of(t, "fasta")
    if fmt == "fastq":
        t = gen_fastq(rng, n)
        return t, records_of(t, "fastq")
    out, ids = [], []
    if fmt == "ecopcr":
        out.append("#@ecopcr-v2\n#\n# ecoPCR version 1.0\n# direct  strand oligo1 : GGGCAATCCTGAGCCAA               ; oligo2c :               GGATAGGTGCAGAGACTCAATGG\n"
                   "# reverse strand oligo2 : CCATTGAGTCTCTGCACCTATCC         ; oligo1c :         TTGGCTCAGGATTGCCC\n# max error count by oligonucleotide : 3\n"
                   "# optimal Tm : 50.00\n# database : x\n# output in superkingdom mode\n#\n")
    if fmt == "csv":
        out.append("id,count,sequence\n")
    for i in range(n):
        s = _seq(rng, 120)
        if fmt == "embl":
            out.append("ID   E%d; SV 1; linear; genomic DNA; STD; PLN; 120 BP.\nXX\nAC   E%d;\nXX\nDE   test %d\nXX\nOS   Homo sapiens\nOC   Eukaryota.\nXX\n"
                       "FH   Key             Location/Qualifiers\nFT   source          1..120\nFT                   /db_xref=\"taxon:9606\"\nXX\n"
                       "SQ   Sequence 120 BP;\n     %s %s       60\n     %s %s      120\n//\n" % (i, i, i, s[:30], s[30:60], s[60:90], s[90:]))
            ids.append("E%d:120;" % i)
        elif fmt == "genbank":
            out.append("LOCUS       G%d                 120 bp    DNA     linear   PLN 01-JAN-2000\nDEFINITION  test %d.\nACCESSION   G%d\nVERSION     G%d.1\n"
                       "SOURCE      Homo sapiens\n  ORGANISM  Homo sapiens\n            Eukaryota.\nFEATURES             Location/Qualifiers\n"
                       "     source          1..120\n                     /db_xref=\"taxon:9606\"\nORIGIN      \n        1 %s\n       61 %s\n//\n"
                       % (i, i, i, i, " ".join(s[k:k + 10] for k in range(0, 60, 10)), " ".join(s[k:k + 10] for k in range(60, 120, 10))))
            ids.append("G%d:120;" % i)
        elif fmt == "ecopcr":
            out.append(" | ".join(["AC%06d" % i, "1000", "9606", "species", "9606", "Homo sapiens", "9605", "Homo", "9604", "Hominidae", "2759", "Eukaryota", "D",
                                   "GGGCAATCCTGAGCCAA", "0", "55.0", "CCATTGAGTCTCTGCACCTATCC", "0", "56.0", "60", s[:60], "test %d" % i]) + "\n")
            ids.append("AC%06d:60;" % i)
        elif fmt == "csv":
            out.append("c%d,%d,%s\n" % (i, i + 1, s[:40]))
            ids.append("c%d:40;" % i)
    return "".join(out).encode(), ids


CMD_FORMATS = ("fasta", "fastq", "embl", "genbank", "ecopcr", "csv")
CMD_FLAG = dict(fasta="--fasta", fastq="--fastq", embl="--embl", genbank="--genbank", ecopcr="--ecopcr")      # no flag for CSV: guessed only


def cmd_matrix(ctx, broken, tmp, bindir, state, dist, extended=False):
    """obiconvert on intact / cut / corrupt inputs of every format it reads, with the format guessed or given, as a file argument
    or on the standard input (redirected file, and a standard input whose read fails with EIO after k bytes). Direct oracle:
    damaged => reported (non-zero status in time), intact => status 0 with exactly all records; model: verdict of command_gen."""
    rng = ctx.rng
    quick = ctx.quick and not extended
    cb, cf = [], []          # bases, (base index, cut, flip, -1, tag, variant)
    for fmt in CMD_FORMATS:
        text, ids = gen_format(rng, fmt, 6)
        codecs = ("gz", rng.choice(("bz2", "xz", "zst")), "raw") if quick else ("gz", "bz2", "xz", "zst", "raw")
        for codec in codecs:
            cb.append(Base(ctx, tmp, "cmd", codec, fmt, text, ids=ids))
    # more than 1 MiB of text: the fault is met by the parser, after the sniffer
    for fmt in (("embl", "csv") if quick else ("embl", "genbank", "csv", "ecopcr")):
        text, ids = gen_format(rng, fmt, 9000 if fmt == "embl" else 8000 if fmt == "genbank" else 22000 if fmt == "csv" else 5000)
        for codec in (("gz",) if quick else ("gz", "zst", "xz", "bz2")):
            cb.append(Base(ctx, tmp, "cmdbig", codec, fmt, text, ids=ids))
    for bi, b in enumerate(cb):
        n = len(b.blob)
        variants = [(g, st) for g in (("guess", "explicit") if b.fmt in CMD_FLAG else ("guess",)) for st in ("file", "stdin")]
        if b.big:
            variants = [v for v in variants if v[1] == "file" or not quick]
        fl = [(-1, -1, "intact")]
        if b.codec != "raw":
            if b.big:
                fl += [(n - n // 10, -1, "cut"), (n - 1, -1, "cut")]
            else:
                fl += [(HDRLEN[b.codec], -1, "cut"), (n // 2, -1, "cut"), (n - 1, -1, "cut"), (-1, 8 * (n - 1 - rng.randrange(0, 4)) + rng.randrange(0, 8), "tflip")]
                if not quick:
                    fl += [(c, -1, "cut") for c in rng.sample(range(1, n), 6)] + [(-1, rng.randrange(0, 8 * n), "flip") for _ in range(4)]
        for cut, flip, tag in fl:
            for v in variants:
                cf.append((bi, cut, flip, -1, tag, v))
        # a genuine read error (EIO) of the standard input after k bytes of the (plain or compressed) input
        ks = [0, 1, n // 2, n - 1, n] if not b.big else [n // 2, n]
        for k in (ks if not quick else rng.sample(ks, 2)):
            for g in (("guess", "explicit") if b.fmt in CMD_FLAG else ("guess",)):
                if quick and rng.random() < 0.5:
                    continue
                cf.append((bi, k, -1, -1, "eio", (g, "eio")))
    nofault = dict(step=0, eager=False)
    exps = []
    for (bi, cut, flip, _, tag, v) in cf:
        exps.append(("fatal",) if tag == "eio" else expectation(cb[bi], dict(cut=cut, flip=flip, fault_at=-1)))
    # the decoded stream of every case (probe route), for the model
    pfaults = [(bi, cut, flip, -1, tag, nofault) if tag != "eio" else (bi, -1, -1, cut, tag, nofault) for (bi, cut, flip, _, tag, v) in cf]
    uniqp = sorted(set((f[0], f[1], f[2], f[3]) for f in pfaults))
    pobs = ctx.vh_robust("c17", vh_cases(ctx, cb, [(a, b_, c, d, "p", nofault) for (a, b_, c, d) in uniqp], "probe"), timeout=900, one_timeout=120)
    pmap = dict(zip(uniqp, pobs))

    def one(j):
        k, (bi, cut, flip, _, tag, v) = j
        b = cb[bi]
        flags = [CMD_FLAG[b.fmt]] if v[0] == "explicit" else []
        if tag == "eio":
            return run_binary(bindir, b.blob[:cut], b.fmt, True, tmp, 100000 + k, flags, eio=True, timeout=30)
        return run_binary(bindir, mutate(b.blob, cut, flip), b.fmt, v[1] == "stdin", tmp, 100000 + k, flags, timeout=30)
    with ThreadPoolExecutor(max_workers=12) as ex:
        res = list(ex.map(one, list(enumerate(cf))))
    terms, tix = [], []
    for k, (f, e, o) in enumerate(zip(cf, exps, res)):
        bi, cut, flip, _, tag, v = f
        b = cb[bi]
        key = "cmd:%s-%s/%s/%s/%s" % (v[0], v[1], b.fmt, tag, o["kind"])
        dist[key] = dist.get(key, 0) + 1
        if not judge(e, o):
            kk = state.setdefault("nviol", {})
            kk["cmd"] = kk.get("cmd", 0) + 1
            pf = state.setdefault("cmd_per_format", {})
            pf[(b.fmt, tag)] = pf.get((b.fmt, tag), 0) + 1
            if pf[(b.fmt, tag)] <= 1 and kk["cmd"] <= 40:
                ctx.violation("cmd_%s_%s_%s_%s" % (b.fmt, tag, v[0], v[1]), dict(
                    property="C17", kind="direct-oracle", route="cmd", variant=list(v), flags=[CMD_FLAG[b.fmt]] if v[0] == "explicit" else [],
                    case=dict(describe(b, (bi, cut, flip, -1, tag, nofault)), ids=b.ids), implementation=o, expected=list(e) if e else None,
                    note="obiconvert %s %s" % (CMD_FLAG.get(b.fmt, "") if v[0] == "explicit" else "(format guessed)",
                                                dict(file="<file>", stdin="< file", eio="< stream whose read fails with EIO after `cut` bytes")[v[1]])))
        if not b.big:
            pr = pmap[(bi, cut, flip, -1) if tag != "eio" else (bi, -1, -1, cut)]
            if o["kind"] == "fatal":
                ob = "OFatal"
            elif o["kind"] != "ok":
                ob = "ODiverges"
            else:
                ob = "OOkAll" if decoded_of(pr) == b.data and same_records(o.get("ids", ""), b.ids) else "OOkPartial"
            clean = pr.get("open") == "nocontent" or (pr.get("open") == "ok" and pr.get("fin") == "eof")
            if v[0] == "explicit" and clean and decoded_of(pr) != b.data:
                continue          # plain bytes which are not the text, format imposed: the verdict is the parser's (outside the model)
            # detection: the complete text is of the format of its container by construction; anything else which ends cleanly
            # (a short file with damaged magic bytes read as plain data) is not a sequence file
            term = case_term(pr, 1048576 if v[0] == "guess" else None, 1048576, decoded_of(pr) == b.data, ob, 1000 + bi, b.data)
            if term is not None:
                terms.append(term)
                tix.append(k)
    ctx.cov["cmd_runs"] = len(res)
    ctx.cov["cmd_containers"] = len(cb)
    ctx.cov["evaluations_cmd"] = len(res) + len(pobs)
    mism = []
    uniq = {}
    for u, t in enumerate(terms):
        uniq.setdefault(t, []).append(u)
    uterms = list(uniq)
    defs = ["Definition T%d : list N := [%s]." % (1000 + k, ";".join(str(x) for x in b.data)) for k, b in enumerate(cb) if not b.big]
    label = "cmd%d" % os.getpid()
    try:
        bad, err = ctx.correspond(label, IMPORTS + "\nDefinition pre (n : N) (l : list N) : list N := fst (fst (take n l)).\n" + "\n".join(defs), uterms, shard=150)
    finally:
        cleanup_coq(ctx, label)
    if bad is None:
        broken.append(dict(kind="correspondence", detail=err))
    else:
        for u in bad:
            for t in uniq[uterms[u]]:
                k = tix[t]
                bi, cut, flip, _, tag, v = cf[k]
                mism.append(dict(route="cmd", variant=list(v), case=dict(describe(cb[bi], (bi, cut, flip, -1, tag, nofault)), container_b64=None, text_b64=None),
                                 implementation=res[k], model_term=uterms[u][:600]))
    return mism


# ------------------------------------------------------------------ several input files (the batch-of-files reader)
def multi_file_clause(ctx, tmp, bindir, state, dist):
    """obiconvert on SEVERAL file arguments (and on a directory), one of them damaged: the command goes through
    ReadSequencesBatchFromFiles, whose per-file open / read errors must be as fatal as those of a single input.
    Direct oracle: damaged file among the inputs => non-zero status in time; all intact => status 0 with every record."""
    rng = ctx.rng
    quick = ctx.quick
    jobs = []
    d = os.path.join(tmp, "multi")
    os.makedirs(d, exist_ok=True)
    k = 0
    for fmt, gen in (("fasta", gen_fasta), ("fastq", gen_fastq)):
        for codec in ("gz", "bz2", "xz", "zst"):
            parts = [gen(rng, 40) for _ in range(3)]
            # ids are s0.. / q0.. in every part: count records only
            blobs = [compress(codec, x) for x in parts]
            n = len(blobs[1])
            faults = [("intact", None), ("cut-half", blobs[1][:n // 2]), ("cut-last", blobs[1][:n - 1]), ("cut-header", blobs[1][:max(1, HDRLEN[codec] - 4)])]
            if not quick:
                faults += [("cut-%d" % c, blobs[1][:c]) for c in rng.sample(range(1, n), 4)]
            for tag, bad in faults:
                for flags in ([], [CMD_FLAG[fmt]], ["--no-order"]) if (not quick or tag in ("intact", "cut-half")) else ([],):
                    sub = os.path.join(d, "m%d" % k)
                    os.makedirs(sub)
                    names = []
                    for i, b in enumerate(blobs):
                        fn = os.path.join(sub, "in%d.%s.%s" % (i, fmt, codec))
                        with open(fn, "wb") as f:
                            f.write(bad if (i == 1 and bad is not None) else b)
                        names.append(fn)
                    jobs.append(dict(k=k, fmt=fmt, codec=codec, tag=tag, flags=flags, args=names, nrec=120, how="files"))
                    k += 1
                    if tag in ("intact", "cut-half") and not flags and codec == "gz":      # a directory is searched for *.gz only
                        jobs.append(dict(k=k, fmt=fmt, codec=codec, tag=tag, flags=flags, args=[sub], nrec=120, how="directory"))
                        k += 1

    def one(j):
        argv = [os.path.join(bindir, "obiconvert")] + j["flags"] + j["args"]
        for attempt in range(2):
            try:
                p = subprocess.run(argv, capture_output=True, timeout=60)
            except subprocess.TimeoutExpired:
                if attempt:
                    return dict(kind="timeout", nrec=0)
                continue
            nrec = p.stdout.count(b"\n>") + p.stdout.startswith(b">") if j["fmt"] == "fasta" else len([l for l in p.stdout.split(b"\n")[0::4] if l.startswith(b"@")])
            return dict(kind="ok" if p.returncode == 0 else "reported", status=p.returncode, nrec=nrec, err=p.stderr.decode("utf8", "replace")[-300:])
    with ThreadPoolExecutor(max_workers=8) as ex:
        res = list(ex.map(one, jobs))
    nbad = 0
    for j, o in zip(jobs, res):
        key = "multi:%s/%s/%s/%s" % (j["how"], j["fmt"], j["tag"], o["kind"])
        dist[key] = dist.get(key, 0) + 1
        if j["tag"] == "intact":
            good = o["kind"] == "ok" and o["nrec"] == j["nrec"]
            want = "status 0 and all %d records" % j["nrec"]
        else:
            good = o["kind"] == "reported"
            want = "a non-zero exit status: one of the input files is cut short"
        if not good:
            nbad += 1
            if nbad <= 3:
                ctx.violation("multi_%s_%s_%s_%s" % (j["how"], j["fmt"], j["codec"], j["tag"]), dict(
                    property="C17", kind="direct-oracle", route="multi-file",
                    case=dict(format=j["fmt"], codec=j["codec"], fault=j["tag"], flags=j["flags"], how=j["how"],
                              note="three compressed inputs of 40 records each; the SECOND one carries the fault; `obiconvert %s in0 in1 in2` (or the directory holding them)" % " ".join(j["flags"])),
                    implementation={x: o[x] for x in o if x != "err"}, stderr_tail=o.get("err", "")[-200:], expected=want))
    ctx.cov["multi_file_runs"] = len(jobs)
    shutil.rmtree(d, ignore_errors=True)


# ------------------------------------------------------------------ cases
def make_bases(ctx, tmp):
    rng = ctx.rng
    bases = []
    nfa, nfq = (5, 3) if ctx.quick else (12, 8)
    for codec in ("gz", "bz2", "xz", "zst"):
        bases.append(Base(ctx, tmp, "small", codec, "fasta", gen_fasta(rng, nfa)))
        bases.append(Base(ctx, tmp, "small", codec, "fastq", gen_fastq(rng, nfq)))
    bases.append(Base(ctx, tmp, "multi", "gz", "fasta", gen_fasta(rng, 40, multiline=True)))
    bases.append(Base(ctx, tmp, "plain", "raw", "fasta", gen_fasta(rng, 6)))
    bases.append(Base(ctx, tmp, "plain", "raw", "fastq", gen_fastq(rng, 4)))
    # valid containers of an EMPTY text: intact they are an empty input (exit 0, no record); every cut of them is a
    # container with a (partly) readable header which yields no data and must be reported, never taken for an empty file
    for codec in ("gz", "bz2", "xz", "zst"):
        bases.append(Base(ctx, tmp, "empty", codec, "fasta", b""))
    if not ctx.quick:
        for codec in ("bz2", "xz", "zst"):
            bases.append(Base(ctx, tmp, "multi", codec, "fasta", gen_fasta(rng, 40, multiline=True)))
    # more than 1 MiB of text: the sniffer's ReadFull is complete and the fault is met by ReadSeqFileChunk at its production size
    big = gen_big_fasta(rng, 1300000)
    for codec in (("gz",) if ctx.quick else ("gz", "bz2", "zst")):
        bases.append(Base(ctx, tmp, "big", codec, "fasta", big))
    bases.append(Base(ctx, tmp, "bigraw", "raw", "fasta", gen_big_fasta(rng, 2 * (1 << 20) + 150000)))
    # two members / frames / streams, the first one ending at a MiB boundary -1 / +0 / +1 of the DEcompressed text (the sizes of
    # the sniffer buffer and of the chunk buffer): a fault in the second member surfaces exactly there; texts of 0.5 to 3 MiB
    MIB = 1 << 20
    if ctx.quick or EXTENDED_SEARCH[0]:
        plan = [("gz", 2 * MIB + 70000, MIB + rng.choice((-1, 0, 1))), ("zst", MIB + MIB // 2, MIB + rng.choice((-1, 0, 1))),
                (rng.choice(("bz2", "xz")), MIB // 2, MIB // 4)]
    else:
        plan = [(codec, size, k * MIB + d) for codec in ("gz", "bz2", "xz", "zst")
                for size, k in ((MIB // 2 + 11, 0), (MIB + MIB // 2, 1), (3 * MIB, 1), (3 * MIB, 2), (2 * MIB + 70000, 2)) for d in (-1, 0, 1) if k * MIB + d > 0]
        plan += [(codec, MIB // 2, MIB // 4) for codec in ("gz", "bz2", "xz", "zst")]
    texts = {}
    for n, (codec, size, l1) in enumerate(plan):
        if size not in texts:
            texts[size] = gen_big_fasta(rng, size)
        t = texts[size]
        first = compress(codec, t[:l1])
        bases.append(Base(ctx, tmp, "mm%d" % n, codec, "fasta", t, blob=first + compress(codec, t[l1:]), m1=len(first)))
    return bases


def gen_big_fasta(rng, size):
    out, n, i = [], 0, 0
    while n < size:
        seq = "".join(rng.choices("acgt", k=400))
        rec = ">b%d\n%s\n" % (i, seq)
        out.append(rec)
        n += len(rec)
        i += 1
    return "".join(out).encode()


SMALL_B = [2, 3, 4, 5, 7, 8, 13, 16, 33, 64, 100, 257, 1000]
EXTENDED_SEARCH = [False]      # set during the extended search of run(): thorough-size small containers, quick-size big ones


HDRLEN = dict(gz=10, bz2=4, xz=12, zst=6)     # container header (gz: fixed header; xz: stream header; bz2/zst: magic + first descriptor bytes)
TRAILER = 40                                   # bytes at the end of a container searched exhaustively for harmful single-bit flips


def sched(rng, big=False):
    """Read schedule of the raw reader handed to xopen.Buf: at most `step` bytes per Read (0 = as many as asked) and
    whether the final error (io.EOF / injected fault) is returned together with the last bytes (n > 0)."""
    return dict(step=rng.choice((0, 0, 0, 4096, 65536) if big else (0, 0, 1, 2, 3, 7, 64, 4096)), eager=rng.random() < 0.4)


def gen_faults(ctx, bases):
    """List of (base index, cut, flip, fault_at, tag, read schedule)."""
    rng = ctx.rng
    faults = []

    def add(bi, cut, flip, fat, tag, opt=None):
        faults.append((bi, cut, flip, fat, tag, opt or sched(rng, bases[bi].big)))
    for bi, b in enumerate(bases):
        n = len(b.blob)
        add(bi, -1, -1, -1, "intact")
        if b.m1 is not None:
            # two members: faults inside the second one (and in the trailer of the first one, at the boundary)
            m1, h = b.m1, HDRLEN[b.codec]
            cuts = [m1 + 1, m1 + h, m1 + (n - m1) // 2, n - 1, m1 - 1, m1]
            if ctx.quick:
                cuts = cuts[:2] + [rng.choice(cuts[2:4]), rng.choice(cuts[4:])]
            else:
                cuts += [m1 + h // 2, m1 + h + 1, m1 + (n - m1) // 3, n - 5]
            for cut in cuts:
                add(bi, cut, -1, -1, "cut2")
            add(bi, -1, 8 * (m1 - 1 - rng.randrange(0, 4)) + rng.randrange(0, 8), -1, "tflip")
            add(bi, -1, 8 * (n - 1 - rng.randrange(0, 4)) + rng.randrange(0, 8), -1, "tflip")
            add(bi, -1, -1, rng.choice((m1, m1 + 1, m1 + h)), "inject")
            continue
        if b.name == "bigraw":
            # plain text, a read error exactly at a MiB boundary -1 / 0 / +1 of the stream (the sizes of the sniffer buffer and of the
            # chunk buffer), delivered alone and together with the last bytes, whole-buffer reads and 4 KiB reads
            mib = 1 << 20
            ks = [k * mib + d for k in (1, 2) for d in (-1, 0, 1) if k * mib + d < n]
            for k in (ks if not ctx.quick else [mib - 1, mib, mib + 1, rng.choice(ks[3:] or ks)]):
                for eager in (False, True):
                    add(bi, -1, -1, k, "inject", dict(step=rng.choice((0, 4096, 65536)), eager=eager))
            continue
        if b.name == "big":
            # cuts late enough for more than 1 MiB to be decoded before the fault
            for cut in [n - 1, n - 8, n - 9, n - 200, n - n // 50] + ([] if ctx.quick else [n - n // 20, n - n // 10]):
                add(bi, cut, -1, -1, "cut")
            add(bi, -1, -1, n - n // 40, "inject")
            continue
        if b.codec != "raw":
            cuts = range(0, n) if (b.name in ("small", "empty") or not ctx.quick) else sorted(rng.sample(range(0, n), 120))
            for cut in cuts:
                add(bi, cut, -1, -1, "cut")
        else:
            add(bi, 0, -1, -1, "cut")
        ks = range(0, n) if (b.name not in ("multi", "empty") and (b.codec in ("gz", "raw") or not ctx.quick)) else sorted(rng.sample(range(0, n), min(n, 12 if b.name == "empty" else 40)))
        for k in ks:
            add(bi, -1, -1, k, "inject")
        if b.codec == "raw":
            add(bi, -1, -1, n, "inject")
    nflip = 100 if ctx.quick else 3000
    comp = [i for i, b in enumerate(bases) if b.codec != "raw" and not b.big]
    for _ in range(nflip):
        bi = rng.choice(comp)
        add(bi, -1, rng.randrange(0, 8 * len(bases[bi].blob)), -1, "flip")
    # single-bit flips in the trailer (CRC / length / end-of-stream marker / index / footer): all of them in thorough
    for bi in comp:
        n = len(bases[bi].blob)
        bits = list(range(8 * max(0, n - TRAILER), 8 * n))
        if ctx.quick:
            bits = rng.sample(bits, min(len(bits), 8))
        off = xz_index_offset(bases[bi].blob) if bases[bi].codec == "xz" else None
        if off is not None:
            # corpus: the index indicator of an xz stream (witness class of the known finding xz-index-indicator-bitflip, bits 3..7)
            bits = sorted(set(bits) | {8 * off + k for k in ((0, 3, 7) if ctx.quick else range(8))})
        for bit in bits:
            add(bi, -1, bit, -1, "tflip")
        if off is not None:
            # corpus: the size byte of the (only) block header (witness class of the known finding xz-last-block-header-size-bitflip)
            for k in ((6, 7) if ctx.quick else range(8)):
                add(bi, -1, 8 * 12 + k, -1, "hflip")
    return faults


def vh_cases(ctx, bases, faults, mode, pick_b=False):
    cs = []
    for (bi, cut, flip, fat, tag, opt) in faults:
        c = dict(mode=mode, path=bases[bi].path, cut=cut, flip=flip, fault_at=fat, b=0, step=opt["step"], eager=opt["eager"], nodata=bases[bi].big)
        if pick_b:
            c["b"] = ctx.rng.choice(SMALL_B)
        cs.append(c)
    return cs


def strip_nl(b):
    return bytes(x for x in b if x not in (10, 13))


# ------------------------------------------------------------------ evaluation
KNOWN_XZ_IDX = "xz-index-indicator-bitflip"           # round 2: found, then fixed in xopen (the key matches nothing any more)
KNOWN_XZ_BH = "xz-corrupt-block-clean-eof"
KNOWN_LINES = {KNOWN_XZ_BH: ("an xz input with a corrupted byte inside a block (block header size, LZMA2 chunk size) is accepted with the records decoded before "
                             "the damage (a single-block file hit in its block header is handled as an empty file): the xz library (ulikunitz/xz) ends the stream "
                             "with a clean io.EOF; index and footer are intact, so xopen's end-of-stream guard cannot tell"),
               KNOWN_XZ_IDX: ("an xz input with a bit of its index indicator byte flipped is accepted (all records delivered): the xz library (ulikunitz/xz) "
                              "takes the byte for the size of a block header reaching beyond the end of the file and ends the stream with a clean io.EOF")}


def xz_ends_complete(blob):
    """The compressed bytes end with a valid index and stream footer (what xopen's guard demands), independent implementation."""
    import zlib
    body = blob.rstrip(b"\0")
    if (len(blob) - len(body)) % 4 != 0:
        return False
    if len(body) < 12 or body[-2:] != b"YZ" or zlib.crc32(body[-8:-2]) != int.from_bytes(body[-12:-8], "little"):
        return False
    size = (int.from_bytes(body[-8:-4], "little") + 1) * 4
    if 12 + size > len(body):
        return True
    idx = body[-12 - size:-12]
    return idx[0] == 0 and zlib.crc32(idx[:-4]) == int.from_bytes(idx[-4:], "little")


def xz_index_offset(blob):
    """Offset of the index indicator of a single-stream xz container (from the backward size of its footer), or None."""
    if len(blob) < 32 or blob[-2:] != b"YZ":
        return None
    size = (int.from_bytes(blob[-8:-4], "little") + 1) * 4
    off = len(blob) - 12 - size
    return off if off >= 12 and blob[off] == 0 else None


KNOWN_XZ = "xz-clean-eof-on-truncation"      # round 1: known finding; round 2: fixed in xopen (the key matches nothing any more)
KNOWN_XZ_LINE = ("an xz input cut inside a block header (or between the last block and the index) is accepted: the xz library "
                 "(ulikunitz/xz) itself ends such a stream with a clean io.EOF, so the command exits 0 with the blocks decoded so far")
IMPORTS = ("From Coq Require Import List NArith ZArith Bool. Import ListNotations. Open Scope N_scope.\n"
           "From OBI.C17 Require Import Model.")


class RawBase:
    """A container given by its bytes (replay files)."""
    def __init__(self, tmp, d):
        self.name, self.codec, self.fmt = d["file"].split(".")[0], d["codec"], d["fmt"]
        self.blob = base64.b64decode(d["container_b64"])
        self.data = base64.b64decode(d["text_b64"])
        self.path = os.path.join(tmp, "replay.%s.%s" % (self.fmt, self.codec))
        with open(self.path, "wb") as f:
            f.write(self.blob)
        self.ids = records_of(self.data, self.fmt) if "ids" not in d else d["ids"]
        self.big = len(self.data) > 100000
        self.m1 = d.get("m1")


def describe(base, f):
    bi, cut, flip, fat, tag, opt = f
    return dict(file="%s.%s.%s" % (base.name, base.fmt, base.codec), codec=base.codec, fmt=base.fmt, container_len=len(base.blob),
                cut=cut, flip=flip, fault_at=fat, kind=tag, step=opt["step"], eager=opt["eager"], m1=base.m1,
                container_b64=base64.b64encode(base.blob).decode(), text_b64=base64.b64encode(base.data).decode())


def report(ctx, state, name, route, base, f, obs, exp, extra=None, known=None):
    """Oracle failure: known finding or VIOLATION (at most 3 replays per route)."""
    if known and ctx.kf_match(known):
        ctx.known(known, KNOWN_LINES.get(known, KNOWN_XZ_LINE))
        state["known"] = state.get("known", 0) + 1
        return
    k = state.setdefault("nviol", {})
    k[route] = k.get(route, 0) + 1
    if k[route] <= 3:
        rp = dict(property="C17", kind="direct-oracle", route=route, case=describe(base, f), implementation=obs,
                  expected=list(exp) if exp else None)
        if extra:
            rp.update(extra)
        ctx.violation("%s_%s_%d" % (route, name, k[route]), rp)


FIN = dict(eof="REof", unexpected="RUnexpectedEof", injected="ROther", other="ROther")


def ext_of(b):
    """Size of the extension reads of ReadSeqFileChunk in the tree under test: fileChunkSize-1, fileChunkSize once the
    C01 repair is in (the theorems hold for every size >= 1, the observables compared here do not depend on it)."""
    from vlib import REPO
    try:
        src = open(os.path.join(REPO, "pkg/obiformats/seqfile_chunk_read.go")).read()
    except OSError:
        src = ""
    return b - 1 if re.search(r"l\s*\+\s*fileChunkSize\s*-\s*1", src) else b


def case_term(probe, sn, b, recog, obs, bi=None, text=None):
    if probe.get("open") == "ok":
        data, fin, hdr = base64.b64decode(probe.get("data", "")), FIN[probe["fin"]], "true"
    elif probe.get("open") == "nocontent":
        data, fin, hdr = b"", "REof", "true"
    else:
        data, fin, hdr = b"", "REof", "false"
    if text is not None and len(data) > 8 and text.startswith(data):
        lit = "(pre %d T%d)" % (len(data), bi)          # a prefix of the text of container bi (defined once per shard)
    elif len(data) > 20000:
        return None      # a bit flip made the decoder inflate the stream (hundreds of kB of zeros): too long for a Gallina literal, direct oracle only
    else:
        lit = "[%s]" % ";".join(str(x) for x in data)
    return "mkc %s %s %s %s %d %d %s (%s)" % (lit, fin, hdr, "(Some %d)" % sn if sn else "None", b, ext_of(b),
                                              "true" if recog else "false", obs)


def imports_for(bases):
    """Model import + the text of every (small) container, so that a decoded prefix is written `pre n Tk`."""
    defs = ["Definition pre (n : N) (l : list N) : list N := fst (fst (take n l))."]
    for k, b in enumerate(bases):
        if not b.big:
            defs.append("Definition T%d : list N := [%s]." % (k, ";".join(str(x) for x in b.data)))
    return IMPORTS + "\n" + "\n".join(defs)


def decoded_of(probe):
    return base64.b64decode(probe.get("data", "")) if probe.get("open") == "ok" else b""


def obs_records(o, probe, fmt):
    if o["kind"] == "fatal":
        return "OFatal"
    if o["kind"] != "ok":
        return "ODiverges"
    dec = decoded_of(probe)
    try:
        full = records_of(dec, fmt)
    except Exception:
        full = None
    return "OOkAll" if full is not None and same_records(o.get("ids", ""), full) else "OOkPartial"


def obs_chunks(o):
    if o["kind"] == "fatal":
        return "OFatal"
    if o["kind"] != "ok":
        return "ODiverges"
    d = strip_nl(base64.b64decode(o.get("chunks", "")))
    return "OOkBytes %d %d" % (len(d), sum(d))


def cleanup_coq(ctx, label):
    import glob
    from vlib import BUILD
    for fn in glob.glob(os.path.join(BUILD, "coq", "%s_%s_*" % (ctx.pid, label))) + glob.glob(os.path.join(BUILD, "coq", ".%s_%s_*" % (ctx.pid, label))):
        try:
            os.unlink(fn)
        except OSError:
            pass


def run(ctx, broken):
    tmp = tempfile.mkdtemp(prefix="c17_")
    try:
        res = _run(ctx, broken, tmp)
        if res["mism"] and not ctx.violations and os.environ.get("C17_NO_EXTENDED"):
            print("C17 debug: first mismatches:", json.dumps(res["mism"][:3], default=str)[:3000])
            broken.append(dict(kind="correspondence", name="corr:C17/" + res["mism"][0]["route"], first_diverging_case=res["mism"][0], n_diverging=len(res["mism"])))
        elif res["mism"] and not ctx.violations:
            # the model and the code diverge although the direct oracle is satisfied: search harder (more bit flips,
            # every truncation point of the larger files) before reporting the bare divergence
            ctx.cov["search"] = "extended"
            saved = dict(ctx.cov)
            EXTENDED_SEARCH[0] = True
            try:
                _run(ctx, [], tmp, extended=True)
            finally:
                EXTENDED_SEARCH[0] = False
            ctx.cov.update(saved)
            if not ctx.violations:
                m = res["mism"][0]
                broken.append(dict(kind="correspondence", name="corr:C17/" + m["route"], first_diverging_case=m, n_diverging=len(res["mism"])))
    finally:
        shutil.rmtree(tmp, ignore_errors=True)


def _run(ctx, broken, tmp, bases=None, faults=None, extended=False):
    t0 = time.time()
    if bases is None:
        quick = ctx.quick and not extended
        saved_tier = ctx.tier
        ctx.tier = "quick" if quick else "thorough"
        try:
            bases = make_bases(ctx, tmp)
            faults = gen_faults(ctx, bases)
        finally:
            ctx.tier = saved_tier
    sparse = ctx.quick and not extended
    state = {}
    exps = [expectation(bases[f[0]], dict(cut=f[1], flip=f[2], fault_at=f[3])) for f in faults]
    dist = {}
    terms = []       # (route, fault index, Gallina term)

    def count(route, i, o):
        k = "%s/%s/%s/%s" % (route, bases[faults[i][0]].codec, faults[i][4], o["kind"])
        dist[k] = dist.get(k, 0) + 1

    # --- route 0: probe (codec contract + the decoded stream of every case); the xz library alone on the xz cases
    probe = ctx.vh_robust("c17", vh_cases(ctx, bases, faults, "probe"), timeout=900, one_timeout=120)
    xzi = [i for i, f in enumerate(faults) if bases[f[0]].codec == "xz" and f[3] < 0]
    xzo = ctx.vh_robust("c17", vh_cases(ctx, bases, [faults[i] for i in xzi], "xzlib"), timeout=900, one_timeout=120)
    known = {}
    for i, o in zip(xzi, xzo):
        if exps[i] and exps[i][0] == "fatal" and o.get("kind") == "ok" and o.get("open") == "ok" and o.get("fin") == "eof":
            # the reference decoder rejects the container, the library ends it with io.EOF: caught by xopen's footer guard since
            # round 2, except a flipped index indicator (the footer is intact)
            f = faults[i]
            bb = bases[f[0]]
            if f[1] < 0 and f[2] >= 0 and f[2] // 8 == xz_index_offset(bb.blob):
                known[i] = KNOWN_XZ_IDX
            elif f[1] < 0 and f[2] >= 0 and xz_ends_complete(mutate(bb.blob, -1, f[2])):
                known[i] = KNOWN_XZ_BH          # damage inside a block, the stream still ends with a valid index and footer
            else:
                known[i] = KNOWN_XZ
    for i, (f, e, o) in enumerate(zip(faults, exps, probe)):
        b = bases[f[0]]
        count("probe", i, o)
        if o.get("kind") != "ok":
            report(ctx, state, "crash", "probe", b, f, o, e)
        elif e and e[0] == "fatal" and o.get("open") == "ok" and o.get("fin") == "eof":
            report(ctx, state, "codec_contract", "probe", b, f, o, e,
                   dict(note="the decompressor ended a damaged container with a clean io.EOF (codec contract of the model broken)"), known=known.get(i))
        elif e and e[0] == "fatal" and o.get("open") == "nocontent":
            report(ctx, state, "nocontent", "probe", b, f, o, e, dict(note="Buf reports a damaged input as ErrNoContent (empty file)"), known=known.get(i))

    tm = {"probe_s": round(time.time() - t0, 1)}
    # --- route 1: in-process, production sizes (reader = body of ReadSequencesFromFile on a reader; file = ReadSequencesFromFile)
    routes = {}
    routes["reader"] = (list(range(len(faults))), ctx.vh_robust("c17", vh_cases(ctx, bases, faults, "reader"), timeout=1800, one_timeout=120))
    fidx = [i for i, f in enumerate(faults) if f[3] < 0 and (f[4] != "cut" or not sparse or i % 3 == 0)]
    routes["file"] = (fidx, ctx.vh_robust("c17", vh_cases(ctx, bases, [faults[i] for i in fidx], "file"), timeout=1800, one_timeout=120))
    for route, (idx, obs) in routes.items():
        for i, o in zip(idx, obs):
            count(route, i, o)
            if not judge(exps[i], o):
                report(ctx, state, faults[i][4], route, bases[faults[i][0]], faults[i], o, exps[i], known=known.get(i))
            if not bases[faults[i][0]].big:      # 1.3 MB of text per term: the big cases are judged by the direct oracle only
                terms.append((route, i, o, case_term(probe[i], 1048576, 1048576, recognised(decoded_of(probe[i])), obs_records(o, probe[i], bases[faults[i][0]].fmt), faults[i][0], bases[faults[i][0]].data)))

    tm["reader_file_s"] = round(time.time() - t0, 1)
    # --- route 2: ReadSeqFileChunk with small buffers behind Buf (FASTA bases only: the splitter is EndOfLastFastaEntry)
    cidx = [i for i, f in enumerate(faults) if bases[f[0]].fmt == "fasta" and not bases[f[0]].big]
    ccases = vh_cases(ctx, bases, [faults[i] for i in cidx], "chunk", pick_b=True)
    cobs = ctx.vh_robust("c17", ccases, timeout=1800, one_timeout=120)
    for i, c, o in zip(cidx, ccases, cobs):
        b, e = bases[faults[i][0]], exps[i]
        count("chunk", i, o)
        good = True
        if o["kind"] not in ("ok", "fatal"):
            good = False
        elif e and e[0] == "fatal":
            good = o["kind"] == "fatal"
        elif e and e[0] == "ok":
            good = o["kind"] == "ok" and strip_nl(base64.b64decode(o.get("chunks", ""))) == strip_nl(b.data)
        elif e and e[0] == "empty":
            good = o["kind"] == "ok" and o.get("nchunks", 0) == 0
        if not good:
            report(ctx, state, faults[i][4], "chunk", b, faults[i], o, e, dict(B=c["b"]), known=known.get(i))
        terms.append(("chunk", i, dict(o, B=c["b"]), case_term(probe[i], None, c["b"], True, obs_chunks(o), faults[i][0], b.data)))

    tm["chunk_s"] = round(time.time() - t0, 1)
    # --- route 3: the obiconvert binary, file argument and stdin
    bindir, err = ctx.build_cmds(["obiconvert"])
    nbin = 0
    if bindir is None:
        broken.append(dict(kind="command-build", detail=err))
    else:
        bidx = [i for i, f in enumerate(faults) if f[3] < 0 and (not sparse or f[4] != "cut" or bases[f[0]].fmt == "fasta" or i % 4 == 0)]
        jobs = [(i, stdin) for i in bidx for stdin in (False, True)]

        def one(j):
            k, (i, stdin) = j
            f = faults[i]
            return run_binary(bindir, mutate(bases[f[0]].blob, f[1], f[2]), bases[f[0]].fmt, stdin, tmp, k)
        with ThreadPoolExecutor(max_workers=12) as ex:
            res = list(ex.map(one, list(enumerate(jobs))))
        nbin = len(res)
        for (i, stdin), o in zip(jobs, res):
            route = "bin_stdin" if stdin else "bin_file"
            count(route, i, o)
            if not judge(exps[i], o):
                report(ctx, state, faults[i][4], route, bases[faults[i][0]], faults[i], o, exps[i], known=known.get(i))
            if not bases[faults[i][0]].big:      # 1.3 MB of text per term: the big cases are judged by the direct oracle only
                terms.append((route, i, o, case_term(probe[i], 1048576, 1048576, recognised(decoded_of(probe[i])), obs_records(o, probe[i], bases[faults[i][0]].fmt), faults[i][0], bases[faults[i][0]].data)))

    tm["binary_s"] = round(time.time() - t0, 1)
    # --- correspondence with the model (repaired error handling)
    mism = []
    uniq = {}                     # the four production-size routes give the same term for the same fault when they agree
    ctx.cov["model_terms_skipped_too_long"] = sum(1 for t in terms if t[3] is None)
    terms = [t for t in terms if t[3] is not None]
    for k, t in enumerate(terms):
        uniq.setdefault(t[3], []).append(k)
    uterms = list(uniq)
    budget = 60_000_000       # characters of Gallina source per run (about 20 ms of coqc per kB)
    stride = max(1, -(-sum(len(t) for t in uterms) // budget))
    if stride > 1:
        # too much for one run: every short term, one long term (more than 2 kB of decoded data) out of `stride`
        uterms = [t for k, t in enumerate(uterms) if len(t) < 6000 or k % stride == 0]
        ctx.cov["model_terms_sampled"] = "long terms 1/%d" % stride
    ctx.cov["longest_terms"] = sorted(((len(t), t[:80]) for t in uterms), reverse=True)[:3]
    label = "%s%d" % ("ext" if extended else "main", os.getpid())      # private file names: concurrent runs of this check do not collide
    try:
        bad, err = ctx.correspond(label, imports_for(bases), uterms, shard=200)
    finally:
        cleanup_coq(ctx, label)
    ctx.cov["model_terms_distinct"] = len(uterms)
    if bad is None:
        broken.append(dict(kind="correspondence", detail=err))
    else:
        for k in [k for u in bad for k in uniq[uterms[u]]]:
            route, i, o, term = terms[k]
            mism.append(dict(route=route, case=describe(bases[faults[i][0]], faults[i]), implementation=o, probe=dict(probe[i], data=None),
                             model_term=term if len(term) < 2000 else term[:2000] + "..."))

    # --- the xz end-of-stream guard of xopen: xz_guard (raw bytes, verdict of the library alone) against what Buf answers
    ctx.cov["xz_library_clean_eof_on_damaged"] = len(known)
    xterms, xidx = [], []
    xdefs = ["Definition pre (n : N) (l : list N) : list N := fst (fst (take n l))."]
    for k, b in enumerate(bases):
        if b.codec == "xz" and not b.big:
            xdefs.append("Definition X%d : list N := [%s]." % (k, ";".join(str(x) for x in b.blob)))
    for i, o in zip(xzi, xzo):
        b = bases[faults[i][0]]
        if b.big or o.get("kind") != "ok" or probe[i].get("kind") != "ok":
            continue
        raw = mutate(b.blob, faults[i][1], faults[i][2])
        if sniffed_codec(raw) != "xz":
            continue                      # the magic bytes are damaged: the input is not read as xz
        lit = "(pre %d X%d)" % (len(raw), faults[i][0]) if faults[i][2] < 0 else "[%s]" % ";".join(str(x) for x in raw)
        eof = probe[i].get("open") == "nocontent" or (probe[i].get("open") == "ok" and probe[i].get("fin") == "eof")
        xterms.append("mkxz %s %s %s %s" % (lit, "true" if o.get("open") == "ok" else "false", "REof" if o.get("fin") == "eof" else "ROther",
                                            "true" if eof else "false"))
        xidx.append(i)
    if xterms:
        xbad, xerr = ctx.correspond(label + "xz", IMPORTS + "\n" + "\n".join(xdefs), xterms, fn="xz_mismatches", shard=400)
        cleanup_coq(ctx, label + "xz")
        ctx.cov["xz_guard_model_terms"] = len(xterms)
        if xbad is None:
            broken.append(dict(kind="correspondence", detail=xerr))
        else:
            for u in xbad:
                i = xidx[u]
                mism.append(dict(route="xzguard", case=describe(bases[faults[i][0]], faults[i]), implementation=dict(probe[i], data=None),
                                 library_alone=xzo[xzi.index(i)], model_term=xterms[u][:2000]))

    tm["coq_s"] = round(time.time() - t0, 1)
    # --- route 4: every other way a command opens a (compressed) input: explicit formats, EMBL / GenBank / ecoPCR / CSV, stdin
    if bindir is not None and len(bases) > 1:
        mism += cmd_matrix(ctx, broken, tmp, bindir, state, dist, extended)
        multi_file_clause(ctx, tmp, bindir, state, dist)
        tm["cmd_s"] = round(time.time() - t0, 1)
    ctx.cov["cumulative_times"] = tm
    ctx.cov["run_s"] = round(time.time() - t0, 1)
    ctx.cov["evaluations"] = len(probe) + len(xzo) + sum(len(v[1]) for v in routes.values()) + len(cobs) + nbin
    ctx.cov["distinct_nontrivial"] = len({(bases[f[0]].path, f[1], f[2], f[3]) for f, e in zip(faults, exps) if e and e[0] == "fatal"})
    ctx.cov["faults"] = len(faults)
    ctx.cov["rule"] = ("fault = (container file, truncation point | flipped bit | byte offset of an injected read error); non-trivial = the reference decoder "
                       "rejects the damaged container (or a read error is injected), so the property demands a fatal outcome; distinct = distinct "
                       "(file, cut, bit, offset); every fault goes through the probe / reader / chunk(small B) routes, the non-injected ones also through "
                       "ReadSequencesFromFile and the obiconvert binary (file argument and stdin)")
    ctx.cov["distribution"] = dict(sorted(dist.items()))
    ctx.cov["containers"] = {"%s.%s.%s" % (b.name, b.fmt, b.codec): dict(bytes=len(b.blob), text_bytes=len(b.data), records=len(b.ids)) for b in bases}
    ctx.cov["oracle_failures"] = state.get("nviol", {})
    ctx.cov["known_finding_witnesses"] = state.get("known", 0)
    ctx.cov["model_vs_impl_mismatches"] = len(mism)
    if mism and ctx.violations:
        ctx.cov["note"] = "model and implementation diverge on %d cases (violations reported by the direct oracle)" % len(mism)
    picks = [0, len(faults) // 3, len(faults) // 2, len(faults) - 1]
    ctx.samples = [dict(fault=dict(describe(bases[faults[i][0]], faults[i]), container_b64=None, text_b64=None), expected=exps[i],
                        probe=dict(probe[i], data=None), reader_route=routes["reader"][1][i]) for i in picks if i < len(faults)]
    return dict(bases=bases, faults=faults, exps=exps, probe=probe, routes=routes, chunk=(cidx, ccases, cobs), mism=mism, terms=terms)


def replay_cmd(ctx, rp, tmp):
    c, v = rp["case"], rp["variant"]
    base = RawBase(tmp, c)
    bindir, err = ctx.build_cmds(["obiconvert"])
    if bindir is None:
        print("replay: cannot build obiconvert:", err)
        return
    flags = rp.get("flags", [])
    if v[1] == "eio":
        exp = ("fatal",)
        o = run_binary(bindir, base.blob[:c["cut"]], base.fmt, True, tmp, 1, flags, eio=True, timeout=30)
    else:
        exp = expectation(base, dict(cut=c["cut"], flip=c["flip"], fault_at=-1))
        o = run_binary(bindir, mutate(base.blob, c["cut"], c["flip"]), base.fmt, v[1] == "stdin", tmp, 1, flags, timeout=30)
    print("replay: obiconvert %s on %s (%s, %s) cut=%s flip=%s  expected=%s" % (" ".join(flags), c["file"], v[0], v[1], c["cut"], c["flip"], exp[0] if exp else None))
    print("  outcome:", {k: (x if k != "ids" else x[:80]) for k, x in o.items()})
    print("  oracle:", "satisfied" if judge(exp, o) else "VIOLATED")


def replay(ctx, rp):
    if "case" not in rp:
        print("replay: nothing to re-run in this file (%s)" % rp.get("reason", rp.get("kind")))
        return
    tmp = tempfile.mkdtemp(prefix="c17r_")
    try:
        if rp.get("route") == "cmd":
            return replay_cmd(ctx, rp, tmp)
        c = rp["case"]
        base = RawBase(tmp, c)
        f = (0, c["cut"], c["flip"], c["fault_at"], c.get("kind", "replay"), dict(step=c.get("step", 0), eager=c.get("eager", False)))
        broken = []
        res = _run(ctx, broken, tmp, bases=[base], faults=[f])
        print("replay: %s cut=%s flip=%s fault_at=%s  expected=%s" % (c["file"], c["cut"], c["flip"], c["fault_at"], res["exps"][0]))
        pr = dict(res["probe"][0])
        pr.pop("data", None)
        print("  probe (Buf + read all):", pr)
        for route, i, o, term in res["terms"]:
            print("  %-9s -> %s" % (route, {k: v for k, v in o.items() if k not in ("chunks",)}))
        print("  model:", "MISMATCH on " + ", ".join(m["route"] for m in res["mism"]) if res["mism"] else "agrees on every route")
        if broken:
            print("  broken:", broken)
    finally:
        shutil.rmtree(tmp, ignore_errors=True)
