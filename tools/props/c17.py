"""C17 — truncated or corrupt compressed input is reported, never silently accepted."""
import base64, bz2, gzip, json, lzma, os, re, shutil, subprocess, tempfile, time
from concurrent.futures import ThreadPoolExecutor

PROPS = ["C17/Props.v"]
META = dict(
    text="Rocq theorems over an executable model of the read path (codec wrapper and first-rune test of xopen.Buf, io.ReadFull, the 1 MiB format "
         "sniffer, the loop of ReadSeqFileChunk for every buffer size B>=2 and every record splitter that cuts inside the buffer, the transcribed "
         "EndOfLastFastaEntry): a stream that ends with anything but a clean EOF makes the command fatal, a clean stream delivers all its bytes; the "
         "unrepaired error handling is refuted by computed witnesses. Every run ties the model to the code: every truncation point, random single-bit "
         "flips and read errors injected after k bytes on small gzip/bzip2/xz/zstd FASTA/FASTQ files (plus a >1 MiB file) go through the real "
         "Buf/OBIMimeTypeGuesser/ReadSeqFileChunk (one child process per case, production and small buffers) and through the obiconvert binary "
         "(file argument and stdin); a direct oracle built on reference decoders (Python gzip/bz2/lzma, zstd CLI) demands `fatal` for every "
         "damaged container and `ok with exactly all records` for every intact one.",
    note="Assumed, checked on every case of every run but not proved: the codec contract (a damaged container never decodes to a clean EOF). It is "
         "broken by ulikunitz/xz for cuts inside a block header (known finding, delimited by running the library alone) and was broken by "
         "klauspost/pgzip (fixed by reading gzip with klauspost/compress/gzip). Format detection (mimetype library) and the record parsers are "
         "outside the model (detection is a per-case boolean computed with the same regular expressions); bufio/MultiReader are modelled as "
         "transparent; the explicit-format stdin readers (--embl/--genbank/--ecopcr on stdin: raw os.Stdin, no decompression) are not exercised.")
TRUSTED = [
    "codec contract: the decompressors (klauspost/compress gzip and zstd, dsnet/bzip2, ulikunitz/xz) never end a truncated/corrupt container with io.EOF "
    "(validated on every case of the run by the probe route against the Python/zstd reference decoders, not proved; ulikunitz/xz breaks it "
    "for cuts inside a block header: known finding xz-clean-eof-on-truncation)",
    "format detection (gabriel-vasile/mimetype + the FASTA/FASTQ regular expressions) is a Section variable / per-case boolean of the model",
    "bufio.Reader and io.MultiReader modelled as transparent (they hand the underlying error over unchanged after the buffered bytes)",
]
ZSTD = "/root/miniconda/bin/zstd"
CODECS = ("gz", "bz2", "xz", "zst", "raw")


# ------------------------------------------------------------------ generators
def gen_fasta(rng, n, multiline=False):
    out = []
    for i in range(n):
        seq = "".join(rng.choice("acgt") for _ in range(rng.randrange(12, 70)))
        if multiline and len(seq) > 30:
            seq = seq[:30] + "\n" + seq[30:]
        out.append(">s%d {\"k\":%d}\n%s\n" % (i, i, seq))
    return "".join(out).encode()


def gen_fastq(rng, n):
    out = []
    for i in range(n):
        l = rng.randrange(12, 60)
        seq = "".join(rng.choice("acgt") for _ in range(l))
        qual = "".join(rng.choice("ABCDEFGHI") for _ in range(l))
        out.append("@q%d {\"k\":%d}\n%s\n+\n%s\n" % (i, i, seq, qual))
    return "".join(out).encode()


def records_of(data, fmt):
    """id:length; of every record of a complete text (what the harness prints for delivered records)."""
    s = data.decode("latin1")
    ids = []
    if fmt == "fasta":
        for rec in s.split(">")[1:]:
            lines = rec.split("\n")
            ids.append("%s:%d;" % (lines[0].split(" ")[0], sum(len(x) for x in lines[1:])))
    else:
        lines = s.split("\n")
        for k in range(0, len(lines) - 3, 4):
            ids.append("%s:%d;" % (lines[k][1:].split(" ")[0], len(lines[k + 1])))
    return ids


def compress(codec, data):
    if codec == "gz":
        return gzip.compress(data, mtime=0)
    if codec == "bz2":
        return bz2.compress(data)
    if codec == "xz":
        return lzma.compress(data)
    if codec == "zst":
        return subprocess.run([ZSTD, "-c", "-q"], input=data, capture_output=True, check=True).stdout
    return data


def ref_decode(codec, blob):
    """Reference decoder: the complete decoded bytes, or None when the container is rejected."""
    try:
        if codec == "gz":
            return gzip.decompress(blob)
        if codec == "bz2":
            return bz2.decompress(blob)
        if codec == "xz":
            return lzma.decompress(blob)
        if codec == "zst":
            p = subprocess.run([ZSTD, "-dc", "-q"], input=blob, capture_output=True, timeout=20)
            return p.stdout if p.returncode == 0 else None
    except Exception:
        return None
    return blob


def mutate(blob, cut, flip):
    b = bytearray(blob)
    if flip >= 0 and flip // 8 < len(b):
        b[flip // 8] ^= 1 << (flip % 8)
    if 0 <= cut < len(b):
        b = b[:cut]
    return bytes(b)


MAGIC = dict(gz=b"\x1f\x8b", zst=b"\x28\xb5\x2f\xfd", xz=b"\xfd7zXZ\x00", bz2=b"BZh")


def sniffed_codec(blob):
    """The codec xopen.Buf selects from the magic bytes (same order, same short-file rule)."""
    for codec in ("gz", "zst", "xz", "bz2"):
        m = MAGIC[codec]
        if len(blob) < len(m):
            return "raw"
        if blob.startswith(m):
            return codec
    return "raw"


def recognised(data):
    return bool(re.match(rb"^>[^ ]", data) or re.match(rb"^@[^ ].*\n[^ ]+\n\+", data))


class Base:
    def __init__(self, ctx, tmp, name, codec, fmt, data):
        self.name, self.codec, self.fmt, self.data = name, codec, fmt, data
        self.blob = compress(codec, data)
        self.path = os.path.join(tmp, "%s.%s.%s" % (name, fmt, codec))
        with open(self.path, "wb") as f:
            f.write(self.blob)
        self.ids = records_of(data, fmt)


def expectation(base, case):
    """Direct oracle: ('ok', ids) | ('fatal',) | ('empty',) | None (unconstrained).
    Damaged container (reference decoder rejects it or gives other bytes) or injected fault => fatal;
    intact => ok with exactly all records; zero bytes of input => empty input, ok with no record."""
    blob = mutate(base.blob, case["cut"], case["flip"])
    if case["fault_at"] >= 0:
        return ("fatal",)
    if len(blob) == 0:
        return ("empty",)
    if blob == base.blob:
        return ("ok", base.ids)
    codec = sniffed_codec(blob)
    if codec != base.codec or codec == "raw":
        # the damage hit the magic bytes (or the file is plain text): the input is now another, uncompressed, file;
        # what it must give is a matter of the format parsers (C18), except that the complete original is never expected.
        if base.codec != "raw":
            return ("not-ok-all", base.ids)
        return None
    dec = ref_decode(codec, blob)
    if dec is None:
        return ("fatal",)
    if dec == base.data:
        return ("ok", base.ids)
    return ("not-ok-all", base.ids)       # decodes, to something else (checksums make this practically impossible)


def same_records(ids, expected):
    """Same records, as a multiset: the order of the batches is another property's business."""
    return sorted(x for x in ids.split(";") if x) == sorted(x.rstrip(";") for x in expected)


def judge(exp, o):
    """True when observation o satisfies expectation exp."""
    if exp is None:
        return True
    if o["kind"] not in ("ok", "fatal"):
        return False                      # timeout / panic / crash: neither a report nor a success
    if exp[0] == "fatal":
        return o["kind"] == "fatal"
    if exp[0] == "empty":
        return o["kind"] == "ok" and o.get("nrec", 0) == 0
    if exp[0] == "ok":
        return o["kind"] == "ok" and same_records(o.get("ids", ""), exp[1])
    if exp[0] == "not-ok-all":
        return not (o["kind"] == "ok" and same_records(o.get("ids", ""), exp[1]))
    return False


# ------------------------------------------------------------------ binary route
def run_binary(bindir, blob, fmt, stdin, tmp, k):
    o = run_binary_once(bindir, blob, fmt, stdin, tmp, k)
    if o["kind"] == "timeout":          # loaded machine: once more before the case is declared hung
        o = run_binary_once(bindir, blob, fmt, stdin, tmp, k)
    return o


def run_binary_once(bindir, blob, fmt, stdin, tmp, k):
    path = os.path.join(tmp, "b%d.dat" % k)
    with open(path, "wb") as f:
        f.write(blob)
    try:
        if stdin:
            with open(path, "rb") as f:
                p = subprocess.run([os.path.join(bindir, "obiconvert")], stdin=f, capture_output=True, timeout=60)
        else:
            p = subprocess.run([os.path.join(bindir, "obiconvert"), path], capture_output=True, timeout=60)
    except subprocess.TimeoutExpired:
        return dict(kind="timeout", nrec=0)
    finally:
        os.unlink(path)
    out = p.stdout
    ids = []
    if out.startswith(b">"):
        ids = records_of(out, "fasta")
    elif out.startswith(b"@"):
        # fastq output: 4 lines per record
        ids = records_of(out, "fastq")
    if p.returncode == 0:
        return dict(kind="ok", nrec=len(ids), ids="".join(ids))
    if p.returncode == 1:
        return dict(kind="fatal", nrec=len(ids), err=p.stderr.decode("utf8", "replace")[-160:])
    return dict(kind="panic", nrec=len(ids), err="exit status %s: %s" % (p.returncode, p.stderr.decode("utf8", "replace")[-300:]))


# ------------------------------------------------------------------ cases
def make_bases(ctx, tmp):
    rng = ctx.rng
    bases = []
    nfa, nfq = (5, 3) if ctx.quick else (12, 8)
    for codec in ("gz", "bz2", "xz", "zst"):
        bases.append(Base(ctx, tmp, "small", codec, "fasta", gen_fasta(rng, nfa)))
        bases.append(Base(ctx, tmp, "small", codec, "fastq", gen_fastq(rng, nfq)))
    bases.append(Base(ctx, tmp, "multi", "gz", "fasta", gen_fasta(rng, 40, multiline=True)))
    bases.append(Base(ctx, tmp, "plain", "raw", "fasta", gen_fasta(rng, 6)))
    bases.append(Base(ctx, tmp, "plain", "raw", "fastq", gen_fastq(rng, 4)))
    if not ctx.quick:
        for codec in ("bz2", "xz", "zst"):
            bases.append(Base(ctx, tmp, "multi", codec, "fasta", gen_fasta(rng, 40, multiline=True)))
    # more than 1 MiB of text: the sniffer's ReadFull is complete and the fault is met by ReadSeqFileChunk at its production size
    big = gen_big_fasta(rng, 1300000)
    for codec in (("gz",) if ctx.quick else ("gz", "bz2", "zst")):
        bases.append(Base(ctx, tmp, "big", codec, "fasta", big))
    return bases


def gen_big_fasta(rng, size):
    out, n, i = [], 0, 0
    while n < size:
        seq = "".join(rng.choices("acgt", k=400))
        rec = ">b%d\n%s\n" % (i, seq)
        out.append(rec)
        n += len(rec)
        i += 1
    return "".join(out).encode()


SMALL_B = [2, 3, 4, 5, 7, 8, 13, 16, 33, 64, 100, 257, 1000]


def gen_faults(ctx, bases):
    """List of (base index, cut, flip, fault_at, tag)."""
    rng = ctx.rng
    faults = []
    for bi, b in enumerate(bases):
        n = len(b.blob)
        faults.append((bi, -1, -1, -1, "intact"))
        if b.name == "big":
            # cuts late enough for more than 1 MiB to be decoded before the fault
            for cut in [n - 1, n - 8, n - 9, n - 200, n - n // 50] + ([] if ctx.quick else [n - n // 20, n - n // 10]):
                faults.append((bi, cut, -1, -1, "cut"))
            faults.append((bi, -1, -1, n - n // 40, "inject"))
            continue
        if b.codec != "raw":
            cuts = range(0, n) if (b.name == "small" or not ctx.quick) else sorted(rng.sample(range(0, n), 120))
            for cut in cuts:
                faults.append((bi, cut, -1, -1, "cut"))
        else:
            faults.append((bi, 0, -1, -1, "cut"))
        ks = range(0, n) if (b.name != "multi" and (b.codec in ("gz", "raw") or not ctx.quick)) else sorted(rng.sample(range(0, n), 40))
        for k in ks:
            faults.append((bi, -1, -1, k, "inject"))
        if b.codec == "raw":
            faults.append((bi, -1, -1, n, "inject"))
    nflip = 200 if ctx.quick else 3000
    comp = [i for i, b in enumerate(bases) if b.codec != "raw" and b.name != "big"]
    for _ in range(nflip):
        bi = rng.choice(comp)
        faults.append((bi, -1, rng.randrange(0, 8 * len(bases[bi].blob)), -1, "flip"))
    return faults


def vh_cases(ctx, bases, faults, mode, pick_b=False):
    cs = []
    for (bi, cut, flip, fat, tag) in faults:
        c = dict(mode=mode, path=bases[bi].path, cut=cut, flip=flip, fault_at=fat, b=0)
        if pick_b:
            c["b"] = ctx.rng.choice(SMALL_B)
        cs.append(c)
    return cs


def strip_nl(b):
    return bytes(x for x in b if x not in (10, 13))


# ------------------------------------------------------------------ evaluation
KNOWN_XZ = "xz-clean-eof-on-truncation"
KNOWN_XZ_LINE = ("an xz input cut inside a block header (or between the last block and the index) is accepted: the xz library "
                 "(ulikunitz/xz) itself ends such a stream with a clean io.EOF, so the command exits 0 with the blocks decoded so far")
IMPORTS = ("From Coq Require Import List NArith ZArith Bool. Import ListNotations. Open Scope N_scope.\n"
           "From OBI.C17 Require Import Model.")


class RawBase:
    """A container given by its bytes (replay files)."""
    def __init__(self, tmp, d):
        self.name, self.codec, self.fmt = d["file"].split(".")[0], d["codec"], d["fmt"]
        self.blob = base64.b64decode(d["container_b64"])
        self.data = base64.b64decode(d["text_b64"])
        self.path = os.path.join(tmp, "replay.%s.%s" % (self.fmt, self.codec))
        with open(self.path, "wb") as f:
            f.write(self.blob)
        self.ids = records_of(self.data, self.fmt)


def describe(base, f):
    bi, cut, flip, fat, tag = f
    return dict(file="%s.%s.%s" % (base.name, base.fmt, base.codec), codec=base.codec, fmt=base.fmt, container_len=len(base.blob),
                cut=cut, flip=flip, fault_at=fat, kind=tag, container_b64=base64.b64encode(base.blob).decode(),
                text_b64=base64.b64encode(base.data).decode())


def report(ctx, state, name, route, base, f, obs, exp, extra=None, known=None):
    """Oracle failure: known finding or VIOLATION (at most 3 replays per route)."""
    if known and ctx.kf_match(known):
        ctx.known(known, KNOWN_XZ_LINE)
        state["known"] = state.get("known", 0) + 1
        return
    k = state.setdefault("nviol", {})
    k[route] = k.get(route, 0) + 1
    if k[route] <= 3:
        rp = dict(property="C17", kind="direct-oracle", route=route, case=describe(base, f), implementation=obs,
                  expected=list(exp) if exp else None)
        if extra:
            rp.update(extra)
        ctx.violation("%s_%s_%d" % (route, name, k[route]), rp)


FIN = dict(eof="REof", unexpected="RUnexpectedEof", injected="ROther", other="ROther")


def ext_of(b):
    """Size of the extension reads of ReadSeqFileChunk in the tree under test: fileChunkSize-1, fileChunkSize once the
    C01 repair is in (the theorems hold for every size >= 1, the observables compared here do not depend on it)."""
    from vlib import REPO
    try:
        src = open(os.path.join(REPO, "pkg/obiformats/seqfile_chunk_read.go")).read()
    except OSError:
        src = ""
    return b - 1 if re.search(r"l\s*\+\s*fileChunkSize\s*-\s*1", src) else b


def case_term(probe, sn, b, recog, obs, bi=None, text=None):
    if probe.get("open") == "ok":
        data, fin, hdr = base64.b64decode(probe.get("data", "")), FIN[probe["fin"]], "true"
    elif probe.get("open") == "nocontent":
        data, fin, hdr = b"", "REof", "true"
    else:
        data, fin, hdr = b"", "REof", "false"
    if text is not None and len(data) > 8 and text.startswith(data):
        lit = "(pre %d T%d)" % (len(data), bi)          # a prefix of the text of container bi (defined once per shard)
    else:
        lit = "[%s]" % ";".join(str(x) for x in data)
    return "mkc %s %s %s %s %d %d %s (%s)" % (lit, fin, hdr, "(Some %d)" % sn if sn else "None", b, ext_of(b),
                                              "true" if recog else "false", obs)


def imports_for(bases):
    """Model import + the text of every (small) container, so that a decoded prefix is written `pre n Tk`."""
    defs = ["Definition pre (n : N) (l : list N) : list N := fst (fst (take n l))."]
    for k, b in enumerate(bases):
        if b.name != "big":
            defs.append("Definition T%d : list N := [%s]." % (k, ";".join(str(x) for x in b.data)))
    return IMPORTS + "\n" + "\n".join(defs)


def decoded_of(probe):
    return base64.b64decode(probe.get("data", "")) if probe.get("open") == "ok" else b""


def obs_records(o, probe, fmt):
    if o["kind"] == "fatal":
        return "OFatal"
    if o["kind"] != "ok":
        return "ODiverges"
    dec = decoded_of(probe)
    try:
        full = records_of(dec, fmt)
    except Exception:
        full = None
    return "OOkAll" if full is not None and same_records(o.get("ids", ""), full) else "OOkPartial"


def obs_chunks(o):
    if o["kind"] == "fatal":
        return "OFatal"
    if o["kind"] != "ok":
        return "ODiverges"
    d = strip_nl(base64.b64decode(o.get("chunks", "")))
    return "OOkBytes %d %d" % (len(d), sum(d))


def run(ctx, broken):
    tmp = tempfile.mkdtemp(prefix="c17_")
    try:
        res = _run(ctx, broken, tmp)
        if res["mism"] and not ctx.violations:
            # the model and the code diverge although the direct oracle is satisfied: search harder (more bit flips,
            # every truncation point of the larger files) before reporting the bare divergence
            ctx.cov["search"] = "extended"
            saved = dict(ctx.cov)
            _run(ctx, [], tmp, extended=True)
            ctx.cov.update(saved)
            if not ctx.violations:
                m = res["mism"][0]
                broken.append(dict(kind="correspondence", name="corr:C17/" + m["route"], first_diverging_case=m, n_diverging=len(res["mism"])))
    finally:
        shutil.rmtree(tmp, ignore_errors=True)


def _run(ctx, broken, tmp, bases=None, faults=None, extended=False):
    t0 = time.time()
    if bases is None:
        quick = ctx.quick and not extended
        saved_tier = ctx.tier
        ctx.tier = "quick" if quick else "thorough"
        try:
            bases = make_bases(ctx, tmp)
            faults = gen_faults(ctx, bases)
        finally:
            ctx.tier = saved_tier
    sparse = ctx.quick and not extended
    state = {}
    exps = [expectation(bases[f[0]], dict(cut=f[1], flip=f[2], fault_at=f[3])) for f in faults]
    dist = {}
    terms = []       # (route, fault index, Gallina term)

    def count(route, i, o):
        k = "%s/%s/%s/%s" % (route, bases[faults[i][0]].codec, faults[i][4], o["kind"])
        dist[k] = dist.get(k, 0) + 1

    # --- route 0: probe (codec contract + the decoded stream of every case); the xz library alone on the xz cases
    probe = ctx.vh_robust("c17", vh_cases(ctx, bases, faults, "probe"), timeout=900, one_timeout=120)
    xzi = [i for i, f in enumerate(faults) if bases[f[0]].codec == "xz" and f[3] < 0]
    xzo = ctx.vh_robust("c17", vh_cases(ctx, bases, [faults[i] for i in xzi], "xzlib"), timeout=900, one_timeout=120)
    known = {}
    for i, o in zip(xzi, xzo):
        if exps[i] and exps[i][0] == "fatal" and o.get("kind") == "ok" and o.get("open") == "ok" and o.get("fin") == "eof":
            known[i] = KNOWN_XZ     # the reference decoder rejects the container, the library ends it with io.EOF
    for i, (f, e, o) in enumerate(zip(faults, exps, probe)):
        b = bases[f[0]]
        count("probe", i, o)
        if o.get("kind") != "ok":
            report(ctx, state, "crash", "probe", b, f, o, e)
        elif e and e[0] == "fatal" and o.get("open") == "ok" and o.get("fin") == "eof":
            report(ctx, state, "codec_contract", "probe", b, f, o, e,
                   dict(note="the decompressor ended a damaged container with a clean io.EOF (codec contract of the model broken)"), known=known.get(i))
        elif e and e[0] == "fatal" and o.get("open") == "nocontent":
            report(ctx, state, "nocontent", "probe", b, f, o, e, dict(note="Buf reports a damaged input as ErrNoContent (empty file)"), known=known.get(i))

    tm = {"probe_s": round(time.time() - t0, 1)}
    # --- route 1: in-process, production sizes (reader = body of ReadSequencesFromFile on a reader; file = ReadSequencesFromFile)
    routes = {}
    routes["reader"] = (list(range(len(faults))), ctx.vh_robust("c17", vh_cases(ctx, bases, faults, "reader"), timeout=1800, one_timeout=120))
    fidx = [i for i, f in enumerate(faults) if f[3] < 0 and (f[4] != "cut" or not sparse or i % 3 == 0)]
    routes["file"] = (fidx, ctx.vh_robust("c17", vh_cases(ctx, bases, [faults[i] for i in fidx], "file"), timeout=1800, one_timeout=120))
    for route, (idx, obs) in routes.items():
        for i, o in zip(idx, obs):
            count(route, i, o)
            if not judge(exps[i], o):
                report(ctx, state, faults[i][4], route, bases[faults[i][0]], faults[i], o, exps[i], known=known.get(i))
            if bases[faults[i][0]].name != "big":      # 1.3 MB of text per term: the big cases are judged by the direct oracle only
                terms.append((route, i, o, case_term(probe[i], 1048576, 1048576, recognised(decoded_of(probe[i])), obs_records(o, probe[i], bases[faults[i][0]].fmt), faults[i][0], bases[faults[i][0]].data)))

    tm["reader_file_s"] = round(time.time() - t0, 1)
    # --- route 2: ReadSeqFileChunk with small buffers behind Buf (FASTA bases only: the splitter is EndOfLastFastaEntry)
    cidx = [i for i, f in enumerate(faults) if bases[f[0]].fmt == "fasta" and bases[f[0]].name != "big"]
    ccases = vh_cases(ctx, bases, [faults[i] for i in cidx], "chunk", pick_b=True)
    cobs = ctx.vh_robust("c17", ccases, timeout=1800, one_timeout=120)
    for i, c, o in zip(cidx, ccases, cobs):
        b, e = bases[faults[i][0]], exps[i]
        count("chunk", i, o)
        good = True
        if o["kind"] not in ("ok", "fatal"):
            good = False
        elif e and e[0] == "fatal":
            good = o["kind"] == "fatal"
        elif e and e[0] == "ok":
            good = o["kind"] == "ok" and strip_nl(base64.b64decode(o.get("chunks", ""))) == strip_nl(b.data)
        elif e and e[0] == "empty":
            good = o["kind"] == "ok" and o.get("nchunks", 0) == 0
        if not good:
            report(ctx, state, faults[i][4], "chunk", b, faults[i], o, e, dict(B=c["b"]), known=known.get(i))
        terms.append(("chunk", i, dict(o, B=c["b"]), case_term(probe[i], None, c["b"], True, obs_chunks(o), faults[i][0], b.data)))

    tm["chunk_s"] = round(time.time() - t0, 1)
    # --- route 3: the obiconvert binary, file argument and stdin
    bindir, err = ctx.build_cmds(["obiconvert"])
    nbin = 0
    if bindir is None:
        broken.append(dict(kind="command-build", detail=err))
    else:
        bidx = [i for i, f in enumerate(faults) if f[3] < 0 and (not sparse or f[4] != "cut" or bases[f[0]].fmt == "fasta" or i % 4 == 0)]
        jobs = [(i, stdin) for i in bidx for stdin in (False, True)]

        def one(j):
            k, (i, stdin) = j
            f = faults[i]
            return run_binary(bindir, mutate(bases[f[0]].blob, f[1], f[2]), bases[f[0]].fmt, stdin, tmp, k)
        with ThreadPoolExecutor(max_workers=12) as ex:
            res = list(ex.map(one, list(enumerate(jobs))))
        nbin = len(res)
        for (i, stdin), o in zip(jobs, res):
            route = "bin_stdin" if stdin else "bin_file"
            count(route, i, o)
            if not judge(exps[i], o):
                report(ctx, state, faults[i][4], route, bases[faults[i][0]], faults[i], o, exps[i], known=known.get(i))
            if bases[faults[i][0]].name != "big":      # 1.3 MB of text per term: the big cases are judged by the direct oracle only
                terms.append((route, i, o, case_term(probe[i], 1048576, 1048576, recognised(decoded_of(probe[i])), obs_records(o, probe[i], bases[faults[i][0]].fmt), faults[i][0], bases[faults[i][0]].data)))

    tm["binary_s"] = round(time.time() - t0, 1)
    # --- correspondence with the model (repaired error handling)
    mism = []
    uniq = {}                     # the four production-size routes give the same term for the same fault when they agree
    for k, t in enumerate(terms):
        uniq.setdefault(t[3], []).append(k)
    uterms = list(uniq)
    budget = 60_000_000       # characters of Gallina source per run (about 20 ms of coqc per kB)
    stride = max(1, -(-sum(len(t) for t in uterms) // budget))
    if stride > 1:
        # too much for one run: every short term, one long term (more than 2 kB of decoded data) out of `stride`
        uterms = [t for k, t in enumerate(uterms) if len(t) < 6000 or k % stride == 0]
        ctx.cov["model_terms_sampled"] = "long terms 1/%d" % stride
    label = "%s%d" % ("ext" if extended else "main", os.getpid())      # private file names: concurrent runs of this check do not collide
    try:
        bad, err = ctx.correspond(label, imports_for(bases), uterms, shard=200)
    finally:
        import glob
        from vlib import BUILD
        for fn in glob.glob(os.path.join(BUILD, "coq", "%s_%s_*" % (ctx.pid, label))) + glob.glob(os.path.join(BUILD, "coq", ".%s_%s_*" % (ctx.pid, label))):
            try:
                os.unlink(fn)
            except OSError:
                pass
    ctx.cov["model_terms_distinct"] = len(uterms)
    if bad is None:
        broken.append(dict(kind="correspondence", detail=err))
    else:
        for k in [k for u in bad for k in uniq[uterms[u]]]:
            route, i, o, term = terms[k]
            mism.append(dict(route=route, case=describe(bases[faults[i][0]], faults[i]), implementation=o, probe=dict(probe[i], data=None),
                             model_term=term if len(term) < 2000 else term[:2000] + "..."))

    tm["coq_s"] = round(time.time() - t0, 1)
    ctx.cov["cumulative_times"] = tm
    ctx.cov["run_s"] = round(time.time() - t0, 1)
    ctx.cov["evaluations"] = len(probe) + len(xzo) + sum(len(v[1]) for v in routes.values()) + len(cobs) + nbin
    ctx.cov["distinct_nontrivial"] = len({(bases[f[0]].path, f[1], f[2], f[3]) for f, e in zip(faults, exps) if e and e[0] == "fatal"})
    ctx.cov["faults"] = len(faults)
    ctx.cov["rule"] = ("fault = (container file, truncation point | flipped bit | byte offset of an injected read error); non-trivial = the reference decoder "
                       "rejects the damaged container (or a read error is injected), so the property demands a fatal outcome; distinct = distinct "
                       "(file, cut, bit, offset); every fault goes through the probe / reader / chunk(small B) routes, the non-injected ones also through "
                       "ReadSequencesFromFile and the obiconvert binary (file argument and stdin)")
    ctx.cov["distribution"] = dict(sorted(dist.items()))
    ctx.cov["containers"] = {"%s.%s.%s" % (b.name, b.fmt, b.codec): dict(bytes=len(b.blob), text_bytes=len(b.data), records=len(b.ids)) for b in bases}
    ctx.cov["oracle_failures"] = state.get("nviol", {})
    ctx.cov["known_finding_witnesses"] = state.get("known", 0)
    ctx.cov["model_vs_impl_mismatches"] = len(mism)
    if mism and ctx.violations:
        ctx.cov["note"] = "model and implementation diverge on %d cases (violations reported by the direct oracle)" % len(mism)
    picks = [0, len(faults) // 3, len(faults) // 2, len(faults) - 1]
    ctx.samples = [dict(fault=dict(describe(bases[faults[i][0]], faults[i]), container_b64=None, text_b64=None), expected=exps[i],
                        probe=dict(probe[i], data=None), reader_route=routes["reader"][1][i]) for i in picks if i < len(faults)]
    return dict(bases=bases, faults=faults, exps=exps, probe=probe, routes=routes, chunk=(cidx, ccases, cobs), mism=mism, terms=terms)


def replay(ctx, rp):
    if "case" not in rp:
        print("replay: nothing to re-run in this file (%s)" % rp.get("reason", rp.get("kind")))
        return
    tmp = tempfile.mkdtemp(prefix="c17r_")
    try:
        c = rp["case"]
        base = RawBase(tmp, c)
        f = (0, c["cut"], c["flip"], c["fault_at"], c.get("kind", "replay"))
        broken = []
        res = _run(ctx, broken, tmp, bases=[base], faults=[f])
        print("replay: %s cut=%s flip=%s fault_at=%s  expected=%s" % (c["file"], c["cut"], c["flip"], c["fault_at"], res["exps"][0]))
        pr = dict(res["probe"][0])
        pr.pop("data", None)
        print("  probe (Buf + read all):", pr)
        for route, i, o, term in res["terms"]:
            print("  %-9s -> %s" % (route, {k: v for k, v in o.items() if k not in ("chunks",)}))
        print("  model:", "MISMATCH on " + ", ".join(m["route"] for m in res["mism"]) if res["mism"] else "agrees on every route")
        if broken:
            print("  broken:", broken)
    finally:
        shutil.rmtree(tmp, ignore_errors=True)
