"""C13 — obiclean graph is exact and identical for any worker count."""
import json, os, glob, re, math
from fractions import Fraction
import vlib

PROPS = ["C13/Props.v", "C13/PropsFloat.v", "C13/Props3.v"]
META = dict(
    text="Rocq theorems over an executable model of pkg/obitools/obiclean (D1Or0 kernel, stable sort by count, row-wise pair loop, the two "
         "worker pools as a transition system whose shared operation is the son-counter increment, atomic or read-then-write; reweighting, "
         "ratio filter, status; the data set split by sample and the annotations written on every sequence): a son is linked to a father "
         "exactly when the father is strictly more abundant and the sequences are one substitution or one indel apart, the edge carries that "
         "edit, status i/h/s and the head flag are exact, the weights are the unique solution of the propagation equation, and every complete "
         "run of any number of workers under every schedule ends in the same graph when the increment is atomic (for every distance), while a "
         "2-worker schedule loses an increment and changes a status when it is not (witnesses for both pools; the original code, repaired). "
         "Round 2: the --distance > 1 pass is exact for every kernel that is exact inside its band (the model's LCS dynamic program is proved "
         "to compute the optimum over all global alignments of an inductive relation, lcs_d = alignment length - lcs); its tie rule (links to "
         "every later node, no abundance test, ties by position in the loaded data set) and 'weights are those of the one-difference graph' "
         "are theorems; per-sample split, obiclean_status/weight per sample, union of the mutation maps, obiclean_head and the four counts "
         "are modelled and proved; the float64 ratio test and weight rounding are proved (Flocq) equal to the model's rational arithmetic "
         "under stated bounds, non-dyadic ratios included. Every run rebuilds the harness from the working tree, builds the graphs of "
         "generated data sets (stars, deep chains, ties everywhere, top-abundance chains, samples of >= 32 x workers sequences, homopolymer "
         "indels, all sequences over small alphabets) with 1..32 workers x repetitions through the real functions, through CLIOBIClean (also "
         "under permuted batch arrival histories) and through the built obiclean command, checks them against a direct Python oracle and "
         "against the model evaluated by vm_compute (per sample and for the whole data set), and runs the -race build: a race report whose "
         "access is in package obiclean is raised as a violation. Round 3: the sample table reaches the code in every form StatsOn accepts "
         "(map of ints, map of interfaces as left by the header parser, StatsOnValues, no table at all: the attribute itself, a number, or "
         "absent = NA, read counts from count or from a named attribute), under another attribute name, after an earlier obiclean run on the "
         "same objects; the built command is run on the data set as a file, on stdin, as two files (also --no-order), gzip-compressed, with -o "
         "and the short option names, on never-merged records, and with --save-graph / --save-ratio / --min-eval-rate, whose files are judged "
         "by a direct oracle and against Model3 (theorems of Props3.v: the table of nucleotide pairs never leaves its 25 slots and reads back "
         "what was filed, the ratio table is a code-sorted permutation of exactly the remaining distance-1 edges whose father weighs at least "
         "the threshold, each row states the true edit father -> son, the graph file lists exactly the non-singletons, heads in blue, and every "
         "remaining edge).",
    note="Trusted: Coq kernel + vm_compute, Go race detector, harness and generators. Go scheduler/channels/WaitGroup are modelled as "
         "nondeterministic choice of the next worker; the increment under the mutex is modelled as one indivisible step. That the real banded "
         "kernel FastLCSScore is exact inside its band is the hypothesis of C13_extended_edges_exact (checked by property C09 and, on every "
         "run here, by the correspondence of the distance 2/3 cases). Float arithmetic: C13_ratio_test_float_exact (w_father * Q <= 2^52) and "
         "C13_round_div_float_exact (w * count < 2^52) justify the exact rationals of the model at distance 1 for any decimal ratio P/Q; they "
         "rest on the axioms of the Coq real numbers (Flocq) and on Go's `/` being the IEEE-754 correctly rounded quotient (C13_b64_ratio_test ties "
         "the statement to Flocq's binary64 Bdiv/Bleb); at distance 2 the float test is proved exact off the boundary w_son/w_father = (P/Q)^2 "
         "(C13_ratio_test_d2_float_exact_off_boundary, math.Pow(r,2) taken as the rounded square); samples with an edge exactly on "
         "w_son/w_father = (P/Q)^dist, dist >= 2, are left to the float oracle (counted in the evidence); math.Pow(r,3) is modelled exactly. Findings: lost son-counter updates (fixed, round 1); Load returned the batches "
         "in arrival order, which made --distance > 1 outputs differ from run to run through the tie rule (fixed, round 2). Observations (not "
         "against C13): no reweighting after the extension nor after the ratio filter removed links; dead getters HeadCount/InternalCount/"
         "SingletonCount always return 0; the rows of the --save-ratio file come in the order the Go map of samples is walked (the file differs "
         "byte-wise from run to run, the rows are the same: compared as a multiset); a letter outside a/c/g/t is written '-' in that file. "
         "Outside the property / not exercised: abs, max, min, minMax (graph.go) and GetCluster, ClusterMode are dead code (the cluster mode is "
         "commented out); the panic branches of IsHead, HeadCount, InternalCount, SingletonCount, Weight need an annotation of the wrong type "
         "written by something else than obiclean (CLIOBIClean now deletes or overwrites them before reading); the map[string]interface{} "
         "branches of Status / Weight / GetMutation are reached only through the graph hook, never through CLIOBIClean since the stale-"
         "annotation fix; the panic of StatsOn needs a merged table holding non-integers (malformed input); FastLCSEGFScore (end-gap-free "
         "mode), the IUPAC branches of _samenuc and the out-of-band branches of FastLCSEGFScoreByte belong to property C09 (obiclean calls "
         "FastLCSScore on a/c/g/t reads only: ambiguity codes at --distance > 1 are outside the statement); Merge, HasStatsOn, BioseqCount "
         "(obiseq/merge.go) are obiuniq's (property C06); output formats and compression of the written sequences are C04's.")
TRUSTED = ["Go race detector: absence of a report on obiclean state is taken as 'the increment is Atomic' (model parameter inc_kind)",
           "kernel_exact_in_band for the real obialign.FastLCSScore (hypothesis of C13_extended_edges_exact; discharged for the model's plain DP by "
           "C13_model_kernel_exact_in_band; for the Go kernel it is property C09's obligation and is exercised here by the distance 2/3 correspondence), "
           "a/c/g/t symbols only",
           "IEEE-754: Go float64 division = Flocq round-to-nearest-even of the exact quotient, int->float64 exact below 2^53, math.Round exact, "
           "math.Pow(r, 1) = r; Coq Reals axioms (ClassicalDedekindReals, functional extensionality, classic) for the two theorems of PropsFloat.v only",
           "math.Pow(r, 2) = correctly rounded r*r (Go: frexp, one rounded product of the mantissas, ldexp): with it C13_ratio_test_d2_float_exact_off_boundary "
           "proves the distance-2 test exact off the boundary w_son/w_father = (P/Q)^2 (w_father * Q^2 <= 2^50); math.Pow(r, 3) is modelled by the exact "
           "rational power; samples with an edge exactly on the boundary (dist >= 2) are excluded from the Coq correspondence (float oracle only)",
           "ids of the sequences of a data set are distinct (find_node looks a node up by id)"]

ALPH = "acgt"
RATIOS = [1.0, 1.0, 0.5, 0.25, 0.75, 0.125, 0.1, 0.05, 0.2, 0.3, 0.7]


def ratio_pq(r):
    """the decimal ratio typed by the user as an exact fraction P/Q (repr of the float = the shortest decimal)"""
    f = Fraction(repr(r))
    return f.numerator, f.denominator


def go_pow(x, n):
    """math.Pow(x, n) of Go for a small positive integer n and 0 < x <= 1: frexp, square-and-multiply on the mantissa
    (every product rounded), ldexp; Pow(x, 1) = x"""
    if n == 1 or x == 1.0:
        return x
    x1, xe = math.frexp(x)
    a1, ae, i = 1.0, 0, n
    while i:
        if i & 1:
            a1 *= x1
            ae += xe
        x1 *= x1
        xe <<= 1
        if x1 < 0.5:
            x1 += x1
            xe -= 1
        i >>= 1
    return math.ldexp(a1, ae)
RACE_PKG = "pkg/obitools/obiclean."


# ----------------------------------------------------------------------------- generators
def rseq(rng, n):
    return "".join(rng.choice(ALPH) for _ in range(n))


def mutate1(rng, s):
    """a sequence exactly one substitution / insertion / deletion away from s"""
    while True:
        k = rng.choice(["sub", "sub", "ins", "del"]) if s else "ins"
        if k == "sub":
            p = rng.randrange(len(s))
            t = s[:p] + rng.choice([c for c in ALPH if c != s[p]]) + s[p + 1:]
        elif k == "ins":
            p = rng.randrange(len(s) + 1)
            t = s[:p] + rng.choice(ALPH) + s[p:]
        else:
            p = rng.randrange(len(s))
            t = s[:p] + s[p + 1:]
        if t != s:
            return t


COUNTS = [1, 1, 1, 2, 2, 3, 3, 4, 5, 7, 10, 10, 20, 50, 100, 100, 1000, 12345]


def sample_counts(rng, samples, base=None):
    """counts of one sequence in a random non-empty subset of the samples"""
    ss = [s for s in samples if rng.random() < 0.7] or [rng.choice(samples)]
    return {s: (base if base is not None and rng.random() < 0.5 else rng.choice(COUNTS)) for s in ss}


def gen_dataset(rng, kind, size):
    samples = ["A", "B", "C", "D", "E"][:rng.choice([1, 1, 2, 3, 3, 5])]
    L = rng.choice([0, 1, 2, 3, 5, 8, 12, 20, 40])
    seqs = []
    if kind == "star":
        L = max(L, 3)
        c = rseq(rng, L)
        seqs.append((c, {s: rng.choice([50, 100, 1000, 12345]) for s in samples}))
        seen = {c}
        for _ in range(size):
            v = mutate1(rng, c)
            if v in seen:
                continue
            seen.add(v)
            seqs.append((v, sample_counts(rng, samples, base=rng.choice([1, 2, 3]))))
    elif kind == "chain":
        s = rseq(rng, max(L, 2))
        cnt = rng.choice([200, 1000])
        mode = rng.choice(["dec", "ties", "rand"])
        for i in range(size + 1):
            seqs.append((s, {x: (max(1, cnt) if mode != "rand" else rng.choice(COUNTS)) for x in samples}))
            s = mutate1(rng, s)
            if mode == "dec" or (mode == "ties" and rng.random() < 0.5):
                cnt = cnt // 2 if rng.random() < 0.5 else cnt - 1
    elif kind == "homopolymer":
        blocks = [rng.choice(ALPH) * rng.randrange(1, 5) for _ in range(rng.randrange(1, 5))]
        c = "".join(blocks)
        pool = [c]
        seqs.append((c, {s: rng.choice(COUNTS) for s in samples}))
        for _ in range(size):
            v = mutate1(rng, rng.choice(pool))
            pool.append(v)
            seqs.append((v, sample_counts(rng, samples)))
    elif kind == "ties":
        c = rseq(rng, max(L, 2))
        pool = [c]
        for _ in range(size + 1):
            seqs.append((pool[-1], {s: rng.choice([3, 3, 3, 4]) for s in samples}))
            pool.append(mutate1(rng, rng.choice(pool)))
    elif kind == "deepchain":
        # chains longer than 2: the weights flow over several levels; every level has low-count leaves and ties
        s0 = rseq(rng, max(L, 6))
        cnt = rng.choice([5000, 100000, 2 ** 20])
        seen = {s0}
        level = s0
        for depth in range(rng.randrange(3, 8)):
            seqs.append((level, {x: cnt for x in samples}))
            for _ in range(rng.randrange(0, 1 + max(1, size // 6))):
                v = mutate1(rng, level)
                if v not in seen:
                    seen.add(v)
                    seqs.append((v, {x: rng.choice([1, 1, 2, 3]) for x in samples if rng.random() < 0.8} or {samples[0]: 1}))
            nxt = mutate1(rng, level)
            while nxt in seen:
                nxt = mutate1(rng, nxt)
            seen.add(nxt)
            level = nxt
            cnt = max(4, cnt // rng.choice([2, 3, 10])) if rng.random() < 0.8 else cnt     # sometimes a tie between levels
    elif kind == "alltie":
        # abundance ties everywhere: no link at distance 1, links by position at distance > 1
        c = rseq(rng, max(L, 4))
        pool = [c]
        k = rng.choice([1, 1, 5])
        for _ in range(size + 1):
            seqs.append((pool[-1], {x: k for x in samples}))
            v = mutate1(rng, rng.choice(pool)) if rng.random() < 0.5 else mutate1(rng, mutate1(rng, rng.choice(pool)))
            pool.append(v)
    elif kind == "topchain":
        # the most abundant sequences of the sample are variants of each other
        c = rseq(rng, max(L, 5))
        top = [c]
        for _ in range(rng.randrange(1, 4)):
            top.append(mutate1(rng, top[-1]))
        cs = sorted((rng.choice([1000, 5000, 5000, 20000, 100000]) for _ in top), reverse=True)
        for t, k in zip(top, cs):
            seqs.append((t, {x: k for x in samples}))
        for _ in range(size):
            v = mutate1(rng, rng.choice(top)) if rng.random() < 0.6 else rseq(rng, len(c))
            seqs.append((v, sample_counts(rng, samples, base=rng.choice([1, 2, 3]))))
    elif kind == "adjacent":
        # round 3 (lead of a seeded change): an indel right next to a substitution, P x y S versus P z S: edit distance 2
        # (unless z = x or z = y) although the common prefix and the common suffix cover all but two / one positions
        P, S = rseq(rng, rng.choice([0, 0, 1, 2, 5])), rseq(rng, rng.choice([0, 0, 1, 2, 5]))
        seen = set()
        for _ in range(size + 2):
            x, y, z = rng.choice(ALPH), rng.choice(ALPH), rng.choice(ALPH)
            for v in (P + x + y + S, P + z + S, P + y + x + S):
                if v not in seen and rng.random() < 0.8:
                    seen.add(v)
                    seqs.append((v, sample_counts(rng, samples)))
    elif kind == "mixedlen":
        # round 3: very different lengths in one sample: at distance > 1 a worker's alignment buffer is reused for a long
        # pair, then a short one, then a long one again
        pool = [rseq(rng, n) for n in rng.sample([3, 6, 9, 14, 22, 33, 47], rng.randrange(2, 5))]
        for p0 in pool:
            seqs.append((p0, sample_counts(rng, samples)))
        for _ in range(size):
            v = rng.choice(pool)
            for _ in range(rng.choice([1, 2, 2, 3])):
                v = mutate1(rng, v)
            pool.append(v)
            seqs.append((v, sample_counts(rng, samples)))
    else:  # random families
        pool = [rseq(rng, L) for _ in range(rng.randrange(1, 4))]
        for p in pool:
            seqs.append((p, sample_counts(rng, samples)))
        for _ in range(size):
            r = rng.random()
            if r < 0.75 and pool:
                v = mutate1(rng, rng.choice(pool))
            elif r < 0.85 and pool:
                v = mutate1(rng, mutate1(rng, rng.choice(pool)))
            elif r < 0.9 and pool:
                v = rng.choice(pool)           # duplicate sequence, different id
            else:
                v = rseq(rng, rng.choice([0, 1, 2, L, L + 1]))
            pool.append(v)
            seqs.append((v, sample_counts(rng, samples)))
    rng.shuffle(seqs)
    return [dict(id="s%d" % i, seq=s, counts=c) for i, (s, c) in enumerate(seqs)]


FORMS = ["", "", "", "iface", "stats", "attr", "attr", "attrbad"]
RENAMES = [dict(A="A", B="B", C="C", D="D", E="E"), dict(A="7", B="NA", C="C", D="D", E="08"), dict(A="NA", B="12", C="x y", D="-1", E="E")]


def gen_case(rng, size, workers, reps):
    kind = rng.choice(["star", "chain", "homopolymer", "ties", "random", "random", "deepchain", "alltie", "topchain", "adjacent", "mixedlen"])
    dist = rng.choice([1, 1, 1, 1, 2, 3]) if kind not in ("alltie", "mixedlen") else rng.choice([1, 2, 2, 3])
    ratio = rng.choice(RATIOS)
    c = dict(kind=kind, seqs=gen_dataset(rng, kind, rng.randrange(1, size + 1)), dist=dist, ratio=ratio,
             workers=workers, reps=reps, cli=rng.random() < 0.5, head=rng.random() < 0.2)
    if c["cli"] and rng.random() < 0.6:
        add_arrivals(rng, c)
    # round 3: input classes around the graph core
    variant(rng, c)
    return c


def variant(rng, c):
    """round 3: how the sample table reaches the code (form / attribute name / sample names that are numbers or the NA
    value), a letter outside a/c/g/t (distance 1 only: the LCS kernel of the extension treats ambiguity codes as
    compatible, which is outside the statement), an earlier obiclean run on the same objects"""
    c["form"] = rng.choice(FORMS)
    c["tag"] = rng.choice(["", "", "pcr"])
    ren = rng.choice(RENAMES) if c["form"].startswith("attr") or rng.random() < 0.2 else RENAMES[0]
    for x in c["seqs"]:
        cs = {ren[k]: v for k, v in x["counts"].items()}
        if c["form"].startswith("attr"):              # a record that was never merged belongs to one sample
            k = sorted(cs)[0]
            cs = {k: cs[k]}
        x["counts"] = cs
    if c["dist"] == 1 and rng.random() < 0.2:
        a = rng.choice(ALPH)
        for x in c["seqs"]:
            x["seq"] = x["seq"].replace(a, "n")
        c["alphabet"] = "n for " + a
    if c["cli"] and rng.random() < 0.3:
        c["prior"] = dict(dist=rng.choice([1, 2]), ratio=rng.choice(RATIOS))
    return c


def add_arrivals(rng, c, n=3):
    """deliver the data set to CLIOBIClean as batches arriving in n random orders (plus the reverse order)"""
    b = rng.choice([1, 1, 2, 3, 5])
    nb = (len(c["seqs"]) + b - 1) // b
    arr = [list(range(nb))[::-1]]
    for _ in range(n):
        a = list(range(nb))
        rng.shuffle(a)
        arr.append(a)
    c["batch"], c["arrivals"] = b, arr
    return c


def star_case(rng, L, workers, reps, nvar=None, dist=1, ratio=1.0, top=False, order=1):
    """a centre with all its single substitutions: every row increments the same father.
    order=2: equally abundant double substitutions (no distance-1 link at all): every row goes through
    extendSimilarityGraph and increments the centre (and the later tied variants)"""
    c = rseq(rng, L)
    seqs = [dict(id="c", seq=c, counts={"A": 1000})]
    k = 0
    if order == 1:
        for p in range(L):
            for ch in ALPH:
                if ch != c[p] and (nvar is None or k < nvar):
                    k += 1
                    seqs.append(dict(id="v%d" % k, seq=c[:p] + ch + c[p + 1:], counts={"A": 1 + k % 3}))
    else:
        seen = set()
        while k < (nvar or 40):
            p1, p2 = sorted(rng.sample(range(L), 2))
            v = c[:p1] + rng.choice([x for x in ALPH if x != c[p1]]) + c[p1 + 1:p2] + rng.choice([x for x in ALPH if x != c[p2]]) + c[p2 + 1:]
            if v not in seen:
                seen.add(v)
                k += 1
                seqs.append(dict(id="w%d" % k, seq=v, counts={"A": 2}))
    if top:   # the centre is itself the son of a more abundant node: its weight must flow upwards
        seqs.append(dict(id="top", seq=c + "a", counts={"A": 100000}))
    return dict(kind="star%d" % order, seqs=seqs, dist=max(dist, order), ratio=ratio, workers=workers, reps=reps, cli=False, head=False,
                procs=rng.choice([0, 0, 2, 4, 16]))      # GOMAXPROCS of the run (0: number of CPUs)


def large_case(rng, workers, reps, ratio=1.0):
    """one sample of at least 32 x max(workers) sequences (more than any block / stripe size derived from the number of
    workers); the most abundant sequences are variants of each other (a chain at the END of the count-sorted slice), each
    with low-count variants and variants of variants (weights flow over several levels), the rest unrelated sequences with
    abundance ties everywhere"""
    n = 32 * max(workers) + rng.randrange(3, 50)
    L = 24
    seen, seqs = set(), []

    def fresh(f):
        while True:
            v = f()
            if v not in seen:
                seen.add(v)
                return v
    top = [fresh(lambda: rseq(rng, L))]
    for _ in range(rng.choice([2, 3, 4])):
        top.append(fresh(lambda: mutate1(rng, top[-1])))
    cs = sorted(rng.sample(range(5000, 200000), len(top)), reverse=True)
    if rng.random() < 0.3:
        cs[1] = cs[0]                      # a tie at the very top
    for t, k in zip(top, cs):
        seqs.append((t, k))
    for t in top:
        lvl1 = [fresh(lambda: mutate1(rng, t)) for _ in range(rng.randrange(4, 20))]
        for v in lvl1:
            seqs.append((v, rng.choice([20, 50, 50, 100])))
            for _ in range(rng.randrange(0, 4)):
                seqs.append((fresh(lambda: mutate1(rng, v)), rng.choice([1, 1, 2, 3])))
    while len(seqs) < n:
        seqs.append((fresh(lambda: rseq(rng, L)), rng.choice([1, 1, 1, 2, 2, 3])))
    rng.shuffle(seqs)
    return dict(kind="large", seqs=[dict(id="L%d" % i, seq=x, counts={"A": k}) for i, (x, k) in enumerate(seqs)],
                dist=1, ratio=ratio, workers=workers, reps=reps, cli=False, head=False)


def exhaustive_case(rng, alphabet, maxlen, workers, reps, dist=1):
    """every sequence over the alphabet up to maxlen in ONE sample with random counts (ties included): the graph
    build tests every ordered pair of them"""
    seqs, layer = [""], [""]
    for _ in range(maxlen):
        layer = [x + c for x in layer for c in alphabet]
        seqs += layer
    rng.shuffle(seqs)
    return dict(kind="exhaustive", seqs=[dict(id="e%d" % i, seq=x, counts={"A": rng.choice([1, 2, 3, 4, 5, 6, 7, 8])}) for i, x in enumerate(seqs)],
                dist=dist, ratio=1.0, workers=workers, reps=reps, cli=False, head=False)


CORPUS = [
    # minimal lost-update shape (theorem C13_lost_update_refuted): two sons of one father
    dict(kind="corpus", seqs=[dict(id="x", seq="acgt", counts={"A": 1}), dict(id="y", seq="aggt", counts={"A": 1}),
                              dict(id="z", seq="aagt", counts={"A": 9})], dist=1, ratio=1.0, workers=[1, 2, 32], reps=3, cli=True, head=False),
    # ties in abundance: no link between equally abundant one-difference variants
    dict(kind="corpus", seqs=[dict(id="x", seq="acgt", counts={"A": 5}), dict(id="y", seq="aggt", counts={"A": 5})],
         dist=1, ratio=1.0, workers=[1, 4], reps=2, cli=True, head=False),
    # indels inside a homopolymer, empty and 1-letter sequences
    dict(kind="corpus", seqs=[dict(id="a", seq="aaaa", counts={"A": 10}), dict(id="b", seq="aaa", counts={"A": 3}),
                              dict(id="c", seq="aaaaa", counts={"A": 2}), dict(id="d", seq="", counts={"A": 1}),
                              dict(id="e", seq="a", counts={"A": 2}), dict(id="f", seq="c", counts={"A": 7})],
         dist=1, ratio=1.0, workers=[1, 3], reps=2, cli=True, head=False),
    # direction flips between samples; ratio filter; --head
    dict(kind="corpus", seqs=[dict(id="a", seq="acgtacgt", counts={"A": 10, "B": 1}), dict(id="b", seq="acgtacct", counts={"A": 3, "B": 4}),
                              dict(id="c", seq="acgtcct", counts={"A": 1}), dict(id="d", seq="ttttt", counts={"A": 1, "B": 7})],
         dist=1, ratio=0.25, workers=[1, 2, 4], reps=2, cli=True, head=True),
    # two substitutions apart: no link at the default distance (also run through the command without --distance)
    dict(kind="corpus", seqs=[dict(id="a", seq="acgtacgt", counts={"A": 10}), dict(id="b", seq="aggtaggt", counts={"A": 3})],
         dist=1, ratio=1.0, workers=[1, 4], reps=1, cli=True, head=False),
    # distance 2 and 3
    dict(kind="corpus", seqs=[dict(id="a", seq="acgtacgtac", counts={"A": 10}), dict(id="b", seq="acctaggtac", counts={"A": 3}),
                              dict(id="c", seq="acgtacgtaa", counts={"A": 2}), dict(id="d", seq="aggtaccaac", counts={"A": 3})],
         dist=3, ratio=1.0, workers=[1, 2, 4], reps=2, cli=True, head=False),
    # round 2: non-dyadic ratios exactly on / just off the boundary w_son / w_father = ratio (father weight = count + son's count)
    dict(kind="corpus", seqs=[dict(id="f", seq="acgtacgt", counts={"A": 9, "B": 8, "C": 10}), dict(id="s", seq="acgtacct", counts={"A": 1, "B": 1, "C": 1})],
         dist=1, ratio=0.1, workers=[1, 4], reps=1, cli=True, head=False),
    dict(kind="corpus", seqs=[dict(id="f", seq="acgtacgt", counts={"A": 19, "B": 18, "C": 20}), dict(id="s", seq="acgtacct", counts={"A": 1, "B": 1, "C": 1})],
         dist=1, ratio=0.05, workers=[1, 4], reps=1, cli=True, head=False),
    dict(kind="corpus", seqs=[dict(id="f", seq="acgtacgt", counts={"A": 7, "B": 6, "C": 8}), dict(id="s", seq="acgtacct", counts={"A": 3, "B": 3, "C": 3})],
         dist=1, ratio=0.3, workers=[1, 4], reps=1, cli=True, head=False),
    dict(kind="corpus", seqs=[dict(id="f", seq="acgtacgt", counts={"A": 4, "B": 3, "C": 5}), dict(id="s", seq="acgtacct", counts={"A": 1, "B": 1, "C": 1})],
         dist=1, ratio=0.2, workers=[1, 4], reps=1, cli=True, head=False),
    # distance 2, ratio 0.7: 49/100 = 0.7^2 exactly, but math.Pow(0.7, 2) = 0.48999999999999994 < float(0.49): the code removes
    # the link (the exact rational test would keep it): the described measure-zero set, oracle in float arithmetic only
    dict(kind="corpus", seqs=[dict(id="f", seq="acgtacgtaa", counts={"A": 100, "B": 100}), dict(id="s", seq="acctaggtaa", counts={"A": 49, "B": 48})],
         dist=2, ratio=0.7, workers=[1, 4], reps=1, cli=True, head=False),
    dict(kind="corpus", seqs=[dict(id="f", seq="acgtacgtaa", counts={"A": 100, "B": 100}), dict(id="s", seq="acctaggtaa", counts={"A": 1, "B": 2})],
         dist=2, ratio=0.1, workers=[1, 4], reps=1, cli=True, head=False),
    # round 2: equally abundant sequences two substitutions apart, delivered to CLIOBIClean as two batches that arrive in
    # either order (each batch keeps its order number): --distance 2 links ties by position in the loaded data set, so the
    # result must not depend on the arrival order (Load must restore the batch order)
    dict(kind="corpus", seqs=[dict(id="x", seq="aaaaaaaa", counts={"A": 1}), dict(id="y", seq="aaccaaaa", counts={"A": 1}),
                              dict(id="z", seq="aaccaagg", counts={"A": 1})],
         dist=2, ratio=1.0, workers=[1, 4], reps=1, cli=True, head=False, batch=1, arrivals=[[0, 1, 2], [2, 1, 0], [1, 0, 2], [1, 2, 0]]),
    # round 3: a chain three links deep in one sample, two links in the other: the weight of a son that has sons itself differs from
    # its count (the ratio table of --save-ratio prints both)
    dict(kind="corpus", seqs=[dict(id="k1", seq="acgtacgtac", counts={"A": 1000, "B": 5}), dict(id="k2", seq="acgtacgtaa", counts={"A": 100, "B": 50}),
                              dict(id="k3", seq="acgtacgtta", counts={"A": 10}), dict(id="k4", seq="acgtacctta", counts={"A": 1, "B": 2})],
         dist=1, ratio=1.0, workers=[1, 4], reps=1, cli=True, head=False),
    # round 3: an ambiguity code in the reads (default distance): links and mutations are exact on bytes; the ratio table has no
    # code for the letter and writes it as '-'
    dict(kind="corpus", seqs=[dict(id="n1", seq="acgnacgn", counts={"A": 10}), dict(id="n2", seq="acgnaccn", counts={"A": 3}),
                              dict(id="n3", seq="acgaacgn", counts={"A": 2}), dict(id="n4", seq="acgacgn", counts={"A": 1})],
         dist=1, ratio=1.0, workers=[1, 4], reps=1, cli=True, head=False, alphabet="n for t"),
    # round 3: the empty data set (an empty file, an empty stdin)
    dict(kind="corpus", seqs=[], dist=1, ratio=0.5, workers=[1, 4], reps=1, cli=True, head=False),
    # round 3 (lead): an indel right next to a substitution (P x y S / P z S) is two differences, whatever the flanks;
    # with z = x or z = y it is one
    dict(kind="corpus", seqs=[dict(id="l1", seq="acgtag", counts={"A": 1}), dict(id="l2", seq="accag", counts={"A": 9}),
                              dict(id="l3", seq="ag", counts={"A": 2}), dict(id="l4", seq="c", counts={"A": 8}),
                              dict(id="l5", seq="acgag", counts={"A": 20}), dict(id="l6", seq="ga", counts={"A": 3}),
                              dict(id="l7", seq="t", counts={"A": 1}), dict(id="l8", seq="gt", counts={"A": 30})],
         dist=1, ratio=1.0, workers=[1, 4], reps=1, cli=True, head=False),
    # round 3: the records were never merged: attribute `pcr` (a number, a string, or absent = NA) and count only
    dict(kind="corpus", seqs=[dict(id="u1", seq="acgtacgt", counts={"7": 10}), dict(id="u2", seq="acgtacct", counts={"7": 3}),
                              dict(id="u3", seq="acgtacct", counts={"NA": 5}), dict(id="u4", seq="acgtcct", counts={"NA": 1}),
                              dict(id="u5", seq="acgtacgg", counts={"x": 1}), dict(id="u6", seq="acgtacgt", counts={"x": 4})],
         dist=1, ratio=0.5, workers=[1, 4], reps=1, cli=True, head=False, form="attr", tag="pcr"),
    # round 3: obiclean run a second time on the same objects with other settings (first --distance 2 --ratio 1, then the
    # default distance with --ratio 0.1): statuses, weights and mutations must describe the second graph only
    dict(kind="corpus", seqs=[dict(id="p1", seq="acgtacgtaa", counts={"A": 100, "B": 5}), dict(id="p2", seq="acctaggtaa", counts={"A": 20, "B": 5}),
                              dict(id="p3", seq="acgtacgtac", counts={"A": 30, "B": 1}), dict(id="p4", seq="acgtacgtcc", counts={"A": 2})],
         dist=1, ratio=0.1, workers=[1, 4], reps=1, cli=True, head=False, form="stats", prior=dict(dist=2, ratio=1.0)),
]


# ----------------------------------------------------------------------------- direct oracle
def onediff(a, b):
    """exactly one substitution or one indel apart"""
    if len(a) == len(b):
        return sum(x != y for x, y in zip(a, b)) == 1
    if abs(len(a) - len(b)) != 1:
        return False
    if len(a) < len(b):
        a, b = b, a
    return any(a[:i] + a[i + 1:] == b for i in range(len(a)))


def apply_mut(father, frm, to, pos1):
    """apply '(frm)->(to)@pos1' (1-based) to the father's sequence"""
    p = pos1 - 1
    if p < 0 or p > len(father):
        return None
    if frm == "-":
        return None if to == "-" else father[:p] + to + father[p:]
    if p >= len(father) or father[p] != frm or to == frm:
        return None
    if to == "-":
        return father[:p] + father[p + 1:]
    return father[:p] + to + father[p + 1:]


def lcs_dist(a, b):
    """(lcs, shortest alignment length achieving it): maximise matches, then mismatch columns"""
    la, lb = len(a), len(b)
    prev = [(0, 0)] * (lb + 1)
    for i in range(1, la + 1):
        cur = [(0, 0)] * (lb + 1)
        for j in range(1, lb + 1):
            m = 1 if a[i - 1] == b[j - 1] else 0
            d = prev[j - 1]
            cur[j] = max((d[0] + m, d[1] + (1 - m)), prev[j], cur[j - 1])
        prev = cur
    l, mm = prev[lb]
    return l, la + lb - l - mm


def round_div(num, den):
    return (2 * num + den) // (2 * den)


def expected_sample(nodes, dist, ratio, ids=None, info=None):
    """nodes: [(id, seq, count)] in data-set order -> dict id -> dict(count, weight, sons, status, edges{father_id: dist})
    the specification of the graph (dist 1: the property; dist > 1: the documented extension by LCS distance).
    ids: the order of the nodes in the implementation's sample slice, used when it is a count-sorted permutation of
    the nodes: the distance > 1 extension links equally abundant sequences from the earlier to the later one, so the
    order among ties (not fixed by the property) is taken from the implementation."""
    order = sorted(range(len(nodes)), key=lambda i: nodes[i][2])      # stable
    if ids is not None and sorted(ids) == sorted(x[0] for x in nodes) and len(set(ids)) == len(ids):
        at = {x[0]: i for i, x in enumerate(nodes)}
        cand = [at[i] for i in ids]
        if all(nodes[a][2] <= nodes[b][2] for a, b in zip(cand, cand[1:])):
            order = cand
    ns = [nodes[i] for i in order]
    n = len(ns)
    edges = [dict() for _ in range(n)]
    for i in range(n):
        for j in range(i + 1, n):
            if ns[j][2] > ns[i][2] and onediff(ns[i][1], ns[j][1]):
                edges[i][j] = 1
    sons = [0] * n
    for i in range(n):
        for j in edges[i]:
            sons[j] += 1
    # weights: every node gives its final weight to its fathers in proportion of their counts
    w = [x[2] for x in ns]
    for i in range(n):            # fathers come later in the order
        if edges[i]:
            swf = sum(ns[j][2] for j in edges[i])
            for j in edges[i]:
                w[j] += round_div(w[i] * ns[j][2], swf)
    if dist > 1:
        for i in range(n):
            if not edges[i]:
                for j in range(i + 1, n):
                    a, b = ns[i][1], ns[j][1]
                    if a != b and not onediff(a, b) and abs(len(a) - len(b)) <= dist:
                        l, al = lcs_dist(a, b)
                        if al - l <= dist:
                            edges[i][j] = al - l
                            sons[j] += 1
    if ratio < 1.0:
        p, q = ratio_pq(ratio)
        for i in range(n):
            for j in list(edges[i]):
                d = edges[i][j]
                if info is not None:
                    # where the float test and the exact rational test of the Coq model may differ: exact equality
                    # w_son/w_father = (P/Q)^d with d >= 2 (math.Pow rounds), or weights beyond the proved bound
                    if (d >= 2 and w[i] * q ** d == w[j] * p ** d) or w[j] * q > 2 ** 52:
                        info["boundary"] = True
                    if w[i] * q ** d == w[j] * p ** d:
                        info["on_boundary"] = info.get("on_boundary", 0) + 1
                # (a father of weight 0 - two records of 0 reads linked by the extension - gives NaN or +Inf in Go: test false)
                if not (w[j] != 0 and w[i] / w[j] <= go_pow(ratio, d)):
                    del edges[i][j]
                    sons[j] -= 1
    res = {}
    for i in range(n):
        st = "i" if edges[i] else ("h" if sons[i] > 0 else "s")
        res[ns[i][0]] = dict(count=ns[i][2], weight=w[i], sons=sons[i], status=st, edges={ns[j][0]: d for j, d in edges[i].items()})
    return res, [x[0] for x in ns]


def sample_nodes(case):
    sm = {}
    for s in case["seqs"]:
        for k, v in s["counts"].items():
            sm.setdefault(k, []).append((s["id"], s["seq"], v))
    return sm


def check_result(case, res, path, orders=None):
    """-> list of reasons why this result violates the property (empty: fine)"""
    why = []
    if res.get("panic"):
        return ["panic: " + res["panic"][:200]]
    seqof = {s["id"]: s["seq"] for s in case["seqs"]}
    sm = sample_nodes(case)
    orders = orders or {}
    exp = {k: expected_sample(v, case["dist"], case["ratio"], orders.get(k))[0] for k, v in sm.items()}
    if path == "graph":
        g = res.get("graph") or {}
        if sorted(g) != sorted(exp):
            why.append("samples %s != %s" % (sorted(g), sorted(exp)))
        for name in sorted(set(g) & set(exp)):
            ids = [x["id"] for x in g[name]]
            if sorted(ids) != sorted(exp[name]):
                why.append("sample %s: nodes differ" % name)
                continue
            for x in g[name]:
                e = exp[name][x["id"]]
                got = dict(count=x["count"], weight=x["weight"], sons=x["sons"], status=x["status"],
                           edges={ids[ed["f"]]: ed["dist"] for ed in x["edges"]})
                if got != e:
                    why.append("sample %s node %s: got %s expected %s" % (name, x["id"], got, e))
                for ed in x["edges"]:
                    if ed["dist"] == 1:
                        fa = ids[ed["f"]]
                        if apply_mut(seqof[fa], ed["from"], ed["to"], ed["pos"] + 1) != seqof[x["id"]]:
                            why.append("sample %s: mutation (%s)->(%s)@%d applied to %s does not give %s" % (
                                name, ed["from"], ed["to"], ed["pos"] + 1, fa, x["id"]))
    # annotations written on the sequences
    annot = {a["id"]: a for a in res.get("annot") or []}
    heads = set()
    for s in case["seqs"]:
        st = {k: exp[k][s["id"]]["status"] for k in s["counts"]}
        if any(v in "hs" for v in st.values()):
            heads.add(s["id"])
    want_ids = set(seqof) if not (path == "cli" and case.get("head")) else heads
    if set(annot) != want_ids:
        why.append("%s: output ids %s != %s" % (path, sorted(annot), sorted(want_ids)))
    for s in case["seqs"]:
        a = annot.get(s["id"])
        if a is None:
            continue
        st = {k: exp[k][s["id"]]["status"] for k in s["counts"]}
        wt = {k: exp[k][s["id"]]["weight"] for k in s["counts"]}
        if a["status"] != st or a["weight"] != wt:
            why.append("%s: %s status/weight %s %s expected %s %s" % (path, s["id"], a["status"], a["weight"], st, wt))
        fathers = {}
        for k in s["counts"]:
            fathers.update(exp[k][s["id"]]["edges"])
        if set(a["mutation"]) != set(fathers):
            why.append("%s: %s mutation keys %s expected %s" % (path, s["id"], sorted(a["mutation"]), sorted(fathers)))
        else:
            for fa, txt in a["mutation"].items():
                m = re.fullmatch(r"\((.)\)->\((.)\)@(-?\d+)", txt)
                if not m:
                    why.append("%s: %s mutation text %r" % (path, s["id"], txt))
                elif fathers[fa] == 1 and apply_mut(seqof[fa], m.group(1), m.group(2), int(m.group(3))) != s["seq"]:
                    why.append("%s: %s mutation %s applied to %s does not give the sequence" % (path, s["id"], txt, fa))
        if path == "cli":
            h = sum(v == "h" for v in st.values()); i = sum(v == "i" for v in st.values()); sg = sum(v == "s" for v in st.values())
            got = (a["head"], a["headcount"], a["internalcount"], a["singletoncount"], a["samplecount"])
            if got != (h + sg > 0, h, i, sg, h + i + sg):
                why.append("cli: %s head flags %s expected %s" % (s["id"], got, (h + sg > 0, h, i, sg, h + i + sg)))
    return why


def oracle(case, obs):
    """-> list of (kind, detail)"""
    bad = []
    if obs.get("kind") == "skipped":      # after a case that never returned (reported for that case)
        return []
    if obs.get("kind") == "timeout":
        return [("hang", dict(what="the graph build did not return within the per-case limit of the harness"))]
    if obs.get("kind") != "ok":
        return [("crash", obs)]
    orders = {}
    for r in obs["runs"]:
        if r["path"] == "graph" and obs["distinct"][r["r"]].get("graph"):
            orders = {k: [x["id"] for x in g] for k, g in obs["distinct"][r["r"]]["graph"].items()}
            break
    for path in ("graph", "cli"):
        rs = sorted({r["r"] for r in obs["runs"] if r["path"] == path})
        if len(rs) > 1:
            a, b = rs[0], rs[1]
            base = {r["r"] for r in obs["runs"] if r["path"] == path and r["rep"] < 1000}
            kind = "schedule-dependent" if len(base) > 1 else "arrival-order-dependent"
            bad.append((kind, dict(path=path, runs=[r for r in obs["runs"] if r["path"] == path],
                                                   result_a=obs["distinct"][a], result_b=obs["distinct"][b])))
        for r in rs:
            why = check_result(case, obs["distinct"][r], path, orders)
            if why:
                bad.append(("graph-not-exact", dict(path=path, run=[x for x in obs["runs"] if x["r"] == r][0], why=why[:6])))
                break
    return bad


# ----------------------------------------------------------------------------- correspondence with the Coq model
def coq_terms(case, res):
    """one Gallina case per sample (dyadic ratio): canonical observation = nodes in stable count order
    (distance > 1: in the implementation's order when that is a count-sorted permutation, because the
    extension links tied sequences by position), father indices renamed accordingly, edges by increasing father"""
    if not res.get("graph"):
        return []
    p, q = ratio_pq(case["ratio"])
    idx = {s["id"]: k for k, s in enumerate(case["seqs"])}
    terms = []
    for name, nodes in sorted(sample_nodes(case).items()):
        g = res["graph"].get(name)
        if g is None or sorted(x["id"] for x in g) != sorted(x[0] for x in nodes):
            continue
        gids = [x["id"] for x in g]
        info = {}
        expected_sample(nodes, case["dist"], case["ratio"], gids, info)
        if info.get("boundary"):           # the described measure-zero set: left to the Python oracle (float arithmetic)
            SKIPPED["boundary"] += 1
            continue
        SKIPPED["on_boundary_d1"] += info.get("on_boundary", 0)
        _, order = expected_sample(nodes, 1, 1.0, gids if case["dist"] > 1 else None)
        pos = {i: k for k, i in enumerate(order)}
        byid = {x["id"]: x for x in g}
        bynode = {x[0]: x for x in nodes}
        inorder = [bynode[i] for i in order] if case["dist"] > 1 else nodes
        ins = "[" + "; ".join("mkn %d %s %d" % (idx[i], vlib.bytes_coq(s.encode()), c) for i, s, c in inorder) + "]"
        outs = []
        for i in order:
            x = byid[i]
            es = sorted(((pos[gids[e["f"]]], e) for e in x["edges"]), key=lambda t: t[0])
            et = "[" + "; ".join("mke %d %d%%N %d%%N (%d) %d" % (f, ord(e["from"]), ord(e["to"]), e["pos"], e["dist"]) for f, e in es) + "]"
            outs.append("mko %d %d %d (%d) %s %s" % (idx[i], x["count"], x["weight"], x["sons"], dict(i="SI", h="SH", s="SS").get(x["status"], "SS"), et))
        terms.append("mkcase %s %d %d %d [%s]" % (ins, case["dist"], p, q, "; ".join(outs)))
    return terms


IMPORTS = "From Coq Require Import ZArith NArith List. Import ListNotations. Open Scope Z_scope.\nFrom OBI.C13 Require Import Model Model2."
SKIPPED = dict(boundary=0, on_boundary_d1=0)
ST = dict(i="SI", h="SH", s="SS")


def ds_term(case, res):
    """the whole data set (all samples) with the annotations CLIOBIClean wrote on every sequence -> one Gallina dcase"""
    if case.get("head") or not res.get("annot") or len(case["seqs"]) > 60:
        return None
    ids = [x["id"] for x in case["seqs"]]
    annot = {a["id"]: a for a in res["annot"]}
    if len(set(ids)) != len(ids) or set(annot) != set(ids):
        return None
    for name, nodes in sample_nodes(case).items():
        info = {}
        expected_sample(nodes, case["dist"], case["ratio"], None, info)
        if info.get("boundary"):
            return None
    samples = sorted({k for x in case["seqs"] for k in x["counts"]})
    sidx = {k: i for i, k in enumerate(samples)}
    idx = {i: k for k, i in enumerate(ids)}
    p, q = ratio_pq(case["ratio"])
    ds, obs = [], []
    for x in case["seqs"]:
        ds.append("mkd %d %s [%s]" % (idx[x["id"]], vlib.bytes_coq(x["seq"].encode()),
                                      "; ".join("(%d, %d)" % (sidx[k], x["counts"][k]) for k in sorted(x["counts"]))))
        a = annot[x["id"]]
        if sorted(a["status"]) != sorted(x["counts"]) or sorted(a["weight"]) != sorted(x["counts"]) or any(f not in idx for f in a["mutation"]):
            return None        # the direct oracle reports it
        ent = "; ".join("(%d, %s, %d)" % (sidx[k], ST.get(a["status"][k], "SS"), a["weight"][k]) for k in sorted(a["status"]))
        keys = "; ".join(str(idx[f]) for f in sorted(a["mutation"]))
        obs.append("mkoa [%s] [%s] (mkf %s (%d) (%d) (%d) (%d))" % (ent, keys, "true" if a["head"] else "false", a["headcount"],
                                                                    a["internalcount"], a["singletoncount"], a["samplecount"]))
    return "mkdcase [%s] %d %d %d [%s]" % ("; ".join(ds), case["dist"], p, q, "; ".join(obs))


# ----------------------------------------------------------------------------- race detector
def race_reports(ctx, rb, cases, timeout=600):
    """run the -race build; -> (relevant reports, number of other reports, error)"""
    base = os.path.join(vlib.BUILD, "c13_race_log")
    for f in glob.glob(base + ".*"):
        os.remove(f)
    env = dict(os.environ, GORACE="log_path=%s exitcode=0 halt_on_error=0" % base)
    inp = "".join(json.dumps(c) + "\n" for c in cases).encode()
    rc, out, err, dt = vlib.sh("%s c13" % rb, inp=inp, env=env, timeout=timeout)
    if rc != 0:
        return [], 0, "race harness rc=%s %s" % (rc, err[-500:])
    rel, other = [], 0
    for f in glob.glob(base + ".*"):
        for rep in open(f).read().split("=================="):
            if "DATA RACE" not in rep:
                continue
            # the frames of the two conflicting accesses: first frame after each "... at 0x... by goroutine" header
            tops = re.findall(r"(?:Read|Write|Previous read|Previous write) at 0x[0-9a-f]+ by [^\n]*\n\s+(\S+)\n\s+(\S+)", rep)
            if any(RACE_PKG in fn and "verif_" not in loc for fn, loc in tops):
                rel.append(rep.strip()[:3000])
            else:
                other += 1
    return rel, other, None


# ----------------------------------------------------------------------------- the built obiclean command
def parse_fasta_annot(text):
    res = []
    for rec in ("\n" + text).split("\n>")[1:]:
        head, _, body = rec.partition("\n")
        sid, _, js = head.partition(" ")
        a = json.loads(js) if js.strip() else {}
        res.append(dict(id=sid, status=a.get("obiclean_status", {}), weight=a.get("obiclean_weight", {}),
                        mutation=a.get("obiclean_mutation", {}), head=a.get("obiclean_head", False),
                        headcount=a.get("obiclean_headcount", -1), internalcount=a.get("obiclean_internalcount", -1),
                        singletoncount=a.get("obiclean_singletoncount", -1), samplecount=a.get("obiclean_samplecount", -1),
                        seq="".join(body.split())))
    return sorted(res, key=lambda x: x["id"])


CSV_HEADER = "Sample,Father_id,Father_status,From,To,Weight_from,Weight_to,Count_from,Count_to,Position,length,A,C,G,T"
CMD = dict(runs=0, kinds={}, ratio_rows=0, gml_nodes=0, gml_edges=0, non_acgt_rows=0, ratio_vs_model=0, gml_vs_model=0, unmerged_vs_model=0)


def tag_of(c):
    return c.get("tag") or "sample"


def attr_value(k):
    """the value of the sample attribute of a never-merged record: a JSON number when the name is one"""
    return int(k) if re.fullmatch(r"[1-9][0-9]*", k) else k


def fasta_records(c, form="merged", stale=False, weight_attr=None):
    """the FASTA records of the data set. merged: count + merged_<tag> table (what obiuniq -m writes); attr: the
    attribute <tag> itself + count (records of one sample each; nothing at all for the NA sample, no count when it is 1)"""
    tag = tag_of(c)
    recs = []
    for x in c["seqs"]:
        if form == "attr":
            (k, v), = x["counts"].items()
            a = {}
            if k != "NA":
                a[tag] = attr_value(k)
            if weight_attr:                        # --sample <tag>:<attribute holding the number of reads>; absent = 0 reads
                if not x.get("noweight"):
                    a[weight_attr] = v
                a["count"] = 1 + len(recs) % 3
            elif v != 1 or x["id"][-1:] in "02468":
                a["count"] = v
        else:
            a = {"count": sum(x["counts"].values()), "merged_" + tag: x["counts"]}
        if stale:
            a.update(obiclean_status={k: "i" for k in x["counts"]}, obiclean_weight={k: 99999 for k in x["counts"]},
                     obiclean_mutation={"ghost_father": "(a)->(c)@1"}, obiclean_head=False, obiclean_headcount=77,
                     obiclean_internalcount=77, obiclean_singletoncount=77, obiclean_samplecount=77)
        recs.append(">%s %s\n%s\n" % (x["id"], json.dumps(a), x["seq"]))
    return recs


def split_case(c, weight_attr=None):
    """the same reads before any merge: one record per (sequence, sample); with a weight attribute, every seventh record
    lacks it (it then stands for 0 reads; default distance only: at --distance > 1 two records of 0 reads get linked and
    the ratio test divides 0 by 0)"""
    seqs = []
    for x in c["seqs"]:
        for k in sorted(x["counts"]):
            if weight_attr and len(seqs) % 7 == 3 and c["dist"] == 1:
                seqs.append(dict(id="%s.%d" % (x["id"], len(seqs)), seq=x["seq"], counts={k: 0}, noweight=True))
            else:
                seqs.append(dict(id="%s.%d" % (x["id"], len(seqs)), seq=x["seq"], counts={k: x["counts"][k]}))
    return dict(c, seqs=seqs)


def per_sample_expect(case):
    return {k: expected_sample(v, case["dist"], case["ratio"]) for k, v in sample_nodes(case).items()}


def oracle_ratio_csv(case, text, min_eval):
    """--save-ratio: one row per remaining distance-1 edge whose father weighs at least --min-eval-rate; compared as a
    multiset (the order of the rows is not part of the property); the (From, To, Position) of a row is judged by what it
    means: applied to the father's sequence it must give a son with the row's weight and count"""
    why = []
    lines = text.splitlines()
    if not lines or lines[0] != CSV_HEADER:
        return ["ratio table: header %r" % (lines[:1],)]
    seqof = {s["id"]: s["seq"] for s in case["seqs"]}
    want = {}
    for name, (res, _) in per_sample_expect(case).items():
        for sid, x in res.items():
            for fid, d in x["edges"].items():
                f = res[fid]
                if d == 1 and f["weight"] >= min_eval:
                    fs = seqof[fid]
                    key = (name, fid, f["status"], f["weight"], x["weight"], f["count"], x["count"], len(fs),
                           fs.count("a"), fs.count("c"), fs.count("g"), fs.count("t"), seqof[sid])
                    want[key] = want.get(key, 0) + 1
    got = {}
    for ln in lines[1:]:
        f = ln.split(",")
        if len(f) != 15 or f[1] not in seqof:
            return ["ratio table: row %r" % ln]
        try:
            nums = [int(v) for v in f[5:]]
        except ValueError:
            return ["ratio table: row %r" % ln]
        fs = seqof[f[1]]
        kb = (f[0], f[1], f[2], nums[0], nums[1], nums[2], nums[3], nums[5], nums[6], nums[7], nums[8], nums[9])
        cands = [apply_mut(fs, f[3], f[4], nums[4] + 1)]
        if "-" in (f[3], f[4]) and case.get("alphabet"):
            # a letter outside a/c/g/t has no code in the 5 x 5 table of nucleotide pairs: it is written as '-'
            for a1, a2 in ((f[3].replace("-", "n"), f[4]), (f[3], f[4].replace("-", "n")), ("n", "n")):
                cands.append(apply_mut(fs, a1, a2, nums[4] + 1))
        son = next((x for x in cands if x is not None and kb + (x,) in want), cands[0])
        if son is not cands[0]:
            CMD["non_acgt_rows"] += 1
        key = kb + (son,)
        got[key] = got.get(key, 0) + 1
    CMD["ratio_rows"] += len(lines) - 1
    if got != want:
        extra = [k for k in got if got[k] != want.get(k, 0)][:3]
        miss = [k for k in want if want[k] != got.get(k, 0)][:3]
        why.append("ratio table (--min-eval-rate %d): rows not expected / with another multiplicity %s; expected rows missing %s" % (min_eval, extra, miss))
    return why


GML_NODE = re.compile(r'node \[ id (\d+)\s+graphics \[\s+type "(\w+)"\s+fill "(#[0-9A-F]+)"\s+h (-?\d+)\s+w (-?\d+)\s+\]\s+weight (-?\d+)\s+\]')
GML_EDGE = re.compile(r'edge \[ source (\d+)\s+target (\d+)\s+color "(#[0-9A-F]+)"\s+label "(-?\d+)"\s+\]')


def parse_gml(text):
    nodes = [(int(m[0]), m[1], m[2], int(m[3]), int(m[4]), int(m[5])) for m in GML_NODE.findall(text)]
    edges = [(int(m[0]), int(m[1]), m[2], int(m[3])) for m in GML_EDGE.findall(text)]
    return nodes, edges


def expected_gml(res, order, min_eval):
    pos = {i: k for k, i in enumerate(order)}
    nodes, edges = [], []
    for i in order:
        x = res[i]
        if x["edges"] or x["sons"] > 0:
            h = 3 * math.isqrt(x["count"])
            nodes.append((pos[i], "circle" if x["count"] >= min_eval else "rectangle", "#0000FF" if x["sons"] > 0 and not x["edges"] else "#00FF00",
                          h, h, x["count"]))
        for fa, d in x["edges"].items():
            edges.append((pos[i], pos[fa], "#FF0000" if d > 1 else "#00FF00", d))
    return sorted(nodes), sorted(edges)


def oracle_gml(case, gdir, min_eval):
    """--save-graph: one file per sample; the nodes that have a father or a son (count, head colour, shape by
    --min-eval-rate) and every remaining edge with its distance.  Node numbers are positions in the count-sorted
    sample: compared exactly when no two sequences of the sample have the same count, else up to the numbering"""
    why, parsed = [], {}
    exp = per_sample_expect(case)
    files = sorted(os.listdir(gdir)) if os.path.isdir(gdir) else None
    if files != sorted(k + ".gml" for k in exp):
        return ["graph files %s expected one per sample %s" % (files, sorted(exp))], parsed
    for name, (res, order) in exp.items():
        text = open(os.path.join(gdir, name + ".gml")).read()
        nodes, edges = parse_gml(text)
        parsed[name] = (nodes, edges)
        CMD["gml_nodes"] += len(nodes)
        CMD["gml_edges"] += len(edges)
        if text.count("node [") != len(nodes) or text.count("edge [") != len(edges) or ('graph for sample %s"' % name) not in text:
            why.append("graph file of sample %s: unreadable node / edge block or wrong title" % name)
            continue
        wn, we = expected_gml(res, order, min_eval)
        counts = [res[i]["count"] for i in order]
        if len(set(counts)) == len(counts):
            ok = sorted(nodes) == wn and sorted(edges) == we
        else:
            at = {n[0]: n[1:] for n in nodes}
            wat = {n[0]: n[1:] for n in wn}
            ok = (len(at) == len(nodes) and all(e[0] in at and e[1] in at and e[0] < e[1] for e in edges)
                  and sorted(at.values()) == sorted(wat.values())
                  and sorted((at[e[0]], at[e[1]], e[2], e[3]) for e in edges if e[0] in at and e[1] in at) == sorted((wat[e[0]], wat[e[1]], e[2], e[3]) for e in we))
        if not ok:
            why.append("graph file of sample %s (--min-eval-rate %d): nodes %s edges %s expected %s %s" % (name, min_eval, sorted(nodes)[:8], sorted(edges)[:8], wn[:8], we[:8]))
    return why, parsed


def model_terms_tables(case, min_eval, csv_text, gml):
    """Gallina cases for Model3: per sample, the rows of the ratio table and the graph file vs the model (a/c/g/t only,
    no ratio-boundary sample, graph numbering only without count ties)"""
    rterms, gterms = [], []
    if case.get("alphabet") or any(len(v) > 60 for v in sample_nodes(case).values()):
        return rterms, gterms
    p, q = ratio_pq(case["ratio"])
    idx = {s["id"]: k for k, s in enumerate(case["seqs"])}
    rows = {}
    for ln in (csv_text or "").splitlines()[1:]:
        f = ln.split(",")
        rows.setdefault(f[0], []).append(f)
    for name, nodes in sorted(sample_nodes(case).items()):
        info = {}
        expected_sample(nodes, case["dist"], case["ratio"], None, info)
        if info.get("boundary"):
            continue
        ins = "[" + "; ".join("mkn %d %s %d" % (idx[i], vlib.bytes_coq(s.encode()), c) for i, s, c in nodes) + "]"
        if csv_text is not None:
            rr = "; ".join("mkrr %d %s %d%%N %d%%N %s %s %s %s (%s) %s %s %s %s %s" % (
                idx[f[1]], ST.get(f[2], "SS"), ord(f[3]), ord(f[4]), f[5], f[6], f[7], f[8], f[9], f[10], f[11], f[12], f[13], f[14]) for f in rows.get(name, []))
            rterms.append("mkrcase %s %d %d %d %d [%s]" % (ins, case["dist"], p, q, min_eval, rr))
        if gml is not None and name in gml and len({c for _, _, c in nodes}) == len(nodes):
            gn, ge = gml[name]
            gterms.append("mkgcase %s %d %d %d %d [%s] [%s]" % (
                ins, case["dist"], p, q, min_eval,
                "; ".join("mkgn %d %s %s (%d) (%d) (%d)" % (n[0], "true" if n[1] == "circle" else "false", "true" if n[2] == "#0000FF" else "false", n[3], n[4], n[5]) for n in gn),
                "; ".join("mkge %d %d %s (%d)" % (e[0], e[1], "true" if e[2] == "#FF0000" else "false", e[3]) for e in ge)))
    return rterms, gterms


IMPORTS3 = "From Coq Require Import ZArith NArith List. Import ListNotations. Open Scope Z_scope.\nFrom OBI.C13 Require Import Model Model2 Model3."


def cli_drive(ctx, cases, obs, broken, max_cases):
    """the built `obiclean` command (options parsed by the real option parser).  Every run is judged by the direct oracle on the
    annotations it writes and, for the plain deliveries, by equality with the CLIOBIClean run of the harness.  Round 3: the
    data set delivered as a file, on stdin, as two files (also --no-order at distance 1), gzip-compressed, written with -o;
    short option names; never-merged records (attribute + count; a number; absent = NA); records carrying the obiclean_*
    annotations of an earlier run; --save-graph / --save-ratio / --min-eval-rate judged against the expected graph and Model3"""
    import gzip, shutil
    bindir, err = ctx.build_cmds(["obiclean"])
    if bindir is None:
        broken.append(dict(kind="command-build", detail=err))
        return 0
    exe = os.path.join(bindir, "obiclean")
    wd = os.path.join(vlib.BUILD, "c13_cli")
    shutil.rmtree(wd, ignore_errors=True)
    os.makedirs(wd, exist_ok=True)
    rng = ctx.rng
    n = 0
    rterms, gterms, rowner, gowner, dterms, downer = [], [], [], [], [], []
    order = sorted(range(len(cases)), key=lambda i: (cases[i]["kind"] != "corpus", i))
    ndist = {}
    for ci in order:
        c, o = cases[ci], obs[ci]
        if n >= max_cases:
            break
        if not c.get("cli") or o.get("kind") != "ok" or any(len(x["seq"]) == 0 for x in c["seqs"]) or len(c["seqs"]) > 150:
            continue
        if c["kind"] != "corpus" and ndist.get(c["dist"], 0) >= max(2, max_cases // 2):
            continue
        ref = [o["distinct"][r["r"]] for r in o["runs"] if r["path"] == "cli"]
        if not ref or ref[0].get("panic"):
            continue
        ndist[c["dist"]] = ndist.get(c["dist"], 0) + 1
        want = [{k: v for k, v in a.items() if k != "getters"} for a in ref[0].get("annot") or []]
        n += 1
        tag = tag_of(c)
        recs = fasta_records(c)
        fa = os.path.join(wd, "in.fasta")
        open(fa, "w").write("".join(recs))
        fa_stale = os.path.join(wd, "in_stale.fasta")
        open(fa_stale, "w").write("".join(fasta_records(c, stale=True)))
        k = rng.randrange(0, len(recs) + 1)
        p1, p2 = os.path.join(wd, "p1.fasta"), os.path.join(wd, "p2.fasta")
        open(p1, "w").write("".join(recs[:k]))
        open(p2, "w").write("".join(recs[k:]))
        gz = os.path.join(wd, "in.fasta.gz")
        with gzip.open(gz, "wt") as f:
            f.write("".join(recs))
        wattr = rng.choice([None, None, "reads"])
        c2 = split_case(c, wattr)
        fu = os.path.join(wd, "in_unmerged.fasta")
        open(fu, "w").write("".join(fasta_records(c2, form="attr", weight_attr=wattr)))
        long_ = (["--ratio", repr(c["ratio"])] if c["ratio"] != 1.0 else []) + (["--head"] if c.get("head") else []) + (["--sample", tag] if tag != "sample" else [])
        short = (["-r", repr(c["ratio"])] if c["ratio"] != 1.0 else []) + (["-H"] if c.get("head") else []) + (["-s", tag] if tag != "sample" else [])
        dl, ds_ = ["--distance", str(c["dist"])], ["-d", str(c["dist"])]
        outf, gdir, rcsv = os.path.join(wd, "out.fasta"), os.path.join(wd, "graphs"), os.path.join(wd, "ratio.csv")
        # --min-eval-rate: preferably a value that separates a father's weight from its count (the threshold is on the weight)
        cand = sorted({x["weight"] for res, _ in per_sample_expect(c).values() for x in res.values() if x["weight"] > x["count"]}
                      | {x["weight"] + 1 for res, _ in per_sample_expect(c).values() for x in res.values() if x["sons"] > 0})
        mer = rng.choice(cand) if cand and rng.random() < 0.7 else rng.choice([1, 2, 5, 50, None])
        nohead = [x for x in long_ if x != "--head"]
        # (label, argv, stdin, case judged by the oracle, equal to the harness run?, output file)
        runs_ = [("file/one-cpu", ["--force-one-cpu"] + long_ + dl + [fa], None, c, True, None),
                 ("file/2", ["--max-cpu", "2"] + long_ + dl + [fa], None, c, True, None),
                 ("file/16", ["--max-cpu", "16"] + long_ + dl + [fa], None, c, True, None),
                 ("stale-annotations", ["--max-cpu", "2"] + long_ + dl + [fa_stale], None, c, True, None),
                 ("stdin", ["--max-cpu", "3"] + long_ + dl, "".join(recs).encode(), c, True, None),
                 ("two-files", ["--max-cpu", "4"] + long_ + dl + [p1, p2], None, c, True, None),
                 ("gzip", ["--max-cpu", "2"] + long_ + dl + [gz], None, c, True, None),
                 ("short-options/-o", ["--max-cpu", "5"] + short + ds_ + ["-o", outf, fa], None, c, True, outf),
                 ("never-merged-records" + ("/weight-attribute" if wattr else ""),
                  ["--max-cpu", "4"] + [x for x in long_ if x not in ("--sample", tag)] + (["--sample", tag + ":" + wattr] if wattr else ["--sample", tag]) + dl + [fu], None, c2, False, None),
                 ("save-graph/save-ratio", ["--max-cpu", "4"] + nohead + dl + ["--min-eval-rate", "1", "--save-graph", gdir, "--save-ratio", rcsv, fa],
                  None, dict(c, head=False), not c.get("head"), None),
                 ("save-graph/save-ratio/min-eval-rate", ["--max-cpu", "4"] + nohead + dl + (["--min-eval-rate", str(mer)] if mer is not None else [])
                  + ["--save-graph", gdir, "--save-ratio", rcsv, fa], None, dict(c, head=False), not c.get("head"), None)]
        if c["dist"] == 1:
            runs_.append(("default-distance", ["--max-cpu", "2"] + long_ + [fa], None, c, True, None))
            runs_.append(("two-files/no-order", ["--max-cpu", "4", "--no-order"] + long_ + [p2, p1], None, c, True, None))
        for label, argv, inp, cj, same, of in runs_:
            for f in (outf, rcsv):
                if os.path.exists(f):
                    os.remove(f)
            shutil.rmtree(gdir, ignore_errors=True)
            if label.endswith("min-eval-rate"):
                os.makedirs(gdir)                  # the directory of the graph files may exist already
            rc, out, err, dt = vlib.sh([exe] + argv, timeout=120, inp=inp)
            CMD["runs"] += 1
            CMD["kinds"][label] = CMD["kinds"].get(label, 0) + 1
            got, why = None, []
            if rc == 0:
                try:
                    if of:
                        out = open(of).read()
                    got = parse_fasta_annot(out)
                    seqs_ok = sorted((a["id"], a["seq"]) for a in got) == sorted((x["id"], x["seq"]) for x in cj["seqs"] if a_in(x["id"], got))
                    if not seqs_ok:
                        why.append("output sequences differ from the input")
                    got = [{k: v for k, v in a.items() if k != "seq"} for a in got]
                except Exception as e:
                    why.append("unparsable output: %r" % e)
            else:
                why.append("exit status %s" % rc)
            if got is not None:
                why += check_result(cj, dict(annot=got), "cli")
                if same and got != want and not why:
                    why.append("annotations differ from those of the in-process CLIOBIClean run")
            if label.startswith("never-merged-records") and got is not None and not why and not cj.get("alphabet"):
                t = ds_term(cj, dict(annot=got))
                if t:
                    dterms.append(t)
                    downer.append(ci)
            if label.startswith("save-graph") and rc == 0:
                m_ = 1 if label == "save-graph/save-ratio" else 1000 if mer is None else mer
                csv_text = open(rcsv).read() if os.path.exists(rcsv) else ""
                why += oracle_ratio_csv(cj, csv_text, m_)
                gwhy, parsed = oracle_gml(cj, gdir, m_)
                why += gwhy
                rt, gt = model_terms_tables(cj, m_, csv_text, parsed)
                rterms += rt; rowner += [ci] * len(rt)
                gterms += gt; gowner += [ci] * len(gt)
            if why:
                ctx.violation("cli_%d_%s" % (ci, re.sub(r"\W+", "_", label)), dict(
                    property="C13", kind="command-output", case=c, delivery=label, argv=["obiclean"] + argv[:-1] + [os.path.basename(argv[-1])],
                    input=("never-merged records: " + "".join(fasta_records(c2, form="attr", weight_attr=wattr))[:1500]) if cj is c2 else "the case as FASTA with the merged_%s table" % tag,
                    rc=rc, stderr=err[-400:], why=why[:6], got=got if got is None or len(got) < 40 else got[:40], expected_in_process=want if same else None))
                return n
    if dterms:
        CMD["unmerged_vs_model"] = len(dterms)
        bad, err = ctx.correspond("cmd_unmerged", IMPORTS, dterms, fn="mismatches_ds", shard=8)
        if bad is None:
            broken.append(dict(kind="correspondence", detail=err))
        elif bad:
            broken.append(dict(kind="correspondence", name="corr:C13/never-merged-records", first_diverging_case=split_case(cases[downer[bad[0]]], "reads"), n_diverging=len(bad)))
    if rterms:
        CMD["ratio_vs_model"] = len(rterms)
        bad, err = ctx.correspond("cmd_ratio", IMPORTS3, rterms, fn="mismatches_ratio", shard=25)
        if bad is None:
            broken.append(dict(kind="correspondence", detail=err))
        elif bad:
            broken.append(dict(kind="correspondence", name="corr:C13/ratio-table", first_diverging_case=cases[rowner[bad[0]]], term=rterms[bad[0]][:3000], n_diverging=len(bad)))
    if gterms:
        CMD["gml_vs_model"] = len(gterms)
        bad, err = ctx.correspond("cmd_gml", IMPORTS3, gterms, fn="mismatches_gml", shard=25)
        if bad is None:
            broken.append(dict(kind="correspondence", detail=err))
        elif bad:
            broken.append(dict(kind="correspondence", name="corr:C13/graph-files", first_diverging_case=cases[gowner[bad[0]]], term=gterms[bad[0]][:3000], n_diverging=len(bad)))
    return n


def a_in(i, got):
    return any(a["id"] == i for a in got)


# ----------------------------------------------------------------------------- main
GETTERS = dict(seen=0, disagree=0)
TIMES = {}
DS = dict(n=0, load=0)


def evaluate(ctx, cases, broken, label, corr=True, timeout=None):
    import time
    t0 = time.time()
    obs = ctx.vh_robust("c13", cases, timeout=timeout or (240 if ctx.quick else 1500), one_timeout=60)
    TIMES[label + "_harness_s"] = round(time.time() - t0, 1)
    t0 = time.time()
    nviol = 0
    for i, (c, o) in enumerate(zip(cases, obs)):
        bad = oracle(c, o)
        for kind, detail in bad[:1]:
            nviol += 1
            if nviol <= 3:
                ctx.violation("%s_%s_%d" % (label, kind, i), dict(property="C13", kind=kind, case=c, detail=detail))
    mism = []
    TIMES[label + "_oracle_s"] = round(time.time() - t0, 1)
    t0 = time.time()
    if corr:
        # head flag and counts written by CLIOBIClean vs the model's annotate
        aterms = []
        for c, o in zip(cases, obs):
            if o.get("kind") != "ok":
                continue
            for r in sorted({r["r"] for r in o["runs"] if r["path"] == "cli"})[:1]:
                for a in o["distinct"][r].get("annot") or []:
                    sts = "[" + "; ".join(dict(i="SI", h="SH", s="SS").get(v, "SI") for _, v in sorted(a["status"].items())) + "]"
                    aterms.append("mkacase %s (mkf %s (%d) (%d) (%d) (%d))" % (sts, "true" if a["head"] else "false", a["headcount"],
                                                                               a["internalcount"], a["singletoncount"], a["samplecount"]))
        if aterms:
            abad, aerr = ctx.correspond(label + "_annot", IMPORTS, aterms, fn="mismatches_annot", shard=2000)
            if abad is None:
                broken.append(dict(kind="correspondence", detail=aerr))
            elif abad:
                broken.append(dict(kind="correspondence", name="corr:C13/head-flags", first_diverging_case=aterms[abad[0]], n_diverging=len(abad)))
        # the whole data set: split by sample, union of the annotations over the samples (Model2.annots)
        dterms, downer = [], []
        for i, (c, o) in enumerate(zip(cases, obs)):
            if o.get("kind") != "ok" or len(dterms) >= (40 if ctx.quick else 300):
                continue
            for r in sorted({r["r"] for r in o["runs"] if r["path"] == "cli"})[:1]:
                t = ds_term(c, o["distinct"][r])
                if t:
                    dterms.append(t)
                    downer.append(i)
                for a in o["distinct"][r].get("annot") or []:
                    if a.get("getters") is not None:
                        GETTERS["seen"] += 1
                        if a["getters"] != [a["headcount"], a["internalcount"], a["singletoncount"]]:
                            GETTERS["disagree"] += 1
        # obiiter.Load under the arrival histories: the order of the loaded data set vs Model2.load
        lterms = []
        for c, o in zip(cases, obs):
            if o.get("kind") != "ok" or not c.get("arrivals") or c.get("head"):
                continue
            idx = {x["id"]: k for k, x in enumerate(c["seqs"])}
            b = c["batch"]
            for run in o["runs"]:
                if run["path"] == "cli" and run["rep"] >= 1000:
                    order = run.get("order")
                    if order is None or any(i not in idx for i in order):
                        continue
                    arr = c["arrivals"][run["rep"] - 1000]
                    lterms.append("mklcase [%s] [%s]" % (
                        "; ".join("(%d, [%s])" % (k, "; ".join(str(j) for j in range(k * b, min(len(c["seqs"]), (k + 1) * b)))) for k in arr),
                        "; ".join(str(idx[i]) for i in order)))
        DS["load"] += len(lterms)
        if lterms:
            lbad, lerr = ctx.correspond(label + "_load", IMPORTS, lterms, fn="mismatches_load", shard=400)
            if lbad is None:
                broken.append(dict(kind="correspondence", detail=lerr))
            elif lbad:
                broken.append(dict(kind="correspondence", name="corr:C13/load-order", first_diverging_case=lterms[lbad[0]], n_diverging=len(lbad)))
        DS["n"] += len(dterms)
        if dterms:
            dbad, derr = ctx.correspond(label + "_dataset", IMPORTS, dterms, fn="mismatches_ds", shard=8)
            if dbad is None:
                broken.append(dict(kind="correspondence", detail=derr))
            elif dbad:
                broken.append(dict(kind="correspondence", name="corr:C13/dataset-annotations", first_diverging_case=cases[downer[dbad[0]]],
                                   n_diverging=len(dbad)))
        terms, owner = [], []
        for i, (c, o) in enumerate(zip(cases, obs)):
            if o.get("kind") != "ok" or max((len(v) for v in sample_nodes(c).values()), default=0) > 80:
                continue
            rs = sorted({r["r"] for r in o["runs"] if r["path"] == "graph"})
            for r in rs[:2]:
                for t in coq_terms(c, o["distinct"][r]):
                    terms.append(t)
                    owner.append(i)
        if terms:
            bad, err = ctx.correspond(label, IMPORTS, terms, shard=40)
            if bad is None:
                broken.append(dict(kind="correspondence", detail=err))
            else:
                mism = sorted({owner[k] for k in bad})
    TIMES[label + "_coq_s"] = round(time.time() - t0, 1)
    return obs, mism


def run(ctx, broken):
    rng = ctx.rng
    quick = ctx.quick
    wl = [1, 2, 3, 8, 32] if quick else [1, 2, 3, 4, 5, 8, 13, 16, 32]
    cases = [dict(c) for c in CORPUS]
    nrand = 60 if quick else 1500
    for _ in range(nrand):
        cases.append(gen_case(rng, 14 if quick else 40, rng.sample(wl, 3 if quick else 5) + [1], 2 if quick else 3))
    # contention: stars (every row increments the same counter), many workers, many repetitions
    for k in range(3 if quick else 30):
        cases.append(star_case(rng, rng.choice([12, 20, 30]), [32, 8, 1], 6 if quick else 30, top=(k % 2 == 0),
                               ratio=rng.choice([1.0, 0.5]), dist=rng.choice([1, 1, 2])))
    for k in range(2 if quick else 20):
        cases.append(star_case(rng, 24, [32, 8, 1], 6 if quick else 30, nvar=40, order=2, dist=rng.choice([2, 3])))
    # round 2: the same lost-update search in the pool of extendSimilarityGraph: many short tied double variants of one centre,
    # every row goes through the second pool and increments the centre and the later variants (high contention at distance 2)
    for L, nv in ([(10, 120), (8, 200)] if quick else [(10, 120), (8, 200), (12, 300)] * 5):
        cases.append(star_case(rng, L, [32, 8, 1], 10 if quick else 30, nvar=nv, order=2, dist=2))
    # exhaustive small scopes: every sequence over a small alphabet up to a length, all in one sample
    cases.append(exhaustive_case(rng, "ac", 4, [1, 4], 1))
    cases.append(exhaustive_case(rng, "ac", 3, [1, 4], 1, dist=2))
    if not quick:
        cases.append(exhaustive_case(rng, "acg", 4, [1, 8], 2))
        cases.append(exhaustive_case(rng, "ac", 6, [1, 8], 2))
        cases.append(exhaustive_case(rng, "acgt", 3, [1, 8], 2, dist=2))
    # large samples (>= 32 x workers sequences), the most abundant sequences being variants of each other
    cases.append(large_case(rng, [8, 5, 2, 1], 1))
    cases.append(large_case(rng, [10, 9, 4, 1], 1, ratio=0.5))
    cases.append(large_case(rng, [32, 1], 2))
    if not quick:
        for k in range(12):
            cases.append(large_case(rng, rng.sample([2, 3, 4, 5, 7, 8, 9, 10, 13, 16], 3) + [1], 2, ratio=rng.choice([1.0, 0.5, 0.1])))
        cases.append(large_case(rng, [32, 16, 1], 3))
    obs, mism = evaluate(ctx, cases, broken, "main")
    ctx.cov["dataset_level_cases_vs_model"] = DS["n"]
    ctx.cov["load_arrival_histories_vs_model"] = DS["load"]
    ctx.cov["ratio_boundary_samples_left_to_float_oracle"] = SKIPPED["boundary"]
    ctx.cov["edges_exactly_on_ratio_boundary_checked_vs_model"] = SKIPPED["on_boundary_d1"]
    ctx.cov["dead_getters_HeadCount_InternalCount_SingletonCount"] = dict(
        sequences=GETTERS["seen"], disagree_with_written_annotation=GETTERS["disagree"],
        note="exported getters of package obiclean called nowhere in the code base: they convert the zero local instead of the stored "
             "value (always 0) and SingletonCount reads obiclean_samplecount; the annotations written by annotateOBIClean are computed "
             "from local counters and are exact (model + oracle); informative, not a violation of C13")
    ctx.cov["arrival_histories"] = sum(len(c.get("arrivals") or []) for c in cases)
    ctx.cov["evaluations"] = sum(len(o.get("runs", [])) for o in obs)
    ctx.cov["exhaustive"] = "all ordered pairs of sequences over {a,c} up to length %d%s as one sample (edges, statuses, weights)" % (
        4 if quick else 6, "" if quick else ", over {a,c,g} up to length 4, over {a,c,g,t} up to length 3 (distance 2)")
    ctx.cov["command_cases"] = cli_drive(ctx, cases, obs, broken, 26 if quick else 80)
    ctx.cov["command_runs"] = CMD["runs"]
    ctx.cov["command_runs_by_delivery"] = CMD["kinds"]
    ctx.cov["save_ratio_rows_judged"] = CMD["ratio_rows"]
    ctx.cov["save_ratio_rows_with_a_letter_outside_acgt_written_as_gap"] = CMD["non_acgt_rows"]
    ctx.cov["save_graph_nodes_edges_judged"] = [CMD["gml_nodes"], CMD["gml_edges"]]
    ctx.cov["save_ratio_samples_vs_model"] = CMD["ratio_vs_model"]
    ctx.cov["save_graph_samples_vs_model"] = CMD["gml_vs_model"]
    ctx.cov["never_merged_data_sets_vs_model"] = CMD["unmerged_vs_model"]
    nontrivial = set()
    dist = {}
    classes = {}
    for c, o in zip(cases, obs):
        ne = 0
        if o.get("kind") == "ok" and o["distinct"] and o["distinct"][0].get("graph"):
            ne = sum(len(x["edges"]) for g in o["distinct"][0]["graph"].values() for x in g)
        if ne > 0:
            nontrivial.add(json.dumps([c["seqs"], c["dist"], c["ratio"]], sort_keys=True))
        k = "%s/d%d/r%s/%s" % (c["kind"], c["dist"], c["ratio"], "edges" if ne else "noedge")
        dist[k] = dist.get(k, 0) + 1
        for k in ("form:" + (c.get("form") or "merged-table"), "attribute:" + tag_of(c), "letters:" + (c.get("alphabet") or "acgt"),
                  "earlier-run-on-the-same-objects:" + ("yes" if c.get("prior") else "no"),
                  "sample-names:" + ("number/NA" if any(re.fullmatch(r"\d+|NA", k_) for x in c["seqs"] for k_ in x["counts"]) else "plain")):
            classes[k] = classes.get(k, 0) + 1
    ctx.cov["distinct_nontrivial"] = len(nontrivial)
    ctx.cov["rule"] = ("data sets: stars, chains, deep chains with leaves, homopolymer indel families, abundance ties (also all counts equal), "
                       "most abundant sequences variants of each other, large samples (>= 32 x workers sequences), indel next to a substitution, very different "
                       "lengths in one sample, the empty data set, random families over 1-5 samples; sample table as map / interface map / StatsOnValues / "
                       "bare attribute (number, string, absent), attribute sample or pcr, a letter outside a/c/g/t (distance 1), an earlier run on the same objects; "
                       "distance 1..3, ratio 1/0.5/0.25/0.75/0.125/0.1/0.05/0.2/0.3/0.7 (all in the Coq correspondence); batch arrival histories; each built with several worker counts in 1..32 x repetitions "
                       "through the hook and CLIOBIClean; evaluations = graph builds; non-trivial = the graph has at least one edge; "
                       "distinct = distinct (data set, distance, ratio)")
    ctx.cov["distribution"] = dist
    ctx.cov["input_classes"] = classes
    ctx.cov["worker_counts"] = wl
    ctx.samples = [dict(case=c, result=(o["distinct"][0] if o.get("distinct") else o)) for c, o in list(zip(cases, obs))[:2]]
    ctx.cov["model_vs_impl_mismatches"] = len(mism)
    ctx.cov["phase_times"] = TIMES

    # the race detector decides inc_kind: a report on obiclean state contradicts Atomic
    rb, err = ctx.build_harness(race=True)
    if rb is None:
        broken.append(dict(kind="harness-build", detail="-race: " + str(err)))
    else:
        rcases = [star_case(rng, 20, [8], 2, top=True), star_case(rng, 16, [4], 2, dist=2),
                  star_case(rng, 20, [8], 2, nvar=30, order=2), dict(CORPUS[3], workers=[4], reps=1)]
        if not quick:
            rcases += [star_case(rng, 30, [32], 3, dist=3, ratio=0.5)] + [gen_case(rng, 30, [8], 1) for _ in range(40)]
        rel, other, rerr = race_reports(ctx, rb, rcases)
        ctx.cov["race_reports_on_obiclean_state"] = len(rel)
        ctx.cov["race_reports_elsewhere_not_raised"] = other
        if rerr:
            broken.append(dict(kind="race-run", detail=rerr))
        if rel:
            ctx.violation("race_seqPCR", dict(property="C13", kind="data-race",
                                              what="the Go race detector reports unsynchronised accesses in package obiclean: the son "
                                                   "counter is not Atomic, so C13_schedule_independent does not apply (C13_lost_update_refuted does)",
                                              case=rcases[0], reports=rel[:2], n_reports=len(rel)))

    if mism and not ctx.violations:
        more = [gen_case(rng, 40, [1, 2, 8, 32], 3) for _ in range(600)]
        evaluate(ctx, more, [], "search", corr=False)
        if not ctx.violations:
            i = mism[0]
            broken.append(dict(kind="correspondence", name="corr:C13/graph", first_diverging_case=cases[i],
                               implementation=obs[i]["distinct"][0], n_diverging=len(mism)))
    elif mism:
        ctx.cov["note"] = "model and implementation diverge on %d cases (violations reported by the direct oracle)" % len(mism)


def replay(ctx, rp):
    c = rp["case"]
    obs, mism = evaluate(ctx, [c], [], "replay")
    o = obs[0]
    print("replay: %d sequences, dist %s ratio %s workers %s x %s" % (len(c["seqs"]), c["dist"], c["ratio"], c["workers"], c["reps"]))
    print("  distinct results:", len(o.get("distinct", [])), "| oracle:", [k for k, _ in oracle(c, o)] or "ok",
          "| model-mismatch" if mism else "| model-agrees")
    if rp.get("kind") == "command-output":
        before = len(ctx.violations)
        broken = []
        n = cli_drive(ctx, [dict(c, cli=True)], obs, broken, 1)
        print("  command runs: %d (%s) | %s" % (CMD["runs"], ", ".join(sorted(CMD["kinds"])),
                                               "violation again: " + ctx.violations[-1] if len(ctx.violations) > before else
                                               "broken: %s" % broken if broken else "all deliveries agree with the oracle and the model"))
    if rp.get("kind") == "data-race":
        rb, err = ctx.build_harness(race=True)
        rel, other, rerr = race_reports(ctx, rb, [c])
        print("  race reports on obiclean state: %d (elsewhere: %d)" % (len(rel), other))
        if rel:
            print(rel[0][:1500])
