"""C14 — taxonomy queries agree with the tree: LCA, lineage, clade, rank, aliases (pkg/obitax + ncbitaxdump loader)."""
import itertools, json, math, os, re, struct, subprocess, tempfile, time

PROPS = ["C14/Props.v"]
META = dict(
    text="46 Rocq theorems (unbounded, by induction on lineages) over an executable model of pkg/obitax and of the row semantics of ncbitaxdump.LoadNCBITaxDump: Path is the parent chain from the taxon "
         "to the self-looped root without repetition (and returns for every taxon of a well-formed taxonomy); LCA (paths compared from the root end) is the deepest common ancestor-or-self, "
         "commutative, associative, idempotent; IsSubCladeOf / IsBelongingSubclades / TaxonAtRank / HasRankDefined are membership / first match on that path; merged ids resolve to a present node; "
         "rows outside the tree (dangling parent) change no answer about the taxa of the tree. The weighted sequence LCA Taxonomy.LCA(seq, threshold) is modelled for EVERY threshold and for three "
         "arithmetics of rmax (IEEE binary64 = the Go code, exact rationals, 'still 1' for threshold 1.0): the set of possible outcomes is independent of the map iteration order, it is a single outcome "
         "iff no tie between maximal children passes the threshold (never above 1/2 with exact arithmetic, never at threshold 1.0; a witness at 1/2 is proved and observed on the code), every outcome is "
         "a walk down the tree along a heaviest clade while (heaviest clade weight / weight of the merged taxa comparable with the current taxon) cumulated >= threshold; at threshold 1.0 it is the LCA "
         "of the taxa designated by a key of positive count (aliases of one taxon add up, zero counts do not count). Taxon(interface{}) spellings (int, \"n\", \"+n\", first TX:n) designate one taxon; "
         "IsNameEqual/IsNameMatching on byte strings (regexp = oracle), names.dmp lines parsed field by field. On every run the model is evaluated by vm_compute on the same synthetic NCBI dumps and "
         "queries that the real loader and methods ran on (every rooted tree up to 5 (quick) / 6 (thorough) nodes x all pairs incl. aliases and unknown ids x all ranks, random trees up to 2000 / 5000 "
         "nodes, chains, stars, alias chains up to length 5, rows outside the tree, thresholds from 1.5 down to 0.1 run 12-40 times each on fresh sequences: every observed (taxid, rans bit pattern, "
         "granTotal) must be one the binary64 model allows), a Python oracle on the parent map checks the statement directly (LCA by ancestor-set intersection and depth; descent by clade weights), "
         "and obigrep -r/-i/--require-rank and obiannotate --with-taxon-at-rank/--add-lca-in are run on built binaries.",
    note="Hypothesis wf_tax (one self-looped root, parents present, every node reaches the root) is decided by the proved-sound wf_check on every generated taxonomy and compared with the generator's "
         "own verdict; the loader checks none of it (observation: a parent cycle makes Path loop forever). Rank labels are abstracted to codes. The tree-level characterisation of the descent is generic in the arithmetic under the "
         "hypotheses 'a null share fails the test on reachable scores' (threshold > 0), discharged for exact rationals (any positive threshold) and for threshold 1.0, NOT for binary64; the statement 'no tie passes above 1/2' is proved for exact rationals only - for binary64 it is observed (single outcome over repeated "
         "runs), not proved. Regexp matching is an oracle (a table of Python re verdicts on RE2-compatible patterns in the correspondence). Thresholds <= 0 never return (observation). CLI level is "
         "checked against the oracle only. Fixed in round 2: TaxonomicDistribution overwrote the weights of aliases of one taxon; ReindexParent stopped at the first dangling parent; SetTaxonAtRank "
         "dereferenced a missing scientific name. Round 1: AddNewName dropped the first alternate name.")
TRUSTED = ["float64 arithmetic of Go (float64(int) exact below 2^53, /, *, >= round-to-nearest-even) = Coq.Floats.SpecFloat binary64 (SFdiv, SFmul, SFleb, binary_normalize); compared bit for bit on every run",
           "Go map iteration order is modelled as an arbitrary choice: wld_all collects the outcomes of every choice among maximal keys; C14_wlcad_outcomes_order_independent shows nothing else depends on it",
           "regexp.MatchString is an oracle (Section-style parameter rm of name_matching); the fixed pattern TX:(\\d+) of Taxonomy.Taxon is transcribed as find_tx (leftmost match, greedy digits)",
           "encoding/csv + bufio line splitting of nodes.dmp / merged.dmp (rows are modelled as already parsed); names.dmp lines: strings.Split / TrimSpace transcribed for ASCII blanks (parse_name_line)",
           "strconv.Atoi transcribed as atoi (optional sign, decimal digits, int64 range; on a range error the value MaxInt64 is kept by Taxon)"]

RANKS = ["no rank", "species", "genus", "family", "order", "class", "kingdom"]
IMPORTS = "From Coq Require Import NArith ZArith List Floats.SpecFloat. Import ListNotations.\nFrom OBI.C14 Require Import Model.\nOpen Scope N_scope."


# ------------------------------------------------------------------ the reference semantics (parent map)
class Tax:
    def __init__(self, case):
        self.nodes = {}
        for t, p, r in case["nodes"]:
            self.nodes[t] = (p, r)                       # a later row replaces an earlier one
        self.alias = {}
        for old, new in case["merged"]:
            n = self.resolve(new)
            if n is not None:
                self.alias[old] = n
        self.names = {}
        self.sci = {}
        for row in case["names"]:
            t, n, c = row[0], row[1].strip(), row[2].strip()
            if case.get("onlysn") and c != "scientific name":
                continue
            if t in self.nodes:                          # names are read before merged.dmp: only node ids designate a taxon
                if c == "scientific name":
                    self.sci[t] = n                      # the last one wins, the earlier ones are forgotten
                else:
                    self.names.setdefault(t, set()).add(n)
        for t, n in self.sci.items():
            self.names.setdefault(t, set()).add(n)
        self.ranklist = {r for (_, r) in self.nodes.values()}

    def resolve(self, x):
        if x in self.nodes:
            return x
        return self.alias.get(x)

    def wf(self):
        roots = [t for t, (p, _) in self.nodes.items() if p == t]
        if len(roots) != 1:
            return False
        for t in self.nodes:
            if self.anc(t) is None:
                return False
        return True

    def anc(self, x):
        """ancestors-or-self, from x to the root; None if the walk leaves the map or cycles"""
        seen, l = set(), []
        while True:
            if x not in self.nodes or x in seen:
                return None
            seen.add(x)
            l.append(x)
            p = self.nodes[x][0]
            if p == x:
                return l
            x = p

    def lca(self, x, y):
        """deepest common ancestor-or-self, by set intersection and depth (independent of the code's algorithm)"""
        ax, ay = self.anc(x), self.anc(y)
        common = set(ax) & set(ay)
        return max(common, key=lambda w: len(self.anc(w)))

    def at_rank(self, x, r):
        for w in self.anc(x):
            if self.nodes[w][1] == r:
                return w
        return None


def expected(case):
    """What the property demands for each query (None = unconstrained)."""
    T = Tax(case)
    e = dict(pairs=[], paths=[], ranks=[], sets=[], resolve=[], namesq=[], seqs=[])
    for a, b in case["pairs"]:
        x, y = T.resolve(a), T.resolve(b)
        if x is None or y is None:
            e["pairs"].append(dict(lca=-1, sub=-1))
        elif T.anc(x) is None or T.anc(y) is None:
            e["pairs"].append("*")                       # a taxon that does not reach the root: outside the tree
        else:
            e["pairs"].append(dict(lca=T.lca(x, y), sub=int(y in T.anc(x))))
    for a in case["paths"]:
        x = T.resolve(a)
        e["paths"].append(None if x is None else ("*" if T.anc(x) is None else T.anc(x)))
    for a, r in case["ranks"]:
        x = T.resolve(a)
        if x is None:
            e["ranks"].append(dict(at=-1, nil=0, has=-1))
        elif T.anc(x) is None:
            e["ranks"].append("*")
        else:
            w = T.at_rank(x, r)
            e["ranks"].append(dict(at=0 if w is None else w, nil=int(w is None), has=int(w is not None)))
    for a, ids in case["sets"]:
        x = T.resolve(a)
        if x is None:
            e["sets"].append(-1)
        elif T.anc(x) is None:
            e["sets"].append("*")
        else:
            cl = {T.resolve(i) for i in ids} - {None}
            e["sets"].append(int(any(w in cl for w in T.anc(x))))
    for a in case["resolve"]:
        x = T.resolve(a)
        e["resolve"].append(-1 if x is None else x)
    for a, n in case["namesq"]:
        x = T.resolve(a)
        e["namesq"].append(-1 if x is None else (-3 if x not in T.sci else int(n in T.names.get(x, ()))))
    e["namesm"] = []
    for a, pat in case.get("namesm") or []:
        x = T.resolve(a)
        e["namesm"].append(-1 if x is None else (-3 if x not in T.sci else int(any(re.search(pat, n) for n in T.names.get(x, ())))))
    e["forms"] = []
    for kind, v in case.get("forms") or []:
        z = form_taxid(kind, v)
        x = None if z is None else T.resolve(z)
        e["forms"].append(-1 if x is None else x)
    if case.get("loads"):
        e["nilpar"] = [sorted(t for t, (p, _) in T.nodes.items() if p not in T.nodes)]
    for s in case["seqs"]:
        e["seqs"].append(expected_seq(T, s))
    return e


def form_taxid(kind, v):
    """the taxid Taxonomy.Taxon(interface{}) looks up (None = parse error)"""
    if kind == "int":
        return v
    if kind != "str":
        return 0                                         # the type switch has no default: itaxid stays 0
    if re.fullmatch(r"[+-]?[0-9]+", v) and -2 ** 63 <= int(v) < 2 ** 63:
        return int(v)
    m = re.search(r"TX:([0-9]+)", v)
    if not m:
        return None
    return min(int(m.group(1)), 2 ** 63 - 1)


def fbits(x):
    return struct.unpack(">Q", struct.pack(">d", x))[0]


def descent(T, dist, thr):
    """Taxonomy.LCA(seq, thr) restated on the TREE (clade weights), every choice among tied heaviest children:
    set of (taxid | -4, bits of rans).  dist: node -> weight >= 0 (all nodes reach the root); thr > 0."""
    if not dist:
        return {(-4, fbits(1.0))}
    nodes = list(dist)
    root = T.anc(nodes[0])[-1]
    if not (1.0 >= thr):
        return {(root, fbits(1.0))}
    ancs = {x: T.anc(x) for x in nodes}
    ancset = {x: set(a) for x, a in ancs.items()}
    res = set()
    todo = [(root, 1.0, 0)]
    while todo:
        # one turn of the loop: answer = a, rans = r; candidates are the taxa at this depth below a
        a, r, depth = todo.pop()
        if depth == 0:
            cand = {root}
            total = sum(dist.values())
        else:
            cand = {ancs[x][-1 - depth] for x in nodes if len(ancs[x]) > depth and ancs[x][-depth] == a}
            anc_a = set(T.anc(a))
            total = sum(w for x, w in dist.items() if a in ancset[x] or x in anc_a)
        ws = {c: sum(w for x, w in dist.items() if c in ancset[x]) for c in cand}
        wmax = max([0] + list(ws.values()))
        r2 = r * (wmax / total) if total > 0 else 0.0
        if not (r2 >= thr):
            res.add((a, fbits(r)))
            continue
        for c in cand:
            if ws[c] == wmax and wmax > 0:
                todo.append((c, r2, depth + 1))
    return res


UNKNOWN_ID = 10 ** 9 + 7


def slot_id(s):
    """taxid designated by the clade attribute as Taxonomy.Taxon(string) reads it: an integer, or the first TX:<digits>; None = attribute absent"""
    if s.get("slotstr") is not None:
        v = s["slotstr"]
        if re.fullmatch(r"[+-]?\d+", v):
            return int(v)
        m = re.search(r"TX:(\d+)", v)
        return int(m.group(1)) if m else UNKNOWN_ID
    return s.get("slot")


def expected_seq(T, s):
    tid = s["taxid"] if s.get("taxid") is not None else 1
    x = T.resolve(tid)
    r = dict(valid=int(x is not None), restrict=-9, ignore=-9, require=-9, slotsub=-9, atrank=None, wlca=-9, lcaattr=-9)

    def inclade(ids):
        return int(x is not None and any(T.resolve(c) in T.anc(x) for c in ids))
    if s.get("restrict"):
        r["restrict"] = -3 if any(T.resolve(c) is None for c in s["restrict"]) else inclade(s["restrict"])
    if s.get("ignore"):
        r["ignore"] = -3 if any(T.resolve(c) is None for c in s["ignore"]) else 1 - inclade(s["ignore"])
    if s.get("require"):
        r["require"] = -3 if any(k not in T.ranklist for k in s["require"]) else int(x is not None and all(T.at_rank(x, k) is not None for k in s["require"]))
    if slot_id(s) is not None:
        c = T.resolve(slot_id(s))
        r["slotsub"] = int(c is not None and x is not None and c in T.anc(x))
    if s.get("atrank"):
        r["atrank"] = {}
        for k in s["atrank"]:
            if k not in T.ranklist:
                r["atrank"][k] = -3
            elif x is None:
                r["atrank"][k] = -9
            else:
                w = T.at_rank(x, k)
                r["atrank"][k] = -1 if w is None else w
    if s.get("merged") is not None or s.get("taxid") is not None:
        m = s["merged"] if s.get("merged") is not None else {str(s["taxid"]): 1}
        taxa = [(T.resolve(int(k)), w) for k, w in m.items()]
        if any(t is None for t, _ in taxa):
            r["wlca"] = r["lcaattr"] = -3          # Taxon() fails: TaxonomicDistribution panics (unknown taxid in the merged set)
        else:
            pos = [t for t, w in taxa if w > 0]
            if pos:
                l = pos[0]
                for t in pos[1:]:
                    l = T.lca(l, t)
                r["wlca"] = r["lcaattr"] = l
            else:
                r["wlca"] = r["lcaattr"] = None    # no taxon of positive weight: unconstrained
    r["notax"] = -9
    if s.get("merged") is None and s.get("taxid") is None:
        x0 = T.resolve(0)                                        # {"na": 1}: Atoi("na") = 0: taxid 0 is looked up
        r["notax"] = x0 if x0 is not None and T.anc(x0) is not None else -3
    r["thr"] = []
    for thr in s.get("thr") or []:
        m = s["merged"] if s.get("merged") is not None else ({str(s["taxid"]): 1} if s.get("taxid") is not None else {"0": 1})
        taxa = [(T.resolve(int(k)), w) for k, w in m.items()]
        if any(t is None or T.anc(t) is None for t, _ in taxa):
            r["thr"].append(None)                                # panic
            continue
        dist = {}
        for t, w in taxa:
            dist[t] = dist.get(t, 0) + w                         # the weights of aliases of one taxon add up
        g = sum(dist.values())
        r["thr"].append(sorted((t, b, g) for t, b in descent(T, dist, thr)))
    return r


def compare(case, obs, exp):
    """list of (what, index, implementation, expected) where the implementation disagrees with the property"""
    bad = []
    if obs.get("kind") != "ok":
        return [("load", 0, obs, "ok")]
    for k in ("pairs", "ranks"):
        for i, (o, x) in enumerate(zip(obs.get(k) or [], exp[k])):
            if o != x and x != "*":
                bad.append((k, i, o, x))
    for i, (o, x) in enumerate(zip(obs.get("paths") or [], exp["paths"])):
        if o != x and x != "*":
            bad.append(("paths", i, o, x))
    for k in ("sets", "resolve", "namesq", "namesm", "forms"):
        for i, (o, x) in enumerate(zip(obs.get(k) or [], exp[k])):
            if o != x and x != "*":
                bad.append((k, i, o, x))
    if "nilpar" in exp and obs.get("nilpar") != exp["nilpar"]:
        bad.append(("nilpar", 0, obs.get("nilpar"), exp["nilpar"]))
    for i, (o, x) in enumerate(zip(obs.get("seqs") or [], exp["seqs"])):
        for f in ("valid", "restrict", "ignore", "require", "slotsub", "wlca", "lcaattr"):
            if x[f] is not None and o[f] != x[f]:
                bad.append(("seq." + f, i, o[f], x[f]))
        if x["atrank"] is not None and (o.get("atrank") or {}) != x["atrank"]:
            bad.append(("seq.atrank", i, o.get("atrank"), x["atrank"]))
        if x["lcaattr"] is not None and x["lcaattr"] >= 0 and o.get("lcaerr") not in ("0", "-0"):
            bad.append(("seq.lcaerr", i, o.get("lcaerr"), "0"))
        if o.get("notax", -9) != x["notax"]:
            bad.append(("seq.notax", i, o.get("notax"), x["notax"]))
        for j, (thr, ot, xt) in enumerate(zip(case["seqs"][i].get("thr") or [], o.get("thr") or [], x["thr"])):
            what = "seq.thr1" if thr == 1.0 else "seq.thr"       # thr1: the zero-error case the property speaks of
            runs = [q for q in ot if q["t"] != -100]
            wk = [q for q in ot if q["t"] == -100]
            if xt is None:
                if any(q["t"] != -3 for q in runs):
                    bad.append((what, i, ot, "panic"))
                continue
            allowed = {(t, b, g) for t, b, g in xt}
            got = {(q["t"], int(q["b"]) if q["b"] else 0, q["g"]) for q in runs}
            if not got <= allowed or (thr == 1.0 and len(got) != 1):
                bad.append((what, i, sorted(got), sorted(allowed)))
            for q in wk:                                          # the worker: taxid and error = round((1-rans)*1000)/1000
                okw = False
                for t, b, g in xt:
                    rans = struct.unpack(">d", struct.pack(">Q", b))[0]
                    try:
                        okw = okw or (q["wt"] == t and abs(float(q["we"]) - math.floor((1 - rans) * 1000 + 0.5) / 1000) < 1e-12)
                    except ValueError:
                        pass
                if not okw:
                    bad.append((what + ".worker", i, q, sorted(allowed)))
    for k in ("pairs", "paths", "ranks", "sets", "resolve", "namesq", "seqs"):
        if len(obs.get(k) or []) != len(exp[k]):
            bad.append((k + ".len", 0, len(obs.get(k) or []), len(exp[k])))
    return bad


# ------------------------------------------------------------------ generators
def all_parent_maps(n):
    """every rooted tree on nodes 0..n-1 with root 0, as parent tuples"""
    res = []
    for ps in itertools.product(range(n), repeat=n - 1):
        par = (0,) + ps
        ok = True
        for v in range(1, n):
            x, k = v, 0
            while x != 0 and k <= n:
                x = par[x]; k += 1
            if x != 0:
                ok = False; break
        if ok:
            res.append(par)
    return res


def shape(rng, n, kind):
    """parent index list of a rooted tree on 0..n-1 (root 0)"""
    if kind == "chain":
        return [0] + list(range(0, n - 1))
    if kind == "star":
        return [0] * n
    if kind == "deep":
        return [0] + [rng.randrange(max(0, v - 3), v) for v in range(1, n)]
    if kind == "caterpillar":
        spine = max(1, n // 2)
        return [0] + [v - 1 if v < spine else rng.randrange(0, spine) for v in range(1, n)]
    if kind == "binary":
        return [0] + [(v - 1) // 2 for v in range(1, n)]
    return [0] + [rng.randrange(0, v) for v in range(1, n)]      # random recursive tree


def mk_case(rng, par, kind, nq, exhaustive=False, ranks=None, with_seqs=True, plain=False):
    n = len(par)
    # taxids: distinct; the root is usually 1 (NCBI) but not always
    if exhaustive:
        ids = rng.sample(range(1, 4 * n + 4), n)
    else:
        ids = rng.sample(range(2, 12 * n + 20), n)
        if rng.random() < 0.7:
            ids[0] = 1
    pool = ranks or RANKS[:rng.randrange(2, len(RANKS) + 1)]
    if kind in ("chain", "deep") and rng.random() < 0.5:
        rk = [pool[min(len(pool) - 1, (n - 1 - v) * len(pool) // n)] for v in range(n)]
    else:
        rk = [rng.choice(pool) for _ in range(n)]
    rows = [[ids[v], ids[par[v]], rk[v]] for v in range(n)]
    rng.shuffle(rows)
    used = set(ids)
    fresh = []
    while len(fresh) < 12:
        x = rng.randrange(0, 12 * n + 40)
        if x not in used:
            used.add(x); fresh.append(x)
    unknown = fresh[:2]
    merged = []
    na = 0 if rng.random() < 0.15 else rng.randrange(1, 4)
    olds = fresh[2:2 + na]
    for o in olds:
        merged.append([o, rng.choice(ids)])
    if olds and rng.random() < 0.4:
        merged.append([fresh[5], olds[0]])                   # chained: merged into an id that is itself merged (listed before)
        olds = olds + [fresh[5]]
        if rng.random() < 0.6:                               # round 2: alias chains of length 3..5
            for j in range(6, 6 + rng.randrange(1, 4)):
                merged.append([fresh[j], olds[-1]])
                olds = olds + [fresh[j]]
    if rng.random() < 0.1:
        merged.append([fresh[10], fresh[9]])                 # chain listed in the wrong order: the first row is skipped (new id unknown at that moment)
        merged.append([fresh[9], rng.choice(ids)])
        olds = olds + [fresh[9]]
        unknown = unknown + [fresh[10]]
    if rng.random() < 0.2:
        merged.append([rng.choice(ids), rng.choice(ids)])    # an old id that is still a node: the node wins
    if rng.random() < 0.2:
        merged.append([unknown[1], unknown[0]])              # merged into an unknown id: ignored
    if olds and rng.random() < 0.2:
        merged.append([olds[0], rng.choice(ids)])            # the same old id twice: the later row wins
    names = [[t, "taxon%d" % t, "scientific name", rng.choice(["", "taxon%d <x>" % t])] for t in ids]
    for t in rng.sample(ids, min(n, 3)):
        for j in range(rng.randrange(1, 4)):
            names.append([t, "alt%d_%d" % (t, j), rng.choice(["synonym", "common name", "scientific name ", "Scientific name", "authority"]), "u%d" % j])
        if rng.random() < 0.3:
            names.append([t, "second sci %d" % t, "scientific name", ""])    # two scientific names: the last row wins
    for r in names:
        r.append(rng.choice([0, 0, 0, 1, 2]))               # layout of the line (tabs / nothing / blanks)
    nameless = None
    if not exhaustive and not plain and n >= 3 and rng.random() < 0.15:
        nameless = rng.choice(ids[1:])                       # a taxon without any "scientific name" row
        names = [r for r in names if not (r[0] == nameless and r[2] == "scientific name")]
    rng.shuffle(names)
    garbage = []
    if not exhaustive and not plain and n >= 3 and rng.random() < 0.15:
        # rows that are not part of the tree: a dangling parent id (and possibly a child of that row)
        g1 = fresh[11]
        rows.append([g1, 10 ** 6 + rng.randrange(1000), rng.choice(pool)])
        garbage.append(g1)
        if rng.random() < 0.5:
            g2 = 10 ** 6 + 5000 + rng.randrange(1000)
            rows.append([g2, g1, rng.choice(pool)])
            garbage.append(g2)
        rng.shuffle(rows)
        names += [[g, "garbage%d" % g, "scientific name", "", 0] for g in garbage]
    qids = ids + olds + unknown
    case = dict(kind=kind, n=n, nodes=rows, names=names, merged=merged, onlysn=rng.random() < 0.25)
    if garbage:
        case["loads"] = 6
        case["garbage"] = garbage
    elif rng.random() < 0.1:
        case["loads"] = 2
    T = Tax(case)
    small = n <= 60
    if exhaustive:
        case["pairs"] = [[a, b] for a in qids for b in qids]
        case["paths"] = list(qids)
        case["ranks"] = [[a, r] for a in qids for r in pool + ["absent rank"]]
        case["resolve"] = list(qids)
    else:
        near = []                                            # pairs biased to ancestor/descendant and siblings
        for _ in range(nq // 3):
            a = rng.choice(ids)
            an = T.anc(a)
            near.append([a, rng.choice(an)])
            near.append([rng.choice(an), a])
        case["pairs"] = near + [[rng.choice(qids), rng.choice(qids)] for _ in range(nq)] + [[ids[0], ids[0]], [ids[0], rng.choice(ids)], [rng.choice(ids), ids[0]]]
        case["paths"] = [rng.choice(qids) for _ in range(max(3, nq // 8))] + [ids[0]]
        case["ranks"] = [[rng.choice(qids), rng.choice(pool + ["absent rank"])] for _ in range(nq)]
        case["resolve"] = [rng.choice(qids) for _ in range(nq // 2)] + olds + unknown
    if garbage:
        case["pairs"] += [[rng.choice(garbage), rng.choice(ids)], [rng.choice(ids), rng.choice(garbage)], [garbage[0], garbage[-1]], [garbage[-1], garbage[0]]]
        case["paths"] += garbage
        case["ranks"] += [[g, rng.choice(pool)] for g in garbage]
        case["resolve"] += garbage
    case["sets"] = [[rng.choice(qids), [rng.choice(qids + garbage) for _ in range(rng.randrange(0, 4))]] for _ in range(min(nq, 12))]
    case["namesq"] = [[r[0], r[1]] for r in names if r[2] != "scientific name"][:12] + [[names[0][0], "nobody"], [names[0][0], ""]] + \
                     [[rng.choice(ids), "taxon%d" % rng.choice(ids)] for _ in range(3)] + ([[nameless, "taxon%d" % nameless]] if nameless else [])
    pats = ["^taxon", "^alt", "_1$", "t.x", "[0-9]+_[0-9]", "zzz", "(second|alt)", "taxon%d$" % rng.choice(ids), "^$", "sci [0-9]", "n%d" % (rng.choice(ids) % 10)]
    case["namesm"] = [[rng.choice(qids), rng.choice(pats)] for _ in range(min(nq, 8))] + ([[nameless, "taxon"]] if nameless else [])
    x = rng.choice(qids)
    case["forms"] = [["int", x], ["str", str(x)], ["str", "TX:%d" % x], ["str", "taxon [TX:%d] TX:1" % x], ["str", "+%d" % x], ["str", "-%d" % x], ["str", "TX:%dx" % x],
                     ["str", "TTX:%d" % x], ["str", "TX:TX:%d" % x], ["str", "TX: %d" % x], ["str", "tx:%d" % x], ["str", " %d" % x], ["str", "%d " % x], ["str", ""],
                     ["str", "0%d" % x], ["str", "TX:00%d" % x], ["str", "%d_0" % x], ["str", "0x%d" % x], ["str", "TX:99999999999999999999"], ["str", "99999999999999999999"],
                     ["str", "9223372036854775807"], ["str", "-9223372036854775808"], ["str", "9223372036854775808"], ["str", "TXTX:%d" % x], ["str", "T%d TX:X TX:%d" % (x, x)],
                     ["f64", float(x)], ["i64", x], ["nil", None], ["bytes", str(x)], ["int", 0], ["int", -x - 1], ["str", "0"], ["str", "TX:0"]]
    if exhaustive or n > 60:
        case["forms"] = case["forms"][:3] + rng.sample(case["forms"][3:], 5)
    case["seqs"] = []
    if with_seqs:
        for _ in range(min(nq, 10)):
            s = dict(taxid=rng.choice(qids) if rng.random() < 0.9 else None, merged=None)
            if rng.random() < 0.8:
                s["restrict"] = [rng.choice(ids + olds) for _ in range(rng.randrange(1, 3))]
            if rng.random() < 0.6:
                s["ignore"] = [rng.choice(ids + olds) for _ in range(rng.randrange(1, 3))]
            if rng.random() < 0.1:
                (s.setdefault("restrict", [])).append(unknown[0])
            if rng.random() < 0.7:
                s["require"] = [rng.choice(pool) for _ in range(rng.randrange(1, 3))]
                if rng.random() < 0.1:
                    s["require"].append("absent rank")
            if rng.random() < 0.7:
                s["atrank"] = sorted({rng.choice(pool + ["absent rank"]) for _ in range(rng.randrange(1, 3))})
            r = rng.random()
            if r < 0.4:
                s["slot"] = rng.choice(qids)
            elif r < 0.6:
                x = rng.choice(qids)
                s["slotstr"] = rng.choice(["TX:%d", "taxon TX:%d [x]", "%d", "+%d", "TX:%d TX:1", "tx:%d", "TX%d", "NA", "", "TX:", "12x"]).replace("%d", str(x))
            if rng.random() < 0.04:
                s["taxid"] = None                              # neither taxid nor merged_taxid: {"na": 1}
                s.pop("restrict", None); s.pop("ignore", None); s.pop("require", None); s.pop("atrank", None); s.pop("slot", None); s.pop("slotstr", None)
                s["thr"], s["reps"] = [1.0], 1
            elif rng.random() < 0.75:
                k = rng.choice([1, 2, 2, 3, 4, 6])
                base = rng.choice(ids)          # taxa of one clade: the LCA is below the root
                cl = [t for t in rng.sample(ids, min(n, 40)) if base in T.anc(t)] if rng.random() < 0.6 else []
                src = cl if len(cl) >= 2 else ids
                keys = [rng.choice(src) for _ in range(k)]
                m = {str(t): rng.randrange(1, 6) for t in keys}
                r = rng.random()
                if olds and r < 0.15:
                    m[str(rng.choice(olds))] = rng.randrange(1, 4)        # an alias among the merged taxids
                elif r < 0.25:
                    m[str(rng.choice(ids))] = 0                            # a taxon of weight 0 does not count
                elif r < 0.30:
                    m[str(unknown[0])] = 1                                 # unknown taxid: panic
                r = rng.random()
                if olds and r < 0.25:
                    # round 2: several ids of ONE taxon (aliases and/or the taxon itself) in the same merged set: their weights add up
                    o = rng.choice(olds)
                    m[str(o)] = rng.choice([0, 1, 1, 2, 5])
                    m[str(T.resolve(o))] = rng.choice([0, 1, 1, 3])
                    for o2 in olds:
                        if o2 != o and T.resolve(o2) == T.resolve(o) and rng.random() < 0.7:
                            m[str(o2)] = rng.choice([0, 1, 2])
                elif r < 0.35:
                    # ties: two sister clades of equal weight
                    w = rng.randrange(1, 4)
                    for t in rng.sample(ids, min(n, 2)):
                        m[str(t)] = w
                s["merged"] = m
                if small:
                    s["thr"] = sorted({rng.choice([1.0, 1.0, 0.9, 0.75, 2 / 3, 0.6, 0.5, 0.5, 0.4, 1 / 3, 0.25, 0.1, 1.5, round(rng.random(), 3) or 0.5]) for _ in range(rng.randrange(1, 4))} | {1.0}, reverse=True)
                    s["reps"] = 12
                else:
                    s["thr"], s["reps"] = [1.0, rng.choice([0.5, 0.7])], 3
            case["seqs"].append(s)
    return case


CORPUS = [
    # hand-written: NCBI-like mini taxonomy (root 1), alias 99 -> 7, unknown 1234
    dict(kind="corpus", n=8, onlysn=False,
         nodes=[[1, 1, "no rank"], [2, 1, "kingdom"], [3, 2, "family"], [4, 3, "genus"], [5, 4, "species"], [6, 4, "species"], [7, 3, "genus"], [8, 7, "species"]],
         names=[[t, "taxon%d" % t, "scientific name"] for t in range(1, 9)] + [[5, "first synonym", "synonym"], [5, "second synonym", "synonym"], [8, "only synonym", "synonym"]],
         merged=[[99, 7], [98, 99], [97, 1234], [5, 6]],
         pairs=[[a, b] for a in (1, 2, 3, 4, 5, 6, 7, 8, 99, 98, 97, 1234) for b in (1, 2, 3, 4, 5, 6, 7, 8, 99, 98, 97, 1234)],
         paths=[1, 5, 8, 99, 98, 97, 1234], ranks=[[a, r] for a in (1, 5, 8, 99, 1234) for r in ("species", "genus", "family", "kingdom", "no rank", "order")],
         sets=[[5, [7, 3]], [5, [7]], [5, []], [8, [99]], [1, [1]], [99, [4, 5]], [1234, [1]]], resolve=[1, 5, 99, 98, 97, 1234, 0],
         namesq=[[5, "first synonym"], [5, "second synonym"], [8, "only synonym"], [5, "taxon5"], [5, "taxon6"]],
         seqs=[dict(taxid=5, merged={"5": 2, "6": 1}, restrict=[3], ignore=[7], require=["genus"], atrank=["genus", "family"], slot=4),
               dict(taxid=8, merged={"5": 2, "8": 1, "99": 4}, restrict=[4, 99], ignore=[4], require=["species", "kingdom"], atrank=["species"], slot=99),
               dict(taxid=99, merged={"99": 1}, restrict=[7], ignore=[8], require=["genus"], atrank=["genus"]),
               dict(taxid=1234, merged={"5": 1}, restrict=[1], ignore=[1], require=["no rank"], atrank=["no rank"], slot=1),
               dict(taxid=None, merged={"5": 1, "6": 1, "4": 3}, restrict=[1], ignore=[2]),
               dict(taxid=5, merged=None, restrict=[1234]), dict(taxid=5, merged={"5": 1, "1234": 1}), dict(taxid=2, merged={"5": 0, "8": 3}),
               dict(taxid=5, merged={"5": 1, "1": 1}), dict(taxid=5, merged={"8": 5}, require=["order"], atrank=["order"])]),
    # a single node; duplicated rows (the later row replaces the earlier one)
    dict(kind="corpus", n=1, onlysn=True, nodes=[[7, 7, "no rank"]], names=[[7, "root", "scientific name"]], merged=[], pairs=[[7, 7], [7, 1], [1, 1]], paths=[7, 1],
         ranks=[[7, "no rank"], [7, "species"]], sets=[[7, [7]], [7, []]], resolve=[7, 1], namesq=[[7, "root"]], seqs=[dict(taxid=7, merged=None, restrict=[7], atrank=["no rank"]), dict(taxid=None, merged={"7": 3})]),
    dict(kind="corpus", n=4, onlysn=False, nodes=[[1, 1, "no rank"], [2, 1, "genus"], [3, 1, "genus"], [4, 2, "species"], [4, 3, "species"]],
         names=[[t, "taxon%d" % t, "scientific name"] for t in range(1, 5)], merged=[], pairs=[[4, 2], [4, 3], [4, 4]], paths=[4], ranks=[[4, "genus"]], sets=[], resolve=[4], namesq=[], seqs=[]),
]
# round 2: thresholds below 1.0 (ties, alias weights), Taxon(interface{}) forms, IsNameMatching, rows outside the tree, a taxon without scientific name
_R2NODES = [[1, 1, "no rank"], [2, 1, "kingdom"], [3, 2, "family"], [4, 3, "genus"], [5, 4, "species"], [6, 4, "species"], [7, 3, "genus"], [8, 7, "species"]]
CORPUS += [
    dict(kind="corpus", n=8, onlysn=False, nodes=_R2NODES,
         names=[[t, "taxon%d" % t, "scientific name", "uniq %d" % t] for t in range(1, 9)] + [[5, "first synonym", "synonym", ""], [5, "Homo sapiens", "scientific name", ""], [8, "only synonym", "common name", ""]],
         merged=[[99, 7], [98, 99], [96, 98], [95, 96], [94, 95]],
         resolve=[99, 98, 96, 95, 94], pairs=[[94, 5], [95, 8]], paths=[94],
         namesq=[[5, "taxon5"], [5, "Homo sapiens"], [5, "first synonym"], [5, ""]], namesm=[[5, "^Homo"], [5, "^taxon"], [5, "syn"], [8, "^only"], [8, "^taxon8$"], [2, "x.n2"]],
         forms=[["int", 5], ["str", "5"], ["str", "TX:5"], ["str", "x TX:98 y"], ["f64", 5.0], ["i64", 5], ["nil", None], ["bytes", "5"], ["str", "+5"], ["str", "-5"], ["str", " 5"],
                ["str", "TX:99999999999999999999999"], ["str", "5_0"], ["str", "0x5"], ["str", "TX:5TX:6"], ["str", "TXTX:6"], ["str", "TX:x TX:7"]],
         seqs=[dict(taxid=5, merged={"5": 1, "6": 1, "8": 2}, thr=[1.0, 0.75, 0.5, 0.4, 0.25], reps=40),        # tie 4 | 7 at 0.5, then 5 | 6 at 0.25
               dict(taxid=5, merged={"99": 4, "7": 1, "5": 2}, thr=[1.0, 0.6, 0.3], reps=40),                    # 99 is an alias of 7: node 7 weighs 5
               dict(taxid=5, merged={"99": 0, "7": 1, "5": 2}, thr=[1.0], reps=40),                              # (7 overwritten with 0 before the fix: LCA 5 or 3)
               dict(taxid=5, merged={"94": 1, "95": 1, "8": 1, "5": 1}, thr=[1.0, 0.7, 0.5], reps=20),
               dict(taxid=5, merged={"5": 3, "6": 2, "4": 1, "3": 1}, thr=[1.0, 0.9, 5 / 7, 0.7, 0.5, 0.3], reps=10),  # inner nodes among the merged taxa
               dict(taxid=None, merged=None, thr=[1.0], reps=1),
               dict(taxid=5, merged={"5": 0, "8": 0}, thr=[1.0, 0.5], reps=5),
               dict(taxid=5, merged={"5": 2, "8": 1}, thr=[1.5, 1.0, 2 / 3, 0.6666666666666667, 0.66666666666666674], reps=5)]),
    # rows outside the tree (dangling parent) + a taxon without scientific name (6) that is the genus of nobody but the species of itself
    dict(kind="corpus", n=8, onlysn=False, nodes=_R2NODES + [[50, 777, "species"], [51, 50, "species"]], loads=8, garbage=[50, 51],
         names=[[t, "taxon%d" % t, "scientific name"] for t in (1, 2, 3, 5, 7, 8, 50, 51)] + [[4, "just a synonym", "synonym"]], merged=[],
         pairs=[[5, 8], [8, 5], [5, 5], [6, 4], [50, 5], [5, 50], [51, 50], [50, 50]], paths=[5, 8, 50, 51], ranks=[[5, "genus"], [8, "family"], [50, "species"], [51, "genus"]],
         sets=[[5, [7, 50]], [8, [7]]], resolve=[5, 50, 51], namesq=[[4, "just a synonym"], [6, "x"]], namesm=[[4, "syn"], [5, "^t"]],
         seqs=[dict(taxid=5, merged={"5": 1, "6": 1}, restrict=[3], atrank=["genus", "species"], thr=[1.0], reps=3),
               dict(taxid=6, merged=None, atrank=["species", "family"])]),
]
for c in CORPUS:
    for k in ("pairs", "paths", "ranks", "sets", "resolve", "namesq", "seqs"):
        c.setdefault(k, [])

# the taxonomy is not a tree: parent cycle 2 <-> 3 beside the root (outside the quantifier of the property; exhibited as termination finding)
CYCLE = dict(kind="cycle", n=3, onlysn=True, nodes=[[1, 1, "no rank"], [2, 3, "genus"], [3, 2, "species"]], names=[[t, "taxon%d" % t, "scientific name"] for t in (1, 2, 3)],
             merged=[], pairs=[], paths=[2], ranks=[], sets=[], resolve=[], namesq=[], seqs=[])


def gen_cases(ctx, quick):
    rng = ctx.rng
    cases = [json.loads(json.dumps(c)) for c in CORPUS]
    # exhaustive small scope: every rooted tree up to nmax nodes x all pairs (with aliases and unknown ids) x all ranks
    nmax = 5 if quick else 6         # round 2: every rooted tree with at most 5 nodes in the quick tier
    nex = 0
    for n in range(1, nmax + 1):
        for par in all_parent_maps(n):
            cases.append(mk_case(rng, list(par), "all%d" % n, 4, exhaustive=True, ranks=RANKS[:3], with_seqs=(n <= 5)))
            nex += 1
    sizes = ([(8, 40), (40, 25), (300, 6)] if quick else [(8, 1000), (40, 400), (300, 80), (1500, 12)])
    for n, k in sizes:
        for _ in range(k):
            m = rng.randrange(max(2, n // 3), n + 1)
            kind = rng.choice(["rrt", "rrt", "deep", "caterpillar", "binary", "chain", "star"])
            cases.append(mk_case(rng, shape(rng, m, kind), kind, 30))
    big = [("rrt", 2000), ("deep", 1500), ("chain", 600), ("star", 1500)] if quick else \
          [("rrt", 5000), ("rrt", 3000), ("deep", 5000), ("chain", 3000), ("star", 5000), ("caterpillar", 4000), ("binary", 4095)]
    for kind, n in big:
        cases.append(mk_case(rng, shape(rng, n, kind), kind, 40))
    return cases, nex


# ------------------------------------------------------------------ Gallina rendering
def zl(l):
    return "[" + "; ".join("(%d)" % x if x < 0 else str(x) for x in l) + "]%Z"


def nl(l):
    return "[" + "; ".join(str(x) for x in l) + "]"


STRTAB = {}


def bl(x):
    """byte string -> name of a Gallina constant defined once per generated file (keeps the case terms small)"""
    return STRTAB.setdefault(x, "b%d" % len(STRTAB))


FTAB = {}


def strtab_defs():
    return "".join("Definition %s : spec_float := %s.\n" % (k, x) for x, k in FTAB.items()) + \
        "".join("Definition %s : list N := [%s].\n" % (k, ";".join(str(c) for c in x.encode("utf8"))) for x, k in STRTAB.items())


def sf(bits):
    return FTAB.setdefault(sf_lit(bits), "f%d" % len(FTAB))


def sf_lit(bits):
    """IEEE binary64 bit pattern -> SpecFloat.spec_float literal"""
    sign = "true" if bits >> 63 else "false"
    e, f = (bits >> 52) & 0x7ff, bits & ((1 << 52) - 1)
    if e == 0x7ff:
        return "S754_nan" if f else "(S754_infinity %s)" % sign
    if e == 0 and f == 0:
        return "(S754_zero %s)" % sign
    if e == 0:
        return "(S754_finite %s %d (-1074))" % (sign, f)
    return "(S754_finite %s %d (%d))" % (sign, f | (1 << 52), e - 1075)


def name_line(r):
    """the line of names.dmp the harness writes for a row [taxid, name, class, unique name, layout]"""
    uniq = r[3] if len(r) > 3 else ""
    layout = r[4] if len(r) > 4 else 0
    if layout == 1:
        return "%d|%s|%s|%s|" % (r[0], r[1], uniq, r[2])
    if layout == 2:
        return " %d | %s  |%s |  %s | " % (r[0], r[1], uniq, r[2])
    return "%d\t|\t%s\t|\t%s\t|\t%s\t|" % (r[0], r[1], uniq, r[2])


def form_term(kind, v):
    if kind == "int":
        return "FInt (%d)%%Z" % v
    if kind == "str":
        return "FStr %s" % bl(v)
    return "FOther"


def case_term(case, obs):
    rc = {}

    def rcode(r):
        return rc.setdefault(r, len(rc))
    nodes = "[" + "; ".join("(%d,%d,%d)" % (t, p, rcode(r)) for t, p, r in case["nodes"]) + "]"
    merged = "[" + "; ".join("(%d,%d)" % (o, n) for o, n in case["merged"]) + "]"
    pairs = "[" + "; ".join("(%d,%d,(%d)%%Z,(%d)%%Z)" % (a, b, o["lca"], o["sub"]) for (a, b), o in zip(case["pairs"], obs["pairs"] or [])) + "]"
    paths = "[" + "; ".join("(%d,%s)" % (a, zl([-1] if o is None else o)) for a, o in zip(case["paths"], obs["paths"] or [])) + "]"
    ranks = "[" + "; ".join("(%d,%d,(%d)%%Z,(%d)%%Z,(%d)%%Z)" % (a, rcode(r), o["at"], o["nil"], o["has"]) for (a, r), o in zip(case["ranks"], obs["ranks"] or [])) + "]"
    sets = "[" + "; ".join("(%d,%s,(%d)%%Z)" % (a, nl(ids), o) for (a, ids), o in zip(case["sets"], obs["sets"] or [])) + "]"
    res = "[" + "; ".join("(%d,(%d)%%Z)" % (a, o) for a, o in zip(case["resolve"], obs["resolve"] or [])) + "]"
    seqs = []
    for s, o in zip(case["seqs"], obs["seqs"] or []):
        tx = "None" if s.get("taxid") is None else "(Some %d)" % s["taxid"]
        mg = "None" if s.get("merged") is None else "(Some [" + "; ".join("(%d,(%d)%%Z)" % (int(k), w) for k, w in s["merged"].items()) + "])"
        sv = s["slotstr"] if s.get("slotstr") is not None else (str(s["slot"]) if s.get("slot") is not None else None)
        sl = "None" if sv is None else "(Some (FStr %s))" % bl(sv)      # the model parses the attribute value itself (taxon_of)
        at = "[" + "; ".join("(%d,(%d)%%Z)" % (rcode(k), (o.get("atrank") or {}).get(k, -99)) for k in (s.get("atrank") or [])) + "]"
        thr = []
        for t, ot in zip(s.get("thr") or [], o.get("thr") or []):
            outs = "; ".join("((%d)%%Z, %s, (%d)%%Z)" % (q["t"], sf(int(q["b"]) if q["b"] else 0), q["g"]) for q in ot if q["t"] != -100)
            thr.append("(%s, [%s])" % (sf(fbits(t)), outs))
        seqs.append("mkseq %s %s %s %s %s %s %s %s [%s] (%d)%%Z" % (tx, mg, nl(s.get("restrict") or []), nl(s.get("ignore") or []), nl([rcode(k) for k in (s.get("require") or [])]), at, sl,
                                                      zl([o["valid"], o["restrict"], o["ignore"], o["require"], o["slotsub"], o["wlca"], o["lcaattr"]]), "; ".join(thr), o.get("notax", -9)))
    TT = Tax(case)
    nrows = case["names"]
    if case["n"] > 60:      # large taxonomies: only the rows of the taxa whose names are queried (the model filters on the taxid anyway)
        asked = {TT.resolve(q[0]) for q in (case["namesq"] or []) + (case.get("namesm") or [])}
        nrows = [r for r in nrows if r[0] in asked]
    names = "[" + "; ".join("(%d,%s,%s)" % (r[0], bl(r[1].strip()), bl(r[2].strip())) for r in nrows) + "]"
    namesq = "[" + "; ".join("(%d,%s,(%d)%%Z)" % (a, bl(n), o) for (a, n), o in zip(case["namesq"], obs["namesq"] or [])) + "]"
    pc = {}
    namesm = "[" + "; ".join("(%d,%d,(%d)%%Z)" % (a, pc.setdefault(pat, len(pc)), o) for (a, pat), o in zip(case.get("namesm") or [], obs.get("namesm") or [])) + "]"
    need = sorted({(pat, r[1].strip()) for a, pat in case.get("namesm") or [] for r in case["names"] if r[0] == TT.resolve(a)})
    retab = "[" + "; ".join("(%d,%s,%s)" % (pc[pat], bl(n), "true" if re.search(pat, n) else "false") for pat, n in need) + "]"
    forms = "[" + "; ".join("(%s,(%d)%%Z)" % (form_term(k, v), o) for (k, v), o in zip(case.get("forms") or [], obs.get("forms") or [])) + "]"
    nparse = "[" + "; ".join("(%s,(%d)%%Z,%s,%s)" % (bl(name_line(r)), r[0], bl(r[1].strip()), bl(r[2].strip())) for r in nrows[:6]) + "]"
    return "mkcase %s %s (%d)%%Z (%d)%%Z %s %s %s %s %s [%s] %s %s %s %s %s %s %s %s" % (nodes, merged, obs["len"], obs["nalias"], pairs, paths, ranks, sets, res, "; ".join(seqs),
                                                                 "true" if case.get("onlysn") else "false", names, namesq,
                                                                 "true" if TT.wf() else "false", forms, namesm, retab, nparse)


# ------------------------------------------------------------------ run
def nontrivial(case):
    """a case is non-trivial when the tree has >= 3 nodes and at least one queried pair is incomparable (LCA is neither of the two) or an alias is queried"""
    return case["n"] >= 3


def evaluate(ctx, cases, broken, label, coq=True):
    t0 = time.time()
    obs = ctx.vh_robust("c14", cases, timeout=600, one_timeout=30)
    ctx.cov["harness_s"] = round(ctx.cov.get("harness_s", 0) + time.time() - t0, 1)
    nviol = 0
    failing = []
    for i, (c, o) in enumerate(zip(cases, obs)):
        if o.get("kind") == "crash":
            bad = [("crash", 0, o, "ok")]
        else:
            bad = compare(c, o, expected(c))
        if bad:
            failing.append(i)
            nviol += 1
            if nviol <= 3:
                what, j, got, exp = bad[0]
                q = c[what.split(".")[0]][j] if what.split(".")[0] in c and j < len(c[what.split(".")[0]]) else None
                ctx.violation("%s_oracle_%d" % (label, i), dict(property="C14", kind="direct-oracle", what=what, query=q, implementation=got, expected=exp,
                                                              n_disagreements=len(bad), case=c))
    mism = []
    if coq:
        t0 = time.time()
        ok_idx = [i for i, o in enumerate(obs) if o.get("kind") == "ok"]
        small = [i for i in ok_idx if cases[i]["n"] <= 60]
        large = [i for i in ok_idx if cases[i]["n"] > 60]
        jobs = []
        for part, shard, nm in ((small, 25, label + "_s"), (large, 2, label + "_l")):
            for k in range(0, len(part), shard):      # one generated file per shard, each with its own table of string constants
                chunk = part[k:k + shard]
                STRTAB.clear()
                FTAB.clear()
                terms = [case_term(cases[i], obs[i]) for i in chunk]
                jobs.append((chunk, "%s%d" % (nm, k // shard), IMPORTS + "\n" + strtab_defs(), terms))

        def one(job):
            chunk, nm, imports, terms = job
            for attempt in range(3):     # a coqc killed from outside (other checks share the machine) is retried, a real failure is not
                bad, err = ctx.correspond(nm, imports, terms, shard=len(terms))
                if bad is not None or not any(w in (err or "") for w in ("Terminated", "Killed")):
                    break
            return chunk, bad, err
        from concurrent.futures import ThreadPoolExecutor
        with ThreadPoolExecutor(max_workers=14) as ex:
            results = list(ex.map(one, jobs))
        for chunk, bad, err in results:
            if bad is None:
                broken.append(dict(kind="correspondence", detail=err))
            else:
                mism += [chunk[i] for i in bad]
        ctx.cov["model_evaluations"] = len(small) + len(large)
        ctx.cov["coq_eval_s"] = round(ctx.cov.get("coq_eval_s", 0) + time.time() - t0, 1)
    return obs, sorted(mism), failing


def run_cycle(ctx):
    """parent cycle: the loader accepts it and Path never returns (termination finding; outside wf_tax)."""
    obs = ctx.vh_robust("c14", [CYCLE], timeout=4, one_timeout=4)
    o = obs[0]
    ctx.cov["cycle_observation"] = o.get("kind")
    # Outside the property's quantifier (a parent cycle is not a rooted tree): recorded in the evidence as an
    # observation (termination finding of the model: C14_path_cycle_out_of_fuel), never raised.
    ctx.cov["cycle_observation_note"] = "nodes.dmp with a parent cycle 2->3->2: Path never returns (harness timeout) — outside wf_tax, observation only"


def run_hang(ctx):
    """Taxonomy.LCA(seq, 0.0) (--lca-error 1): `for rmax >= threshold` never exits (observation; C14_wld_never_returns_when_every_score_passes)."""
    c = json.loads(json.dumps(CORPUS[0]))
    for k in ("pairs", "paths", "ranks", "sets", "resolve", "namesq"):
        c[k] = []
    c["seqs"] = [dict(taxid=5, merged={"5": 1, "8": 1}, thr=[0.0], reps=1)]
    obs = ctx.vh_robust("c14", [c], timeout=4, one_timeout=4)
    ctx.cov["threshold0_observation"] = obs[0].get("kind")
    ctx.cov["threshold0_observation_note"] = "Taxonomy.LCA(seq, 0.0): the loop never exits (harness timeout = kind 'crash') - outside the property, observation only"


def queries(c):
    return sum(len(c.get(k) or []) for k in ("pairs", "paths", "ranks", "sets", "resolve", "namesq", "namesm", "forms", "seqs")) + \
        sum(len(s.get("thr") or []) * (s.get("reps") or 1) for s in c["seqs"])


def run(ctx, broken):
    cases, nex = gen_cases(ctx, ctx.quick)
    obs, mism, failing = evaluate(ctx, cases, broken, "main")
    run_cycle(ctx)
    run_hang(ctx)
    run_cli(ctx, broken)
    ctx.cov["evaluations"] = sum(queries(c) for c in cases)
    ctx.cov["taxonomies"] = len(cases)
    ctx.cov["exhaustive"] = True
    ctx.cov["exhaustive_scope"] = "all %d rooted trees with at most %d nodes x all pairs of (nodes + aliases + unknown ids) x all ranks" % (nex, 5 if ctx.quick else 6)
    nt = set()
    for c in cases:
        T = Tax(c)
        for a, b in c["pairs"]:
            x, y = T.resolve(a), T.resolve(b)
            if x is not None and y is not None and x != y:
                nt.add((json.dumps(sorted(c["nodes"])), a, b))
    ctx.cov["distinct_nontrivial"] = len(nt)
    ctx.cov["rule"] = "non-trivial = a (taxonomy, pair) query whose two taxids resolve to two different taxa; distinct = distinct (node rows, pair)"
    dist = {}
    for c in cases:
        k = c["kind"] if c["kind"].startswith("all") or c["kind"] == "corpus" else "%s/n<=%d" % (c["kind"], 10 ** len(str(c["n"])))
        dist[k] = dist.get(k, 0) + 1
    ctx.cov["distribution"] = dist
    ctx.cov["max_nodes"] = max(c["n"] for c in cases)
    ctx.samples = [dict(nodes=c["nodes"][:8], merged=c["merged"], pairs=list(zip(c["pairs"][:5], (o.get("pairs") or [])[:5]))) for c, o in list(zip(cases, obs))[:2] + list(zip(cases, obs))[-40:-38]]
    ctx.cov["model_vs_impl_mismatches"] = len(mism)
    if mism and not ctx.violations:
        more, _ = gen_cases(ctx, False)
        evaluate(ctx, more[: 3000], [], "search", coq=False)
        if not ctx.violations:
            i = mism[0]
            broken.append(dict(kind="correspondence", name="corr:C14/queries", first_diverging_case=cases[i], implementation=obs[i], n_diverging=len(mism)))
    elif mism:
        ctx.cov["note"] = "model and implementation diverge on %d taxonomies (violations reported by the direct oracle)" % len(mism)


# ------------------------------------------------------------------ CLI level (oracle only)
def run_cli(ctx, broken):
    bind, err = ctx.build_cmds(["obigrep", "obiannotate"])
    if bind is None:
        broken.append(dict(kind="cmd-build", detail=err))
        return
    rng = ctx.rng
    ntax = 3 if ctx.quick else 40
    nrun = 0
    for k in range(ntax):
        kind = rng.choice(["rrt", "deep", "caterpillar"])
        case = mk_case(rng, shape(rng, rng.randrange(6, 60), kind), kind, 10, with_seqs=False, plain=True)
        T = Tax(case)
        ids = [r[0] for r in case["nodes"]]
        olds = list(T.alias)
        recs = []
        for j in range(40):
            tx = rng.choice(ids + olds + [987654321]) if rng.random() < 0.95 else None
            keys = rng.sample(ids, min(len(ids), rng.randrange(1, 4)))
            recs.append(dict(id="s%d" % j, taxid=tx, merged={str(t): rng.randrange(1, 5) for t in keys}))
        opts = dict(clade=rng.choice(ids + olds), clade2=rng.choice(ids), rank=rng.choice(sorted(T.ranklist)))
        nrun += cli_check(ctx, bind, case, recs, opts, "cli_%d" % k)
    ctx.cov["cli_runs"] = nrun


def cli_check(ctx, bind, case, recs, opts, name):
    """obigrep -r/-i/--require-rank and obiannotate --with-taxon-at-rank/--add-lca-in on a synthetic dump, against the oracle"""
    T = Tax(case)
    clade, clade2, rank = opts["clade"], opts["clade2"], opts["rank"]
    nrun = 0
    with tempfile.TemporaryDirectory(prefix="c14cli") as d:
        write_dump(d, case)
        fa = os.path.join(d, "in.fasta")
        with open(fa, "w") as f:
            for r in recs:
                ann = dict(merged_taxid=r["merged"])
                if r["taxid"] is not None:
                    ann["taxid"] = r["taxid"]
                f.write(">%s %s\nacgtacgt\n" % (r["id"], json.dumps(ann)))

        def known(r):
            return T.resolve(r["taxid"] if r["taxid"] is not None else 1)

        def inc(r, c):
            return known(r) is not None and T.resolve(c) in T.anc(known(r))
        runs = [(["-r", str(clade)], lambda r: inc(r, clade)),
                (["-r", str(clade), "-r", str(clade2)], lambda r: inc(r, clade) or inc(r, clade2)),
                (["-i", str(clade2)], lambda r: not inc(r, clade2)),
                (["-i", str(clade2), "-i", str(clade)], lambda r: not (inc(r, clade) or inc(r, clade2))),
                (["--require-rank", rank], lambda r: known(r) is not None and T.at_rank(known(r), rank) is not None),
                (["-r", str(clade), "--require-rank", rank], lambda r: inc(r, clade) and T.at_rank(known(r), rank) is not None)]
        for args, pred in runs:
            rc, out, err2, dt = sh_cmd([os.path.join(bind, "obigrep"), "-t", d] + args + [fa])
            got = [l[1:].split()[0] for l in out.splitlines() if l.startswith(">")]
            exp = [r["id"] for r in recs if pred(r)]
            nrun += 1
            if rc != 0 or got != exp:
                ctx.violation("%s_obigrep_%d" % (name, nrun), dict(property="C14", kind="cli-oracle", cmd="obigrep -t DIR " + " ".join(args), rc=rc, selected=got, expected=exp,
                                                                 case=case, records=recs, opts=opts, stderr=err2[-500:]))
        # obiannotate: taxon at rank and LCA of the merged taxids (zero error)
        rc, out, err2, dt = sh_cmd([os.path.join(bind, "obiannotate"), "-t", d, "--with-taxon-at-rank", rank, "--add-lca-in", "x", fa])
        nrun += 1
        got = {}
        for l in out.splitlines():
            if l.startswith(">"):
                sid = l[1:].split()[0]
                try:
                    got[sid] = json.loads(l[l.index("{"):])
                except Exception:
                    got[sid] = None
        bad = None
        if rc != 0:
            bad = "exit %d" % rc
        for r in recs:
            a = got.get(r["id"])
            if a is None:
                bad = bad or "record %s missing" % r["id"]
                continue
            x = known(r)
            want = None if x is None else (T.at_rank(x, rank) if T.at_rank(x, rank) is not None else -1)
            if a.get(rank + "_taxid") != want:
                bad = bad or "%s: %s_taxid=%r expected %r" % (r["id"], rank, a.get(rank + "_taxid"), want)
            l = None
            for t in r["merged"]:
                l = int(t) if l is None else T.lca(l, int(t))
            if a.get("x_taxid") != l or a.get("x_error") not in (0, 0.0):
                bad = bad or "%s: x_taxid=%r x_error=%r expected %r, 0" % (r["id"], a.get("x_taxid"), a.get("x_error"), l)
        if bad:
            ctx.violation("%s_obiannotate" % name, dict(property="C14", kind="cli-oracle", cmd="obiannotate -t DIR --with-taxon-at-rank %s --add-lca-in x" % rank, what=bad,
                                                        case=case, records=recs, opts=opts, stderr=err2[-500:]))
    return nrun


def sh_cmd(argv, timeout=60):
    t0 = time.time()
    try:
        p = subprocess.run(argv, capture_output=True, timeout=timeout)
        return p.returncode, p.stdout.decode("utf8", "replace"), p.stderr.decode("utf8", "replace"), time.time() - t0
    except subprocess.TimeoutExpired:
        return 124, "", "TIMEOUT", time.time() - t0


def write_dump(d, case):
    with open(os.path.join(d, "nodes.dmp"), "w") as f:
        for t, p, r in case["nodes"]:
            f.write("%d\t|\t%d\t|\t%s\t|\t\t|\t0\t|\t1\t|\t1\t|\t0\t|\t0\t|\t0\t|\t0\t|\t0\t|\t\t|\n" % (t, p, r))
    with open(os.path.join(d, "names.dmp"), "w") as f:
        for r in case["names"]:
            f.write("%d\t|\t%s\t|\t%s\t|\t%s\t|\n" % (r[0], r[1], r[3] if len(r) > 3 else "", r[2]))
    with open(os.path.join(d, "merged.dmp"), "w") as f:
        for o, n in case["merged"]:
            f.write("%d\t|\t%d\t|\n" % (o, n))


def replay(ctx, rp):
    c = rp.get("case")
    if rp.get("kind") == "termination":
        run_cycle(ctx)
        print("replay cycle:", ctx.cov.get("cycle_observation"))
        return
    if rp.get("kind") == "cli-oracle":
        bind, err = ctx.build_cmds(["obigrep", "obiannotate"])
        n0 = len(ctx.violations)
        cli_check(ctx, bind, c, rp["records"], rp["opts"], "replay_cli")
        print("replay CLI:", "still failing" if len(ctx.violations) > n0 else "passes now")
        return
    obs, mism, failing = evaluate(ctx, [c], [], "replay")
    bad = compare(c, obs[0], expected(c)) if obs[0].get("kind") != "crash" else [("crash",)]
    print("replay:", "oracle disagreements:", bad[:5], "model-mismatch" if mism else "model-agrees")
